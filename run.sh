#!/bin/bash
# Single entry point used by MANIFEST.json commands.
#   ./run.sh <Cxx> <quick|thorough>     run a property check (rebuilds the harness from /repo's current tree)
#   ./run.sh replay <file>              re-execute the case recorded in a replay file
#   ./run.sh case <Cxx> <tier> <idx> [variant]   run one case verbosely
# Env: VERIF_SEED (default 1), VERIF_REPO (default /repo; another tree → alternate modfile).
set -u
VERIF_DIR="$(cd "$(dirname "$0")" && pwd)"
export VERIF_DIR
export GOFLAGS=-mod=mod GOPROXY=off GOWORK=off GOTOOLCHAIN=auto
unset GOSUMDB
REPO="${VERIF_REPO:-/repo}"
export VERIF_REPO="$REPO"
cd "$VERIF_DIR/harness" || exit 3
BIN="$VERIF_DIR/bin"
mkdir -p "$BIN"
MODARG=()
if [ "$REPO" != "/repo" ]; then
  # build against another source tree (used for mutation trials): alternate modfile, separate bin dir
  tag=$(echo "$REPO" | md5sum | cut -c1-8)
  BIN="$VERIF_DIR/bin/alt-$tag"; mkdir -p "$BIN"
  sed "s#=> /repo#=> $REPO#g" go.mod > "$BIN/go.mod"; cp go.sum "$BIN/go.sum"
  export VERIF_MODFILE="$BIN/go.mod"
  MODARG=(-modfile="$BIN/go.mod")
fi
tmpbin="$BIN/vcheck.tmp.$$"
if ! go build "${MODARG[@]}" -tags verif -o "$tmpbin" ./cmd/vcheck 2> "$BIN/build.$$.log"; then
  cat "$BIN/build.$$.log" >&2; rm -f "$BIN/build.$$.log" "$tmpbin"
  echo "BUILD-FAILED: harness does not build against $REPO" >&2
  exit 3
fi
rm -f "$BIN/build.$$.log"
mv -f "$tmpbin" "$BIN/vcheck"
case "${1:-}" in
  replay) exec "$BIN/vcheck" -replay "$2" ;;
  case)   exec "$BIN/vcheck" -prop "$2" -tier "$3" -case "$4" -variant "${5:-default}" -seed "${VERIF_SEED:-1}" ;;
  list)   exec "$BIN/vcheck" -list ;;
  *)      exec "$BIN/vcheck" -prop "$1" -tier "${2:-quick}" -seed "${VERIF_SEED:-1}" ;;
esac
