#!/usr/bin/env python3
"""Generate /verif/MANIFEST.json from manifest_src.json (per-property entries) and validate it."""
import json, sys, os
D = os.path.dirname(os.path.abspath(__file__))
src = json.load(open(os.path.join(D, "manifest_src.json")))
props = [json.loads(l) for l in open(os.path.join(D, "properties.jsonl"))]
checks, na = [], []
for p in props:
    pid = p["id"]
    e = src["checks"].get(pid)
    if e and e.get("claimed", True):
        c = {
            "property_id": pid,
            "quick_cmd": f"./run.sh {pid} quick",
            "thorough_cmd": f"./run.sh {pid} thorough",
            "evidence_file": f"/verif/evidence/{pid}.json",
            "replay_cmd_template": "./run.sh replay {path}",
            "engine": "vcheck",
            "level_claimed": {"category": e["level"], "text": e["text"], "design_ref": f"DESIGN.md §3 {pid}"},
            "level_note": e["note"],
            "technique": e["technique"],
        }
        checks.append(c)
    else:
        na.append({"property_id": pid, "reason": (e or {}).get("reason", src["default_reason"])})
m = {
    "version": 1,
    "setup_cmd": "./setup.sh",
    "hooks": src["hooks"],
    "engines": src["engines"],
    "checks": checks,
    "notes": src["notes"],
    "not_applicable": na,
}
json.dump(m, open(os.path.join(D, "MANIFEST.json"), "w"), indent=1)
try:
    import jsonschema
    jsonschema.validate(m, json.load(open("/root/.vp/MANIFEST.schema.json")))
    print("MANIFEST.json valid:", len(checks), "checks,", len(na), "not_applicable")
except ImportError:
    print("jsonschema missing; not validated")
