// Package ref holds the reference models (oracles). They work on gen.RefDB ground truth and share
// no code with goProbe's storage, condition or aggregation logic.
package ref

import (
	"fmt"
	"net/netip"
	"sort"
	"strings"

	"github.com/els0r/goProbe/v4/pkg/results"
	"verifharness/gen"
)

// QuerySpec is the oracle-side description of a query.
type QuerySpec struct {
	Attrs  []string // subset of sip dip dport proto, in any order
	Time   bool     // "time" label requested
	Ifaces []string // interfaces actually selected
	First  int64
	Last   int64
	Cond   *gen.Cond     // nil = no condition
	Dir    gen.DirFilter // "" = none
}

// RowKey identifies a result row: interface, timestamp (0 if time not requested) and the requested
// attributes (zero values for attributes not requested).
type RowKey struct {
	Iface string
	TS    int64
	SIP   netip.Addr
	DIP   netip.Addr
	Dport uint16
	Proto uint8
}

func (k RowKey) String() string {
	return fmt.Sprintf("%s@%d %v>%v:%d/%d", k.Iface, k.TS, k.SIP, k.DIP, k.Dport, k.Proto)
}

// Ctr are the four counters.
type Ctr struct{ BR, BS, PR, PS uint64 }

// Add sums.
func (c *Ctr) Add(o Ctr) { c.BR += o.BR; c.BS += o.BS; c.PR += o.PR; c.PS += o.PS }

// Rows is a result as a map.
type Rows map[RowKey]Ctr

func has(attrs []string, a string) bool {
	for _, x := range attrs {
		if x == a {
			return true
		}
	}
	return false
}

// Query computes the expected rows.
func Query(db *gen.RefDB, q QuerySpec) Rows {
	return QueryExtra(db, q, nil)
}

// QueryExtra is Query with additional in-memory flows per interface (live queries): they are
// treated as one more block without a timestamp.
func QueryExtra(db *gen.RefDB, q QuerySpec, live map[string][]gen.Flow) Rows {
	out := Rows{}
	add := func(iface string, ts int64, f gen.Flow) {
		if q.Cond != nil && !q.Cond.Eval(f) {
			return
		}
		k := RowKey{Iface: iface}
		if q.Time {
			k.TS = ts
		}
		if has(q.Attrs, "sip") {
			k.SIP = f.SIP
		}
		if has(q.Attrs, "dip") {
			k.DIP = f.DIP
		}
		if has(q.Attrs, "dport") {
			k.Dport = f.Dport
		}
		if has(q.Attrs, "proto") {
			k.Proto = f.Proto
		}
		c := out[k]
		c.Add(Ctr{f.BR, f.BS, f.PR, f.PS})
		out[k] = c
	}
	for _, name := range q.Ifaces {
		id := db.Iface(name)
		if id != nil {
			for _, b := range id.Blocks {
				if b.TS < q.First || b.TS > q.Last {
					continue
				}
				for _, f := range b.Flows {
					add(name, b.TS, f)
				}
			}
		}
		for _, f := range live[name] {
			add(name, 0, f)
		}
	}
	if q.Dir != "" {
		for k, c := range out {
			if !gen.DirKeep(q.Dir, c.PR, c.PS) {
				delete(out, k)
			}
		}
	}
	return out
}

// Totals sums all rows.
func (r Rows) Totals() Ctr {
	var t Ctr
	for _, c := range r {
		t.Add(c)
	}
	return t
}

// FromResult converts goProbe result rows to the oracle's representation. It returns an error
// string if two rows share a key (a group split in two).
func FromResult(rows results.Rows, q QuerySpec) (Rows, string) {
	out := Rows{}
	dup := ""
	for _, r := range rows {
		k := RowKey{Iface: r.Labels.Iface}
		if q.Time && !r.Labels.Timestamp.IsZero() {
			k.TS = r.Labels.Timestamp.Unix()
		}
		if has(q.Attrs, "sip") {
			k.SIP = r.Attributes.SrcIP
		}
		if has(q.Attrs, "dip") {
			k.DIP = r.Attributes.DstIP
		}
		if has(q.Attrs, "dport") {
			k.Dport = r.Attributes.DstPort
		}
		if has(q.Attrs, "proto") {
			k.Proto = r.Attributes.IPProto
		}
		c := Ctr{r.Counters.BytesRcvd, r.Counters.BytesSent, r.Counters.PacketsRcvd, r.Counters.PacketsSent}
		if _, ok := out[k]; ok && dup == "" {
			dup = k.String()
		}
		prev := out[k]
		prev.Add(c)
		out[k] = prev
	}
	return out, dup
}

// Diff describes the difference between expected and got (empty string = equal).
func Diff(want, got Rows) string {
	var msgs []string
	keys := map[RowKey]bool{}
	for k := range want {
		keys[k] = true
	}
	for k := range got {
		keys[k] = true
	}
	ks := make([]RowKey, 0, len(keys))
	for k := range keys {
		ks = append(ks, k)
	}
	sort.Slice(ks, func(i, j int) bool { return ks[i].String() < ks[j].String() })
	for _, k := range ks {
		w, wok := want[k]
		g, gok := got[k]
		switch {
		case wok && !gok:
			msgs = append(msgs, fmt.Sprintf("missing row %s want %+v", k, w))
		case !wok && gok:
			msgs = append(msgs, fmt.Sprintf("unexpected row %s got %+v", k, g))
		case w != g:
			msgs = append(msgs, fmt.Sprintf("row %s want %+v got %+v", k, w, g))
		}
		if len(msgs) >= 6 {
			msgs = append(msgs, "…")
			break
		}
	}
	return strings.Join(msgs, "; ")
}

// DiffClass gives a coarse, deterministic class of a difference for violation signatures.
func DiffClass(want, got Rows) string {
	missing, extra, wrong := 0, 0, 0
	for k, w := range want {
		g, ok := got[k]
		if !ok {
			missing++
		} else if g != w {
			wrong++
		}
	}
	for k := range got {
		if _, ok := want[k]; !ok {
			extra++
		}
	}
	var parts []string
	if missing > 0 {
		parts = append(parts, "rows_missing")
	}
	if extra > 0 {
		parts = append(parts, "rows_unexpected")
	}
	if wrong > 0 {
		parts = append(parts, "counters_wrong")
	}
	return strings.Join(parts, "+")
}
