package ref

import (
	"sort"

	"verifharness/gen"
)

// Merge-plan oracle (documented rule of `gpdb merge`), per interface and day:
//   - complete source day, destination lacks the day           -> copy   (result = source day)
//   - partial source day, destination lacks the day             -> rebuild from source (result = source day)
//   - both complete                                              -> keep destination; with overwrite: copy source
//   - source complete, destination partial, overwrite           -> copy source
//   - otherwise                                                  -> rebuild block by block: union by block
//     timestamp, destination wins conflicts (source with overwrite)
// A day is complete iff first <= dayStart+tol and last+blockDuration >= dayEnd-tol, where
// blockDuration is the distance of the last two blocks (300 s for a single block).

// MergeAction names the planned action.
type MergeAction string

const (
	ActSkip    MergeAction = "skip"
	ActCopy    MergeAction = "copy"
	ActRebuild MergeAction = "rebuild"
	ActNone    MergeAction = "none" // source lacks the day: nothing happens
)

// DayBlocks returns the blocks of one day (sorted by timestamp).
func DayBlocks(id *gen.IfaceData, day int64) []gen.Block {
	var out []gen.Block
	if id == nil {
		return nil
	}
	for _, b := range id.Blocks {
		if gen.DayStart(b.TS) == day {
			out = append(out, b)
		}
	}
	sort.Slice(out, func(i, j int) bool { return out[i].TS < out[j].TS })
	return out
}

// DayComplete implements the completeness rule.
func DayComplete(blocks []gen.Block, day, tol int64) bool {
	n := len(blocks)
	if n == 0 {
		return false
	}
	first, last := blocks[0].TS, blocks[n-1].TS
	dur := int64(300)
	if n > 1 {
		dur = blocks[n-1].TS - blocks[n-2].TS
	}
	return first <= day+tol && last+dur >= day+86400-1-tol
}

// MergeDay computes the expected destination day after a merge, the action, and the number of
// conflicting block timestamps resolved by destination / by source.
func MergeDay(src, dst []gen.Block, day, tol int64, overwrite bool) (res []gen.Block, act MergeAction, confDst, confSrc int) {
	if len(src) == 0 {
		return dst, ActNone, 0, 0
	}
	srcC := DayComplete(src, day, tol)
	if len(dst) == 0 {
		if srcC {
			return src, ActCopy, 0, 0
		}
		return src, ActRebuild, 0, 0
	}
	dstC := DayComplete(dst, day, tol)
	if srcC && dstC {
		if overwrite {
			return src, ActCopy, 0, 0
		}
		return dst, ActSkip, 0, 0
	}
	if overwrite && srcC {
		return src, ActCopy, 0, 0
	}
	by := map[int64]gen.Block{}
	for _, b := range dst {
		by[b.TS] = b
	}
	for _, b := range src {
		if _, ok := by[b.TS]; ok {
			if overwrite {
				by[b.TS] = b
				confSrc++
			} else {
				confDst++
			}
			continue
		}
		by[b.TS] = b
	}
	for _, b := range by {
		res = append(res, b)
	}
	sort.Slice(res, func(i, j int) bool { return res[i].TS < res[j].TS })
	return res, ActRebuild, confDst, confSrc
}

// Days returns the sorted set of day starts present in any of the interface data.
func Days(ids ...*gen.IfaceData) []int64 {
	set := map[int64]bool{}
	for _, id := range ids {
		if id == nil {
			continue
		}
		for _, b := range id.Blocks {
			set[gen.DayStart(b.TS)] = true
		}
	}
	var out []int64
	for d := range set {
		out = append(out, d)
	}
	sort.Slice(out, func(i, j int) bool { return out[i] < out[j] })
	return out
}
