package ref

import "net/netip"

// renderTZ6 is what the engine's result rendering does to an address (types.RawIPToAddr): a 16-byte
// address whose bytes 4..15 are all zero is reported as the IPv4 address formed by its first 4 bytes.
func renderTZ6(a netip.Addr) netip.Addr {
	if !a.IsValid() || !a.Is6() {
		return a
	}
	b := a.As16()
	for _, x := range b[4:] {
		if x != 0 {
			return a
		}
	}
	return netip.AddrFrom4([4]byte{b[0], b[1], b[2], b[3]})
}

// RenderTrailingZeroV6AsV4 returns the rows as they come out if (and only if) the known rendering
// defect for IPv6 addresses with 12 trailing zero bytes is applied to the expected rows: keys that
// become equal are merged, counters summed. changed reports whether any key was affected.
func RenderTrailingZeroV6AsV4(want Rows) (out Rows, changed bool) {
	out = Rows{}
	for k, c := range want {
		k2 := k
		k2.SIP, k2.DIP = renderTZ6(k.SIP), renderTZ6(k.DIP)
		if k2 != k {
			changed = true
		}
		prev := out[k2]
		prev.Add(c)
		out[k2] = prev
	}
	return out, changed
}
