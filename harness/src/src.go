// Package src provides a scripted packet source implementing slimcap's capture.SourceZeroCopy,
// handed to goProbe's real capture.Manager through capture.WithSourceInitFn. The harness decides
// exactly which packets are delivered when, including while a capture is paused by the three-point
// lock (write-out, status call, live query).
//
// Semantics mirror a ring-buffer source: NextIPPacketZeroCopy hands out a slice of ONE reused buffer
// which is overwritten (poisoned) by the next call, blocks while no packet is available, returns
// ErrCaptureUnblocked after Unblock() and ErrCaptureStopped after Close().
package src

import (
	"encoding/binary"
	"net/netip"
	"sync"
	"time"

	"github.com/fako1024/gotools/link"
	"github.com/fako1024/slimcap/capture"
)

// Packet is one scripted packet (IP layer bytes as the source would deliver them).
type Packet struct {
	IP   []byte
	Type capture.PacketType
	Size uint32 // total packet length reported by the source
}

// Source is a scripted capture source for one interface.
type Source struct {
	failErr error // pending scripted capture error (see Fail)
	Iface   string

	mu          sync.Mutex
	cond        *sync.Cond
	queue       []Packet
	delivered   int  // packets handed out by Next
	waiting     bool // consumer is blocked in Next with an empty queue
	unblocks    int  // total Unblock() calls
	unblockPend bool
	queueFirst  bool
	closed      bool
	buf         []byte
	recvSince   uint64 // packets delivered since the last Stats() call
	drops       uint64

	// StatsHook, if set, is called at the start of every Stats() call with the ordinal of the call
	// (1,2,...). goProbe calls Stats() while the capture is locked (write-out rotation, Status()).
	StatsHook func(n int)
	statsN    int
	// UnblockHook, if set, is called after every Unblock() with its ordinal (odd = lock request,
	// even = unlock request).
	UnblockHook func(n int)
}

// New creates a source.
func New(iface string) *Source {
	s := &Source{Iface: iface, buf: make([]byte, 0, 256)}
	s.cond = sync.NewCond(&s.mu)
	return s
}

// Feed queues packets for delivery (does not wait).
func (s *Source) Feed(pkts ...Packet) {
	s.mu.Lock()
	s.queue = append(s.queue, pkts...)
	s.cond.Broadcast()
	s.mu.Unlock()
}

// WaitIdle blocks until every queued packet has been handed out AND the consumer has come back
// asking for the next one (so the previous packet has been fully processed or buffered), or the
// source is closed.
func (s *Source) WaitIdle() {
	s.mu.Lock()
	for !(len(s.queue) == 0 && s.waiting) && !s.closed {
		s.cond.Wait()
	}
	s.mu.Unlock()
}

// FeedSync queues packets and waits until they have all been consumed.
func (s *Source) FeedSync(pkts ...Packet) {
	s.Feed(pkts...)
	s.WaitIdle()
}

// SetQueueFirst selects whether queued packets are served before a pending unblock notification
// (a packet that was already in the ring when the unblock arrived) or after it.
func (s *Source) SetQueueFirst(v bool) {
	s.mu.Lock()
	s.queueFirst = v
	s.mu.Unlock()
}

// WaitIdleOr waits like WaitIdle but gives up after d without progress (no packet consumed);
// it returns true if the source became idle. Used inside pauses where the consumer may legitimately
// stop consuming (local buffer overflow).
func (s *Source) WaitIdleOr(d time.Duration) bool {
	deadline := time.Now().Add(d)
	last := -1
	for {
		s.mu.Lock()
		idle := len(s.queue) == 0 && s.waiting
		closed := s.closed
		del := s.delivered
		s.mu.Unlock()
		if idle || closed {
			return idle
		}
		if del != last {
			last = del
			deadline = time.Now().Add(d)
		}
		if time.Now().After(deadline) {
			return false
		}
		time.Sleep(200 * time.Microsecond)
	}
}

// WaitIdleUntil waits like WaitIdleOr, but additionally gives up as soon as stop() reports true (e.g.
// "goProbe has logged a local buffer overflow", after which the consumer legitimately stops consuming
// until it is unlocked). d is only a safety net against a stuck consumer and should be generous:
// scheduling delays on a loaded machine must not be mistaken for a consumer that stopped.
func (s *Source) WaitIdleUntil(d time.Duration, stop func() bool) bool {
	deadline := time.Now().Add(d)
	last := -1
	for n := 0; ; n++ {
		s.mu.Lock()
		idle := len(s.queue) == 0 && s.waiting
		closed := s.closed
		del := s.delivered
		s.mu.Unlock()
		if idle || closed {
			return idle
		}
		if del != last {
			last = del
			deadline = time.Now().Add(d)
		}
		if time.Now().After(deadline) || (n%16 == 15 && stop != nil && stop()) {
			return false
		}
		time.Sleep(200 * time.Microsecond)
	}
}

// Fail makes every further packet fetch return err (a capture error: goProbe's processing loop reports
// it and ends, after which the manager tears the interface down).
func (s *Source) Fail(err error) {
	s.mu.Lock()
	s.failErr = err
	s.cond.Broadcast()
	s.mu.Unlock()
}

// Pending returns the number of queued, not yet delivered packets.
func (s *Source) Pending() int {
	s.mu.Lock()
	defer s.mu.Unlock()
	return len(s.queue)
}

// Delivered returns the number of packets handed out so far.
func (s *Source) Delivered() int {
	s.mu.Lock()
	defer s.mu.Unlock()
	return s.delivered
}

// Unblocks returns the number of Unblock() calls so far.
func (s *Source) Unblocks() int {
	s.mu.Lock()
	defer s.mu.Unlock()
	return s.unblocks
}

// SetDrops sets the drop counter reported by the next Stats() call.
func (s *Source) SetDrops(n uint64) {
	s.mu.Lock()
	s.drops = n
	s.mu.Unlock()
}

// NextIPPacketZeroCopy implements capture.SourceZeroCopy.
func (s *Source) NextIPPacketZeroCopy() (capture.IPLayer, capture.PacketType, uint32, error) {
	s.mu.Lock()
	defer s.mu.Unlock()
	for {
		if s.closed {
			return nil, 0, 0, capture.ErrCaptureStopped
		}
		if s.failErr != nil {
			// sticky, like a broken device: every fetch fails until the source is closed (a one-shot
			// error that happens to be fetched inside a pause is reported but does not end the capture)
			return nil, 0, 0, s.failErr
		}
		if s.unblockPend && !(s.queueFirst && len(s.queue) > 0) {
			s.unblockPend = false
			return nil, 0, 0, capture.ErrCaptureUnblocked
		}
		if len(s.queue) > 0 {
			p := s.queue[0]
			s.queue = s.queue[1:]
			// poison the previously returned bytes, then reuse the buffer (ring-buffer semantics)
			for i := range s.buf[:cap(s.buf)] {
				s.buf[:cap(s.buf)][i] = 0xAA
			}
			if cap(s.buf) < len(p.IP) {
				s.buf = make([]byte, 0, 2*len(p.IP))
			}
			s.buf = s.buf[:len(p.IP)]
			copy(s.buf, p.IP)
			s.delivered++
			s.recvSince++
			s.waiting = false
			s.cond.Broadcast()
			// exact length, exact capacity view would hide overreads; keep capacity = len
			return capture.IPLayer(s.buf[:len(p.IP):len(p.IP)]), p.Type, p.Size, nil
		}
		s.waiting = true
		s.cond.Broadcast()
		s.cond.Wait()
		s.waiting = false
	}
}

// Unblock implements capture.Source.
func (s *Source) Unblock() error {
	s.mu.Lock()
	s.unblocks++
	n := s.unblocks
	s.unblockPend = true
	s.cond.Broadcast()
	hook := s.UnblockHook
	s.mu.Unlock()
	if hook != nil {
		hook(n)
	}
	return nil
}

// Stats implements capture.Source.
func (s *Source) Stats() (capture.Stats, error) {
	s.mu.Lock()
	s.statsN++
	n := s.statsN
	hook := s.StatsHook
	s.mu.Unlock()
	if hook != nil {
		hook(n)
	}
	s.mu.Lock()
	defer s.mu.Unlock()
	st := capture.Stats{PacketsReceived: s.recvSince, PacketsDropped: s.drops}
	s.recvSince, s.drops = 0, 0
	return st, nil
}

// Close implements capture.Source.
func (s *Source) Close() error {
	s.mu.Lock()
	s.closed = true
	s.cond.Broadcast()
	s.mu.Unlock()
	return nil
}

// IsClosed reports whether Close was called.
func (s *Source) IsClosed() bool {
	s.mu.Lock()
	defer s.mu.Unlock()
	return s.closed
}

// Link implements capture.Source.
func (s *Source) Link() *link.Link { return &link.Link{Name: s.Iface, Type: link.TypeEthernet} }

// The remaining methods of capture.Source are not used by goProbe's capture loop.

// NewPacket implements capture.Source.
func (s *Source) NewPacket() capture.Packet { return make(capture.Packet, 256) }

// NextPacket implements capture.Source.
func (s *Source) NextPacket(pBuf capture.Packet) (capture.Packet, error) {
	ip, t, n, err := s.NextIPPacketZeroCopy()
	if err != nil {
		return nil, err
	}
	return capture.NewIPPacket(pBuf, ip, t, int(n), 0), nil
}

// NextPayload implements capture.Source.
func (s *Source) NextPayload(pBuf []byte) ([]byte, byte, uint32, error) {
	ip, t, n, err := s.NextIPPacketZeroCopy()
	return append(pBuf[:0], ip...), t, n, err
}

// NextIPPacket implements capture.Source.
func (s *Source) NextIPPacket(pBuf capture.IPLayer) (capture.IPLayer, capture.PacketType, uint32, error) {
	ip, t, n, err := s.NextIPPacketZeroCopy()
	return append(pBuf[:0], ip...), t, n, err
}

// NextPacketFn implements capture.Source.
func (s *Source) NextPacketFn(fn func(payload []byte, totalLen uint32, pktType capture.PacketType, ipLayerOffset byte) error) error {
	ip, t, n, err := s.NextIPPacketZeroCopy()
	if err != nil {
		return err
	}
	return fn(ip, n, t, 0)
}

// NextPayloadZeroCopy implements capture.SourceZeroCopy.
func (s *Source) NextPayloadZeroCopy() ([]byte, capture.PacketType, uint32, error) {
	ip, t, n, err := s.NextIPPacketZeroCopy()
	return ip, t, n, err
}

// ---------------------------------------------------------------------------------------------
// byte-wise packet construction (slimcap's BuildPacket produces TCP headers that are too short for
// goProbe's minimum and would silently become "truncated" packets)

// PacketSpec describes a packet semantically; the oracle works on this, goProbe on Bytes().
type PacketSpec struct {
	Src, Dst     netip.Addr
	Proto        uint8
	Sport, Dport uint16
	TCPFlags     uint8
	ICMPType     uint8
	Outgoing     bool   // capture.PacketOutgoing vs. PacketThisHost
	Size         uint32 // total length on the wire
	FragOffset   uint16 // non-zero: non-first fragment (IPv4 only)
	Truncate     int    // if >0: deliver only this many bytes of the IP layer
	BadVersion   bool   // invalid IP version nibble
}

// IsV4 reports the family.
func (p PacketSpec) IsV4() bool { return p.Src.Is4() }

// Bytes crafts the IP layer (header + minimal transport header).
func (p PacketSpec) Bytes() []byte {
	var b []byte
	transport := func() []byte {
		switch p.Proto {
		case 6:
			t := make([]byte, 20)
			binary.BigEndian.PutUint16(t[0:], p.Sport)
			binary.BigEndian.PutUint16(t[2:], p.Dport)
			t[12] = 5 << 4
			t[13] = p.TCPFlags
			return t
		case 17:
			t := make([]byte, 8)
			binary.BigEndian.PutUint16(t[0:], p.Sport)
			binary.BigEndian.PutUint16(t[2:], p.Dport)
			binary.BigEndian.PutUint16(t[4:], 8)
			return t
		case 1, 58:
			t := make([]byte, 8)
			t[0] = p.ICMPType
			return t
		default:
			return make([]byte, 8)
		}
	}()
	if p.IsV4() {
		b = make([]byte, 20, 20+len(transport))
		b[0] = 0x45
		binary.BigEndian.PutUint16(b[2:], uint16(20+len(transport)))
		binary.BigEndian.PutUint16(b[6:], p.FragOffset&0x1fff)
		b[8] = 64
		b[9] = p.Proto
		s, d := p.Src.As4(), p.Dst.As4()
		copy(b[12:16], s[:])
		copy(b[16:20], d[:])
	} else {
		b = make([]byte, 40, 40+len(transport))
		b[0] = 0x60
		binary.BigEndian.PutUint16(b[4:], uint16(len(transport)))
		b[6] = p.Proto
		b[7] = 64
		s, d := p.Src.As16(), p.Dst.As16()
		copy(b[8:24], s[:])
		copy(b[24:40], d[:])
	}
	b = append(b, transport...)
	if p.BadVersion {
		b[0] = 0x15
	}
	if p.Truncate > 0 && p.Truncate < len(b) {
		b = b[:p.Truncate]
	}
	return b
}

// Packet converts the spec to a deliverable packet.
func (p PacketSpec) Packet() Packet {
	t := capture.PacketThisHost
	if p.Outgoing {
		t = capture.PacketOutgoing
	}
	sz := p.Size
	if sz == 0 {
		sz = 60
	}
	return Packet{IP: p.Bytes(), Type: t, Size: sz}
}
