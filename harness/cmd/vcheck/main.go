// Command vcheck is the single driver binary of the verification harness (parent, case children and
// helper roles). See /verif/DESIGN.md.
package main

import (
	"verifharness/fw"

	_ "verifharness/checks/all"
)

func main() { fw.Main() }
