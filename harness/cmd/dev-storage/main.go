// Command dev-storage is the development driver of the storage group (C01, C02, C03, C07).
package main

import (
	"verifharness/fw"

	_ "verifharness/checks/c01"
	_ "verifharness/checks/c02"
	_ "verifharness/checks/c03"
	_ "verifharness/checks/c07"
)

func main() { fw.Main() }
