// Command dev-dist is the development driver of group `dist` (properties C15, C31).
package main

import (
	_ "verifharness/checks/c15"
	_ "verifharness/checks/c31"
	"verifharness/fw"
)

func main() { fw.Main() }
