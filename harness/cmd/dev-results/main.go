// Command dev-results is the development driver of the `results` group (C13, C14, C17, C28).
package main

import (
	"verifharness/fw"

	_ "verifharness/checks/c13"
	_ "verifharness/checks/c14"
	_ "verifharness/checks/c17"
	_ "verifharness/checks/c28"
)

func main() { fw.Main() }
