// Command dev-capfn is the development driver of the capfn group (C18, C19, C22, C23).
package main

import (
	"verifharness/fw"

	_ "verifharness/checks/c18"
	_ "verifharness/checks/c19"
	_ "verifharness/checks/c22"
	_ "verifharness/checks/c23"
)

func main() { fw.Main() }
