// Command dev-capfn is the development driver of the capfn group (C18, C19, C22, C23).
package main

import (
	"verifharness/fw"

	_ "verifharness/checks/c19"
)

func main() { fw.Main() }
