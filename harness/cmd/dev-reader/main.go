// Command dev-reader is the development driver of the `reader` group (C06, C11, C12, C16).
package main

import (
	_ "verifharness/checks/c06"
	_ "verifharness/checks/c11"
	_ "verifharness/checks/c12"
	_ "verifharness/checks/c16"
	"verifharness/fw"
)

func main() { fw.Main() }
