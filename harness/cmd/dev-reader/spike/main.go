package main

import (
	"fmt"
	"math/rand"
	"os"
	"os/exec"

	"github.com/els0r/goProbe/v4/pkg/goDB/encoder/encoders"
	"verifharness/eng"
	"verifharness/gen"
)

func main() {
	r := rand.New(rand.NewSource(3))
	db := gen.RandRefDB(r, gen.DBOpts{MaxIfaces: 1, MaxDays: 2, MaxBlocksDay: 3, MaxFlows: 3, Flow: gen.FlowOpts{V6Prob: 0.4}})
	db.Ifaces[0].Blocks[0].Flows = nil
	p := "/tmp/reader-spike-db"
	os.RemoveAll(p)
	if err := db.Write(p, encoders.EncoderTypeLZ4, 0); err != nil {
		panic(err)
	}
	out, _ := exec.Command("find", p, "-type", "f", "-printf", "%p %s\n").Output()
	fmt.Println(string(out))
	fmt.Println(db.Summary())
	tss := db.AllTimestamps()
	res, err, pm := eng.Run(p, eng.Args("time,sip", "any", "", tss[0]-10, tss[len(tss)-1]+10))
	fmt.Println(err, pm)
	fmt.Printf("%+v\n", res.Summary.Stats)
}
