package main

import (
	"fmt"
	"math/rand"
	"os"
	"path/filepath"

	"github.com/els0r/goProbe/v4/pkg/goDB/encoder/encoders"
	"verifharness/eng"
	"verifharness/gen"
)

func main() {
	r := rand.New(rand.NewSource(5))
	db := gen.RandRefDB(r, gen.DBOpts{MaxIfaces: 1, MaxDays: 3, MaxBlocksDay: 3, MaxFlows: 4, Flow: gen.FlowOpts{V6Prob: 0.4}})
	p := "/tmp/reader-spike-db"
	os.RemoveAll(p)
	if err := db.Write(p, encoders.EncoderTypeZSTD, 0); err != nil {
		panic(err)
	}
	days, _ := filepath.Glob(p + "/*/*/*/*")
	fmt.Println(days, db.Summary())
	switch os.Args[1] {
	case "delete":
		os.Remove(days[0] + "/pkts_sent.gpf")
	case "foreign":
		b, _ := os.ReadFile(days[1] + "/.blockmeta")
		os.WriteFile(days[0]+"/.blockmeta", b, 0o644)
	}
	eng.QuietLogs(os.Stderr)
	tss := db.AllTimestamps()
	a := eng.Args("time,dip", "any", "", tss[0]-10, tss[len(tss)-1]+10)
	a.LowMem = os.Args[2] == "lowmem"
	res, err, pm := eng.Run(p, a)
	fmt.Println("ERR", err, pm)
	if res != nil {
		fmt.Printf("rows=%d %+v\n", len(res.Rows), res.Summary.Stats)
	}
}
