// Development driver of group cond (C09, C10; C08 is imported for diagnosis only).
//
// Extra role for interactive probing of one condition string against the real code:
//
//	vcheck -role probe 'snet = 10.128.0.0/9' ['10.200.3.4>10.0.0.1:80/6' ...]
package main

import (
	"fmt"
	"net/netip"
	"os"
	"runtime/pprof"
	"strings"
	"time"

	"github.com/els0r/goProbe/v4/pkg/goDB/conditions"
	_ "verifharness/checks/c08"
	_ "verifharness/checks/c09"
	_ "verifharness/checks/c10"
	"verifharness/condx"
	"verifharness/eng"
	"verifharness/fw"
	"verifharness/gen"
)

func main() {
	fw.RegisterRole("probe", probe)
	fw.RegisterRole("bench", bench)
	if pf := os.Getenv("COND_CPUPROFILE"); pf != "" { // development aid: profile a single -case run
		f, err := os.Create(pf)
		if err == nil {
			_ = pprof.StartCPUProfile(f)
			defer pprof.StopCPUProfile()
		}
	}
	fw.Main()
}

func probe(args []string) int {
	if len(args) == 0 {
		fmt.Println("usage: -role probe <condition> [sip>dip:dport/proto ...]")
		return 2
	}
	eng.QuietLogs(nil)
	text := args[0]
	fmt.Printf("input      %q\nsanitized  %q\n", text, conditions.SanitizeUserInput(text))
	t0 := time.Now()
	st, err, pmsg := condx.Prepare(text)
	fmt.Printf("prepare    err=%v panic=%q (%.1f ms)\n", err, condx.FirstLine(pmsg), float64(time.Since(t0).Microseconds())/1000)
	if st == nil || err != nil || pmsg != "" {
		return 1
	}
	fmt.Printf("canonical  %q\n", st.Condition)
	n, vf, perr, pp := condx.Parse(st.Condition)
	fmt.Printf("parse      node=%v filter=%v err=%v panic=%q\n", n, vf.FilterType, perr, condx.FirstLine(pp))
	if n == nil {
		return 0
	}
	for _, fs := range args[1:] {
		var f gen.Flow
		a, rest, _ := strings.Cut(fs, ">")
		i := strings.LastIndex(rest, ":")
		var dport, proto int
		fmt.Sscanf(rest[i+1:], "%d/%d", &dport, &proto)
		f.SIP, f.DIP = netip.MustParseAddr(a), netip.MustParseAddr(rest[:i])
		f.Dport, f.Proto = uint16(dport), uint8(proto)
		for l := condx.KeyLayout(0); l < condx.NumKeyLayouts; l++ {
			g := condx.NewGuardedKey(f, l)
			res, pm := condx.Eval(n, g.Key)
			fmt.Printf("flow %-50s layout=%d result=%v panic=%q changed=%q\n", f.KeyString(), l, res, condx.FirstLine(pm), g.Changed())
		}
	}
	return 0
}

// bench times the stages of condition preparation on nested / chained inputs of growing size.
func bench(args []string) int {
	eng.QuietLogs(nil)
	for _, n := range []int{500, 1000, 2000, 4000, 8000} {
		for _, kind := range []string{"nest", "chain"} {
			var text string
			if kind == "nest" {
				text = strings.Repeat("(", n) + "dport = 80" + strings.Repeat(")", n)
			} else {
				parts := make([]string, n)
				for i := range parts {
					parts[i] = fmt.Sprintf("dport = %d", i)
				}
				text = strings.Join(parts, " | ")
			}
			t0 := time.Now()
			san := conditions.SanitizeUserInput(text)
			t1 := time.Now()
			toks, _ := conditions.Tokenize(san)
			t2 := time.Now()
			_, _, err, _ := condx.Parse(san)
			t3 := time.Now()
			fmt.Printf("%-5s n=%-5d bytes=%-7d sanitize=%-10v tokenize=%-10v (%d tokens) parse+instrument=%-10v err=%v\n", kind, n, len(text), t1.Sub(t0), t2.Sub(t1), len(toks), t3.Sub(t2), err != nil)
		}
	}
	return 0
}
