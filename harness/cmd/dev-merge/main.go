// Command dev-merge is the development driver of the `merge` group (C24, C26).
package main

import (
	_ "verifharness/checks/c24"
	_ "verifharness/checks/c26"
	"verifharness/fw"
)

func main() { fw.Main() }
