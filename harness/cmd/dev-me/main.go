package main

import (
	"verifharness/fw"

	_ "verifharness/checks/c04"
	_ "verifharness/checks/c05"
	_ "verifharness/checks/c08"
	_ "verifharness/checks/c20"
	_ "verifharness/checks/c21"
	_ "verifharness/checks/c25"
	_ "verifharness/checks/c29"
	_ "verifharness/checks/c30"
	_ "verifharness/roles"
)

func main() { fw.Main() }
