package main

import (
	"verifharness/fw"

	_ "verifharness/checks/c04"
	_ "verifharness/checks/c08"
	_ "verifharness/roles"
)

func main() { fw.Main() }
