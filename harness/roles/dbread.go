package roles

import (
	"encoding/gob"
	"fmt"
	"os"

	"verifharness/dbx"
	"verifharness/eng"
	"verifharness/fw"
)

// LoadView reads a view written by the dbread role.
func LoadView(path string) (dbx.View, error) {
	var v dbx.View
	f, err := os.Open(path)
	if err != nil {
		return v, err
	}
	defer f.Close()
	err = gob.NewDecoder(f).Decode(&v)
	return v, err
}

func init() {
	// dbread <dbpath> <outfile>: reads the database through goProbe's real reader paths (engine query
	// over everything, ReadMetadata listing per interface, interface list) and stores the view.
	// Announces "B 0" before and "E 0" after reading on fd 3.
	fw.RegisterRole("dbread", func(args []string) int {
		if len(args) != 2 {
			fmt.Fprintln(os.Stderr, "usage: dbread <dbpath> <outfile>")
			return 3
		}
		if lp := os.Getenv("VERIF_DEBUG_LOG"); lp != "" {
			if lf, err := os.OpenFile(lp, os.O_CREATE|os.O_APPEND|os.O_WRONLY, 0o644); err == nil {
				eng.QuietLogs(lf)
			}
		} else {
			eng.QuietLogs(nil)
		}
		Marker("B 0")
		v := dbx.Observe(args[0])
		Marker("E 0")
		f, err := os.Create(args[1])
		if err != nil {
			fmt.Fprintln(os.Stderr, err)
			return 3
		}
		defer f.Close()
		if err := gob.NewEncoder(f).Encode(v); err != nil {
			fmt.Fprintln(os.Stderr, err)
			return 3
		}
		return 0
	})
}
