// Package roles holds helper roles executed as separate processes (`vcheck -role <name> args...`),
// typically under the ptrace tracer: the real goProbe writer, merger, reader.
package roles

import (
	"encoding/json"
	"fmt"
	"os"
	"strconv"

	"github.com/els0r/goProbe/v4/pkg/goDB/encoder/encoders"
	"verifharness/eng"
	"verifharness/fw"
	"verifharness/gen"
)

// WriteOut is one (interface, block) write of a history.
type WriteOut struct {
	Iface string
	Block gen.Block
}

// History is an ordered list of write-outs plus the encoder configuration.
type History struct {
	Encoder int // encoders.Type
	Level   int
	Outs    []WriteOut
}

// HistoryFromRefDB flattens a RefDB into write order: by timestamp, then interface order.
func HistoryFromRefDB(db *gen.RefDB, enc encoders.Type, level int) *History {
	h := &History{Encoder: int(enc), Level: level}
	for _, ts := range db.AllTimestamps() {
		for _, id := range db.Ifaces {
			for _, b := range id.Blocks {
				if b.TS == ts {
					h.Outs = append(h.Outs, WriteOut{Iface: id.Name, Block: b})
				}
			}
		}
	}
	return h
}

// RefDBOf rebuilds the RefDB consisting of the write-outs selected by keep.
func (h *History) RefDBOf(keep func(k int) bool) *gen.RefDB {
	db := &gen.RefDB{}
	for k, o := range h.Outs {
		if !keep(k) {
			continue
		}
		id := db.Iface(o.Iface)
		if id == nil {
			db.Ifaces = append(db.Ifaces, gen.IfaceData{Name: o.Iface})
			id = &db.Ifaces[len(db.Ifaces)-1]
		}
		id.Blocks = append(id.Blocks, o.Block)
	}
	return db
}

// Save writes the history as JSON.
func (h *History) Save(path string) error {
	b, err := json.Marshal(h)
	if err != nil {
		return err
	}
	return os.WriteFile(path, b, 0o644)
}

// LoadHistory reads a history file.
func LoadHistory(path string) (*History, error) {
	b, err := os.ReadFile(path)
	if err != nil {
		return nil, err
	}
	h := &History{}
	return h, json.Unmarshal(b, h)
}

// markerFile is fd 3, the marker pipe handed in by the tracer / parent. It is wrapped exactly once:
// a second os.NewFile(3) would attach a finalizer that closes the descriptor behind our back.
var markerFile = os.NewFile(3, "marker")

// Marker announces a phase to the tracer / parent (errors are ignored if fd 3 is absent).
func Marker(format string, args ...any) {
	if markerFile == nil {
		return
	}
	fmt.Fprintf(markerFile, format+"\n", args...)
}

func marker(format string, args ...any) { Marker(format, args...) }

func init() {
	// dbwrite <dbpath> <historyfile> <from> <to>: performs write-outs [from,to) with the production
	// DBWriter, announcing "B k" before and "E k ok" / "E k err <msg>" after each on fd 3.
	fw.RegisterRole("dbwrite", func(args []string) int {
		if len(args) != 4 {
			fmt.Fprintln(os.Stderr, "usage: dbwrite <dbpath> <history> <from> <to>")
			return 3
		}
		eng.QuietLogs(nil)
		h, err := LoadHistory(args[1])
		if err != nil {
			fmt.Fprintln(os.Stderr, err)
			return 3
		}
		from, _ := strconv.Atoi(args[2])
		to, _ := strconv.Atoi(args[3])
		for k := from; k < to && k < len(h.Outs); k++ {
			o := h.Outs[k]
			marker("B %d", k)
			if err := gen.WriteBlock(args[0], o.Iface, o.Block, encoders.Type(h.Encoder), h.Level); err != nil {
				marker("E %d err %v", k, err)
			} else {
				marker("E %d ok", k)
			}
		}
		return 0
	})
}
