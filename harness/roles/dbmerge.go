package roles

import (
	"context"
	"fmt"
	"os"
	"strconv"
	"strings"
	"time"

	"github.com/els0r/goProbe/v4/pkg/goDB"
	"verifharness/eng"
	"verifharness/fw"
)

func init() {
	// dbmerge <src> <dst> <overwrite 0|1> <toleranceSeconds> <ifaces csv or -> [dryrun]
	// runs goDB.MergeDatabases, announcing "B 0" / "E 0 ok <summary>" / "E 0 err <msg>" on fd 3.
	fw.RegisterRole("dbmerge", func(args []string) int {
		if len(args) < 5 {
			fmt.Fprintln(os.Stderr, "usage: dbmerge <src> <dst> <overwrite> <tol> <ifaces|-> [dryrun]")
			return 3
		}
		eng.QuietLogs(nil)
		tol, _ := strconv.Atoi(args[3])
		opts := goDB.MergeOptions{SourcePath: args[0], DestinationPath: args[1], Overwrite: args[2] == "1", CompleteTolerance: time.Duration(tol) * time.Second}
		if args[4] != "-" {
			opts.Interfaces = strings.Split(args[4], ",")
		}
		if len(args) > 5 && args[5] == "dryrun" {
			opts.DryRun = true
		}
		Marker("B 0")
		sum, err := goDB.MergeDatabases(context.Background(), opts)
		if err != nil {
			Marker("E 0 err %v", err)
			return 0
		}
		Marker("E 0 ok ifaces=%d copied=%d rebuilt=%d skipped=%d confdst=%d confsrc=%d", sum.InterfacesProcessed, sum.DaysCopied, sum.DaysRebuilt, sum.DaysSkipped, sum.ConflictsResolvedByDestination, sum.ConflictsResolvedBySource)
		return 0
	})
}
