// Package capfn holds helpers shared by the capture-function checks (C19, C22): a byte-wise IP
// packet crafter and an independent reading of the documented flow-key rules. Nothing in here calls
// goProbe code; the packets are what a capture source would hand to ParsePacketV4/V6 (the IP layer,
// cut at the snap length).
package capfn

import (
	"fmt"
	"math/rand"
	"net/netip"
)

// IP protocol numbers used by the checks.
const (
	ICMP   = 1
	TCP    = 6
	UDP    = 17
	ESP    = 50
	ICMPv6 = 58
)

// SnapIPLen is the IP-layer length goProbe's default source delivers at most (IPv6 header + 14 bytes
// of transport header: afring.CaptureLength(filter.CaptureLengthMinimalIPv6Transport)).
const SnapIPLen = 54

// Hdr describes one crafted IP packet (IHL=5 / no extension headers).
type Hdr struct {
	V6       bool
	Src, Dst []byte // 4 or 16 bytes
	Proto    byte
	Sport    uint16 // TCP/UDP
	Dport    uint16
	Aux      byte // TCP flags byte or ICMP/ICMPv6 type
	Len      int  // number of IP-layer bytes delivered (0 = SnapIPLen)
	FragOff  uint16
	MoreFrag bool
}

// Bytes renders the IP layer byte-wise.
func (h Hdr) Bytes() []byte {
	n := h.Len
	if n == 0 {
		n = SnapIPLen
	}
	hl := 20
	if h.V6 {
		hl = 40
	}
	full := hl + 20
	if full < n {
		full = n
	}
	b := make([]byte, full)
	if h.V6 {
		b[0] = 0x60
		pl := 1200
		b[4], b[5] = byte(pl>>8), byte(pl)
		b[6] = h.Proto
		b[7] = 64
		copy(b[8:24], h.Src)
		copy(b[24:40], h.Dst)
	} else {
		b[0] = 0x45
		tl := 1220
		b[2], b[3] = byte(tl>>8), byte(tl)
		b[4], b[5] = 0x12, 0x34
		fo := h.FragOff & 0x1fff
		b[6] = byte(fo >> 8)
		if h.MoreFrag {
			b[6] |= 0x20
		}
		b[7] = byte(fo)
		b[8] = 64
		b[9] = h.Proto
		copy(b[12:16], h.Src)
		copy(b[16:20], h.Dst)
	}
	switch h.Proto {
	case TCP:
		b[hl], b[hl+1] = byte(h.Sport>>8), byte(h.Sport)
		b[hl+2], b[hl+3] = byte(h.Dport>>8), byte(h.Dport)
		b[hl+4], b[hl+5], b[hl+6], b[hl+7] = 0xde, 0xad, 0xbe, 0xef // seq
		b[hl+12] = 0x50                                             // data offset 5
		b[hl+13] = h.Aux
		b[hl+14], b[hl+15] = 0xff, 0xff // window
	case UDP:
		b[hl], b[hl+1] = byte(h.Sport>>8), byte(h.Sport)
		b[hl+2], b[hl+3] = byte(h.Dport>>8), byte(h.Dport)
		b[hl+4], b[hl+5] = 0x04, 0xb0
	case ICMP, ICMPv6:
		b[hl] = h.Aux
	default:
		// opaque payload: make sure nothing that looks like ports/flags is zero by accident
		for i := hl; i < full; i++ {
			b[i] = byte(0xa0 + i)
		}
	}
	return b[:n]
}

// Mirror returns the packet of the same conversation travelling the other way (addresses and ports
// swapped); aux is the flags byte / ICMP type of that packet.
func (h Hdr) Mirror(aux byte) Hdr {
	m := h
	m.Src, m.Dst = h.Dst, h.Src
	m.Sport, m.Dport = h.Dport, h.Sport
	m.Aux = aux
	return m
}

func (h Hdr) String() string {
	fam := "v4"
	if h.V6 {
		fam = "v6"
	}
	return fmt.Sprintf("%s %s:%d > %s:%d proto=%d aux=0x%02x len=%d frag=%d", fam, AddrString(h.Src), h.Sport, AddrString(h.Dst), h.Dport, h.Proto, h.Aux, h.Len, h.FragOff)
}

// AddrString prints a 4- or 16-byte address.
func AddrString(a []byte) string {
	if len(a) == 4 {
		return fmt.Sprintf("%d.%d.%d.%d", a[0], a[1], a[2], a[3])
	}
	s := ""
	for i := 0; i+1 < len(a); i += 2 {
		if i > 0 {
			s += ":"
		}
		s += fmt.Sprintf("%x", uint16(a[i])<<8|uint16(a[i+1]))
	}
	return s
}

// MirrorBytes swaps source and destination address and, for TCP/UDP packets long enough to hold both
// port fields at the fixed offset, the two ports, in a raw IP layer. Every other byte is kept.
func MirrorBytes(b []byte, v6 bool) []byte {
	m := append([]byte(nil), b...)
	if v6 {
		if len(m) < 40 {
			return m
		}
		copy(m[8:24], b[24:40])
		copy(m[24:40], b[8:24])
		if (b[6] == TCP || b[6] == UDP) && len(m) >= 44 {
			copy(m[40:42], b[42:44])
			copy(m[42:44], b[40:42])
		}
		return m
	}
	if len(m) < 20 {
		return m
	}
	copy(m[12:16], b[16:20])
	copy(m[16:20], b[12:16])
	if (b[9] == TCP || b[9] == UDP) && len(m) >= 24 {
		copy(m[20:22], b[22:24])
		copy(m[22:24], b[20:22])
	}
	return m
}

// CommonPort is the documented list of common service ports whose peer (ephemeral) port is dropped
// from the flow key: 53, 80, 443, 445, 8080 for TCP; 53, 443 for UDP (flow.go, table commonPorts).
func CommonPort(port uint16, proto byte) bool {
	switch proto {
	case TCP:
		return port == 53 || port == 80 || port == 443 || port == 445 || port == 8080
	case UDP:
		return port == 53 || port == 443
	}
	return false
}

// BoundaryPorts is the port set used for full products: every common port ±1, byte boundaries, the
// table limit of the common-port lookup (first byte 31), the ephemeral boundary, byte-swapped common
// ports and a few well-known services.
var BoundaryPorts = []uint16{
	0, 1, 52, 53, 54, 67, 68, 79, 80, 81, 123, 255, 256, 442, 443, 444, 445, 446, 1023, 1024,
	7936, 8079, 8080, 8081, 8191, 8192, 13568, 17500, 20480, 32767, 32768, 32769, 33560, 33561,
	36895, 47873, 48385, 49152, 60999, 65534, 65535,
}

// V4Addrs / V6Addrs are boundary addresses: unicast, zero, broadcast, multicast ranges the direction
// heuristics single out, and their neighbours.
var V4Addrs = [][]byte{
	{10, 0, 0, 1}, {10, 0, 0, 2}, {192, 168, 1, 77}, {8, 8, 8, 8}, {127, 0, 0, 1}, {0, 0, 0, 0},
	{255, 255, 255, 255}, {255, 255, 255, 254}, {224, 0, 0, 1}, {224, 0, 0, 251}, {224, 0, 1, 129},
	{224, 0, 2, 1}, {224, 1, 0, 1}, {239, 255, 255, 250}, {223, 255, 255, 255}, {225, 0, 0, 1},
}

var V6Addrs = [][]byte{
	v6("2001:db8::1"), v6("2001:db8::2"), v6("fe80::3df3:abbf:3d8d:7f03"), v6("::1"), v6("::"),
	v6("ff02::1"), v6("ff02::2"), v6("ff02::fb"), v6("ff05::1:3"), v6("fe00::1"), v6("feff::1"),
	v6("2c04:4000::6ab"), v6("ffff:ffff:ffff:ffff:ffff:ffff:ffff:ffff"),
}

func v6(s string) []byte {
	a := netip.MustParseAddr(s).As16()
	return a[:]
}

// IsMulticastOrBroadcast reports destinations that cannot be the source of a reply (IPv4 limited
// broadcast, 224.0.0.0/4; IPv6 ff00::/8): conversations towards them have no mirror packet.
func IsMulticastOrBroadcast(a []byte) bool {
	if len(a) == 4 {
		return (a[0] == 255 && a[1] == 255 && a[2] == 255 && a[3] == 255) || a[0]&0xf0 == 0xe0
	}
	return a[0] == 0xff
}

// RandAddr draws an address: mostly from the boundary set, sometimes fully random.
func RandAddr(r *rand.Rand, v6 bool) []byte {
	if v6 {
		if r.Intn(3) == 0 {
			a := make([]byte, 16)
			r.Read(a)
			return a
		}
		return V6Addrs[r.Intn(len(V6Addrs))]
	}
	if r.Intn(3) == 0 {
		a := make([]byte, 4)
		r.Read(a)
		return a
	}
	return V4Addrs[r.Intn(len(V4Addrs))]
}

// RandUnicast draws an address that is not multicast/broadcast.
func RandUnicast(r *rand.Rand, v6 bool) []byte {
	for {
		a := RandAddr(r, v6)
		if !IsMulticastOrBroadcast(a) {
			return a
		}
	}
}

// RandPort draws a port, biased to the boundary set.
func RandPort(r *rand.Rand) uint16 {
	if r.Intn(3) == 0 {
		return uint16(r.Intn(65536))
	}
	return BoundaryPorts[r.Intn(len(BoundaryPorts))]
}
