package capx

import (
	"fmt"
	"math/rand"
	"net/netip"

	"verifharness/eng"
	"verifharness/gen"
	"verifharness/src"
)

// Script is a generated packet script for one interface.
type Script struct {
	Convs []Conv
	Pkts  []Pkt
}

var (
	hosts4 = []string{"10.0.0.1", "10.0.0.2", "10.1.2.3", "192.168.1.77", "172.16.5.129", "8.8.8.8", "32.1.13.184"}
	hosts6 = []string{"2001:db8::1", "2001:db8::2", "2001:db8:0:1::ff", "fe80::1", "a00:1::", "2001:db8::"}
	// common ports of goProbe's lookup table
	commonTCP = []uint16{53, 80, 443, 445, 8080}
	commonUDP = []uint16{53, 443}
	regPorts  = []uint16{22, 25, 123, 993, 3306, 5432, 8443, 1, 1023, 1024, 32767}
)

// ScriptOpts tunes GenScript.
type ScriptOpts struct {
	NConvs       int
	NPkts        int
	V6Prob       float64
	NoBadPkts    bool // no fragments / truncated / invalid packets
	OnlyDecisive bool
}

func ephemeral(r *rand.Rand) uint16 { return uint16(32768 + r.Intn(65536-32768)) }

// GenConvs draws distinct conversations.
func GenConvs(r *rand.Rand, o ScriptOpts) []Conv {
	var convs []Conv
	seen := map[string]bool{}
	for tries := 0; len(convs) < o.NConvs && tries < 50*o.NConvs; tries++ {
		v6 := r.Float64() < o.V6Prob
		pool := hosts4
		if v6 {
			pool = hosts6
		}
		ci, si := r.Intn(len(pool)), r.Intn(len(pool))
		if ci == si {
			continue
		}
		c := Conv{Client: netip.MustParseAddr(pool[ci]), Server: netip.MustParseAddr(pool[si])}
		switch k := r.Intn(14); {
		case k >= 12:
			// client port BELOW the service port, both fixed (DHCPv6 546->547, 1000->2000, two ephemeral
			// ports 40000->50000, non-ephemeral towards ephemeral): the stored key's source port is
			// lower than its destination port, which sends goProbe through its "probably reverse" lookup
			// path. Orientation is not demanded for these (only conservation per pair).
			c.Kind, c.Proto, c.Decisive = "lowclient", []uint8{6, 17}[r.Intn(2)], false
			pp := [][2]uint16{{546, 547}, {1000, 2000}, {137, 138}, {40000, 50000}, {1000, 40000}, {68, 67}}[r.Intn(6)]
			c.CPort, c.SPort = pp[0], pp[1]
			if r.Intn(3) == 0 { // towards a multicast / broadcast group (one direction only)
				c.Kind, c.Proto = "lowclient_multicast", 17
				if v6 {
					c.Server = netip.MustParseAddr("ff02::1:2")
				} else {
					c.Server = netip.MustParseAddr("255.255.255.255")
				}
			}
		case k < 3:
			c.Kind, c.Proto, c.Decisive = "common", 6, true
			c.SPort = commonTCP[r.Intn(len(commonTCP))]
			if r.Intn(3) == 0 {
				c.Proto = 17
				c.SPort = commonUDP[r.Intn(len(commonUDP))]
			}
		case k < 6:
			c.Kind, c.Proto, c.Decisive = "registered", []uint8{6, 17}[r.Intn(2)], true
			c.SPort = regPorts[r.Intn(len(regPorts))]
		case k < 7:
			c.Kind, c.Proto, c.Decisive = "highhigh", []uint8{6, 17}[r.Intn(2)], true
			c.SPort = uint16(32768 + r.Intn(1000)) // server = lower port; client ports are drawn above it
		case k < 8:
			c.Kind, c.Proto, c.Decisive = "sameport", []uint8{6, 17}[r.Intn(2)], false
			c.SPort = []uint16{5060, 40000, 500}[r.Intn(3)]
			c.CPort = c.SPort
		case k < 10:
			c.Kind, c.Decisive = "icmp", true
			c.Proto = 1
			if v6 {
				c.Proto = 58
			}
		case k < 11:
			c.Kind, c.Decisive = "other", false
			c.Proto = []uint8{50, 47, 0, 255, 132}[r.Intn(5)]
		default:
			c.Kind, c.Proto, c.Decisive = "multicast", 17, true
			if v6 {
				c.Server = netip.MustParseAddr("ff02::fb")
			} else {
				c.Server = netip.MustParseAddr([]string{"224.0.0.251", "255.255.255.255", "224.0.1.129"}[r.Intn(3)])
			}
			c.SPort = []uint16{5353, 1900, 137}[r.Intn(3)]
		}
		if o.OnlyDecisive && !c.Decisive {
			continue
		}
		// identity used for uniqueness: what the conversation is stored as, in both orientations
		id := fmt.Sprintf("%s|%s|%d|%d", c.Client, c.Server, c.Proto, c.storedDport())
		rid := fmt.Sprintf("%s|%s|%d|%d", c.Server, c.Client, c.Proto, c.storedDport())
		// portless protocols: one conversation per unordered pair (orientation is per pair)
		if c.Proto != 6 && c.Proto != 17 {
			id = fmt.Sprintf("%v|%d", pairOf(c.Client, c.Server, c.Proto), c.Proto)
			rid = id
		}
		if seen[id] || seen[rid] {
			continue
		}
		seen[id], seen[rid] = true, true
		convs = append(convs, c)
	}
	return convs
}

// NextPacket draws the next packet of conversation ci.
func NextPacket(r *rand.Rand, convs []Conv, ci int) Pkt {
	c := convs[ci]
	fromClient := r.Intn(2) == 0
	sp := src.PacketSpec{Proto: c.Proto, Outgoing: r.Intn(2) == 0, Size: uint32(40 + r.Intn(1460))}
	if r.Intn(20) == 0 {
		sp.Size = []uint32{1, 65535, 1 << 20}[r.Intn(3)]
	}
	cport := c.CPort
	switch c.Kind {
	case "common", "registered":
		cport = ephemeral(r)
	case "highhigh":
		cport = c.SPort + 1 + uint16(r.Intn(int(65535-c.SPort)))
	case "multicast":
		cport = ephemeral(r)
		fromClient = true
	case "lowclient_multicast":
		fromClient = true
	}
	if fromClient {
		sp.Src, sp.Dst, sp.Sport, sp.Dport = c.Client, c.Server, cport, c.SPort
	} else {
		sp.Src, sp.Dst, sp.Sport, sp.Dport = c.Server, c.Client, c.SPort, cport
	}
	switch c.Proto {
	case 6:
		flags := []uint8{0x10, 0x18, 0x11, 0x00, 0x04}
		sp.TCPFlags = flags[r.Intn(len(flags))]
		if c.Kind != "highhigh" && c.Kind != "sameport" && r.Intn(4) == 0 {
			if fromClient {
				sp.TCPFlags = 0x02 // SYN
			} else {
				sp.TCPFlags = 0x12 // SYN-ACK
			}
		}
	case 1:
		if fromClient {
			sp.ICMPType = []uint8{8, 13}[r.Intn(2)]
		} else {
			sp.ICMPType = []uint8{0, 14}[r.Intn(2)]
		}
	case 58:
		if fromClient {
			sp.ICMPType = 128
		} else {
			sp.ICMPType = 129
		}
	}
	return Pkt{Spec: sp, Conv: ci, OK: true}
}

// BadPacket draws a packet that goProbe must classify and not count as a flow.
func BadPacket(r *rand.Rand, v6 bool) Pkt {
	a, b := netip.MustParseAddr("10.9.9.1"), netip.MustParseAddr("10.9.9.2")
	if v6 {
		a, b = netip.MustParseAddr("2001:db8:9::1"), netip.MustParseAddr("2001:db8:9::2")
	}
	sp := src.PacketSpec{Src: a, Dst: b, Proto: 6, Sport: 40000, Dport: 80, Size: 100, Outgoing: r.Intn(2) == 0}
	switch r.Intn(3) {
	case 0:
		if v6 {
			sp.Truncate = 40 + 10 // TCP header cut short
		} else {
			sp.FragOffset = uint16(1 + r.Intn(8000)) // non-first fragment
		}
	case 1:
		if v6 {
			sp.Proto, sp.Truncate = 17, 40+3
		} else {
			sp.Truncate = 20 + 10
		}
	default:
		sp.BadVersion = true
	}
	return Pkt{Spec: sp, Conv: -1, OK: false}
}

// GenScript draws a complete script.
func GenScript(r *rand.Rand, o ScriptOpts) *Script {
	s := &Script{Convs: GenConvs(r, o)}
	if len(s.Convs) == 0 {
		return s
	}
	for i := 0; i < o.NPkts; i++ {
		if !o.NoBadPkts && r.Intn(15) == 0 {
			s.Pkts = append(s.Pkts, BadPacket(r, r.Float64() < o.V6Prob))
			continue
		}
		// skewed choice so that some conversations are hot and some idle for whole intervals
		ci := r.Intn(len(s.Convs))
		if r.Intn(2) == 0 {
			ci = r.Intn(1 + len(s.Convs)/4)
		}
		s.Pkts = append(s.Pkts, NextPacket(r, s.Convs, ci))
	}
	return s
}

// ReadDB returns the stored flow records of one interface grouped by block timestamp, read through
// the real query engine (raw query over all time).
func ReadDB(dbPath, iface string) (map[int64][]gen.Flow, error) {
	a := eng.Args("time,iface,sip,dip,dport,proto", iface, "", 1, 9_999_999_999)
	res, err, pmsg := eng.Run(dbPath, a)
	if pmsg != "" {
		return nil, fmt.Errorf("panic: %s", pmsg)
	}
	if err != nil {
		return nil, err
	}
	out := map[int64][]gen.Flow{}
	for _, row := range res.Rows {
		ts := row.Labels.Timestamp.Unix()
		out[ts] = append(out[ts], gen.Flow{
			SIP: row.Attributes.SrcIP, DIP: row.Attributes.DstIP, Dport: row.Attributes.DstPort, Proto: row.Attributes.IPProto,
			BR: row.Counters.BytesRcvd, BS: row.Counters.BytesSent, PR: row.Counters.PacketsRcvd, PS: row.Counters.PacketsSent,
		})
	}
	return out, nil
}
