package capx

import "verifharness/gen"

// see gen/tz6.go: IPv6 hosts with 12 trailing zero bytes are only drawn where the rendering defect
// recorded under C08 is recognised by the oracle.
func init() {
	for i, h := range hosts6 {
		hosts6[i] = gen.TZ6Host(h)
	}
}
