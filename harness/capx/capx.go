// Package capx drives goProbe's real capture.Manager with scripted packet sources (package src)
// and provides the flow-log oracle used by the capture checks (C20, C21, C22b, C27, C29).
package capx

import (
	"bytes"
	"context"
	"fmt"
	"net/netip"
	"sort"
	"strings"
	"sync"
	"time"

	"github.com/els0r/goProbe/v4/cmd/goProbe/config"
	"github.com/els0r/goProbe/v4/pkg/capture"
	"github.com/els0r/goProbe/v4/pkg/types/hashmap"
	"github.com/fako1024/gotools/link"
	"verifharness/eng"
	"verifharness/gen"
	"verifharness/ref"
	"verifharness/src"
)

// LogSink collects goProbe's log output (thread-safe).
type LogSink struct {
	mu  sync.Mutex
	buf bytes.Buffer
}

func (l *LogSink) Write(p []byte) (int, error) {
	l.mu.Lock()
	defer l.mu.Unlock()
	if l.buf.Len() < 4<<20 {
		l.buf.Write(p)
	}
	return len(p), nil
}

// Contains reports whether the log contains s.
func (l *LogSink) Contains(s string) bool {
	l.mu.Lock()
	defer l.mu.Unlock()
	return strings.Contains(l.buf.String(), s)
}

// String returns the collected log.
func (l *LogSink) String() string {
	l.mu.Lock()
	defer l.mu.Unlock()
	return l.buf.String()
}

// Rig is a running capture manager with scripted sources.
type Rig struct {
	Mgr *capture.Manager
	DB  string
	Log *LogSink

	mu      sync.Mutex
	sources map[string][]*src.Source // per interface: every source ever created (last = current)
	// OnNewSource, if set, is called for every source the manager creates.
	OnNewSource func(s *src.Source)
	// InitErr, if set, is consulted before a source is created; a non-nil error makes the source
	// initialisation of that interface fail (the capture does not start).
	InitErr      func(iface string) error
	restoreLinks func()
}

// Options for NewRig.
type Options struct {
	Universe   []string // host link names reported to the manager (nil = interfaces of the config)
	BufferSize int      // local buffer size limit (0 = default)
	Encoder    string
}

// DefaultConfig builds a config capturing on the given interfaces.
func DefaultConfig(dbPath string, ifaces ...string) *config.Config {
	cfg := &config.Config{DB: config.DBConfig{Path: dbPath, EncoderType: "lz4"}, Interfaces: config.Ifaces{}}
	for _, i := range ifaces {
		cfg.Interfaces[i] = config.DefaultCaptureConfig()
	}
	return cfg
}

// NewRig starts a manager on cfg with scripted sources.
func NewRig(cfg *config.Config, o Options) (*Rig, error) {
	r := &Rig{DB: cfg.DB.Path, Log: &LogSink{}, sources: map[string][]*src.Source{}}
	eng.QuietLogs(r.Log)
	if o.Universe != nil {
		uni := append([]string(nil), o.Universe...)
		r.restoreLinks = capture.VerifSetHostLinks(func(names ...string) (link.Links, error) {
			var out link.Links
			for i, n := range uni {
				out = append(out, &link.Link{Name: n, Index: i + 1, Type: link.TypeEthernet})
			}
			return out, nil
		})
	}
	opts := []capture.ManagerOption{
		capture.WithSourceInitFn(func(c *capture.Capture) (capture.Source, error) {
			r.mu.Lock()
			initErr := r.InitErr
			r.mu.Unlock()
			if initErr != nil {
				if err := initErr(c.Iface()); err != nil {
					return nil, err
				}
			}
			s := src.New(c.Iface())
			r.mu.Lock()
			r.sources[c.Iface()] = append(r.sources[c.Iface()], s)
			hook := r.OnNewSource
			r.mu.Unlock()
			if hook != nil {
				hook(s)
			}
			return s, nil
		}),
		capture.WithSkipWriteoutSchedule(true),
	}
	if o.BufferSize > 0 {
		opts = append(opts, capture.WithLocalBuffers(1, o.BufferSize))
	}
	mgr, err := capture.InitManager(context.Background(), cfg, opts...)
	if err != nil {
		if r.restoreLinks != nil {
			r.restoreLinks()
		}
		return nil, err
	}
	r.Mgr = mgr
	return r, nil
}

// SetInitErr installs (or clears, with nil) the source initialisation fault hook.
func (r *Rig) SetInitErr(fn func(iface string) error) {
	r.mu.Lock()
	r.InitErr = fn
	r.mu.Unlock()
}

// Source returns the current source of an interface (nil if none).
func (r *Rig) Source(iface string) *src.Source {
	r.mu.Lock()
	defer r.mu.Unlock()
	l := r.sources[iface]
	if len(l) == 0 {
		return nil
	}
	return l[len(l)-1]
}

// AllSources returns every source ever created for the interface.
func (r *Rig) AllSources(iface string) []*src.Source {
	r.mu.Lock()
	defer r.mu.Unlock()
	return append([]*src.Source(nil), r.sources[iface]...)
}

// Writeout triggers a rotation + DB write-out at the given timestamp.
func (r *Rig) Writeout(ts int64, ifaces ...string) {
	r.Mgr.VerifWriteout(context.Background(), time.Unix(ts, 0), ifaces...)
}

// FlowMaps fetches the in-memory flows through the live-query path (GetFlowMaps).
func (r *Rig) FlowMaps(ifaces ...string) map[string][]gen.Flow {
	ch := make(chan hashmap.AggFlowMapWithMetadata, 1024)
	go func() {
		r.Mgr.GetFlowMaps(context.Background(), nil, ch, ifaces...)
		close(ch)
	}()
	out := map[string][]gen.Flow{}
	for m := range ch {
		out[m.Interface] = append(out[m.Interface], FlowsOf(m.AggFlowMap)...)
	}
	return out
}

// FlowsOf flattens an aggregated flow map.
func FlowsOf(m *hashmap.AggFlowMap) []gen.Flow {
	var out []gen.Flow
	if m == nil {
		return nil
	}
	for _, mm := range []*hashmap.Map{m.PrimaryMap, m.SecondaryMap} {
		if mm == nil {
			continue
		}
		for it := mm.Iter(); it.Next(); {
			k := append([]byte(nil), it.Key()...)
			out = append(out, gen.FlowFromKey(k, it.Val()))
		}
	}
	return out
}

// Close stops all captures (performs the final write-out goProbe does on shutdown of interfaces).
func (r *Rig) Close() {
	if r.Mgr != nil {
		r.Mgr.Close(context.Background())
	}
	if r.restoreLinks != nil {
		r.restoreLinks()
	}
}

// ---------------------------------------------------------------------------------------------
// Flow-log oracle

// Conv is a scripted conversation.
type Conv struct {
	Client, Server netip.Addr
	CPort, SPort   uint16 // client / service port (0 for portless protocols)
	Proto          uint8
	Kind           string // common | privileged | handshake | icmp | highhigh | sameport | other
	Decisive       bool   // the documented heuristics decide the orientation whatever packet comes first
}

// StoredKey is the record a decisive conversation must be stored as.
func (c Conv) StoredKey() string {
	return fmt.Sprintf("%s>%s:%d/%d", c.Client, c.Server, c.storedDport(), c.Proto)
}

func (c Conv) storedDport() uint16 {
	switch c.Proto {
	case 6, 17:
		return c.SPort
	}
	return 0
}

// Pkt is a scripted packet with its oracle-side meaning.
type Pkt struct {
	Spec src.PacketSpec
	Conv int  // index into the script's conversations (-1: none)
	OK   bool // parsed successfully (counted in flows)
}

// PairKey identifies an unordered address pair + protocol.
type PairKey struct {
	A, B  netip.Addr
	Proto uint8
}

func pairOf(a, b netip.Addr, proto uint8) PairKey {
	if b.Less(a) {
		a, b = b, a
	}
	return PairKey{a, b, proto}
}

// Interval accumulates the expectation for one interface and one rotation interval.
type Interval struct {
	Pairs map[PairKey]ref.Ctr // conservation per unordered pair + proto
	Convs map[int]ref.Ctr     // per conversation
	Total ref.Ctr
}

// NewInterval creates an empty interval.
func NewInterval() *Interval {
	return &Interval{Pairs: map[PairKey]ref.Ctr{}, Convs: map[int]ref.Ctr{}}
}

// Add accounts a delivered packet.
func (iv *Interval) Add(p Pkt) {
	if !p.OK {
		return
	}
	var c ref.Ctr
	if p.Spec.Outgoing {
		c.PS, c.BS = 1, uint64(p.Spec.Packet().Size)
	} else {
		c.PR, c.BR = 1, uint64(p.Spec.Packet().Size)
	}
	k := pairOf(p.Spec.Src, p.Spec.Dst, p.Spec.Proto)
	t := iv.Pairs[k]
	t.Add(c)
	iv.Pairs[k] = t
	if p.Conv >= 0 {
		t := iv.Convs[p.Conv]
		t.Add(c)
		iv.Convs[p.Conv] = t
	}
	iv.Total.Add(c)
}

// Empty reports whether nothing was accounted.
func (iv *Interval) Empty() bool { return len(iv.Pairs) == 0 }

// Mismatch is a disagreement between the flow-log oracle and the observed flows.
type Mismatch struct {
	Clause string
	Detail string
}

// CompareInterval checks observed flow records of one interface and interval against the oracle.
// convs are the script's conversations; exactPairs lists the pairs on which every conversation is
// decisive (exact record check), computed by DecisivePairs.
func CompareInterval(iv *Interval, obs []gen.Flow, convs []Conv, exactPairs map[PairKey]bool) []Mismatch {
	var out []Mismatch
	got := map[PairKey]ref.Ctr{}
	for _, f := range obs {
		if f.BR == 0 && f.BS == 0 && f.PR == 0 && f.PS == 0 {
			out = append(out, Mismatch{"zero_record_written", "record without traffic: " + f.String()})
		}
		if f.SIP.Is4() != f.DIP.Is4() {
			out = append(out, Mismatch{"mixed_family_record", f.String()})
			continue
		}
		k := pairOf(f.SIP, f.DIP, f.Proto)
		t := got[k]
		t.Add(ref.Ctr{BR: f.BR, BS: f.BS, PR: f.PR, PS: f.PS})
		got[k] = t
	}
	var keys []PairKey
	seen := map[PairKey]bool{}
	for k := range iv.Pairs {
		keys = append(keys, k)
		seen[k] = true
	}
	for k := range got {
		if !seen[k] {
			keys = append(keys, k)
		}
	}
	sort.Slice(keys, func(i, j int) bool {
		return fmt.Sprint(keys[i]) < fmt.Sprint(keys[j])
	})
	for _, k := range keys {
		w, wok := iv.Pairs[k]
		g, gok := got[k]
		fam := "v4"
		if !k.A.Is4() {
			fam = "v6"
		}
		switch {
		case wok && !gok:
			out = append(out, Mismatch{"traffic_lost|" + fam, fmt.Sprintf("pair %v<>%v proto %d: expected %+v, no record", k.A, k.B, k.Proto, w)})
		case !wok && gok:
			out = append(out, Mismatch{"traffic_invented|" + fam, fmt.Sprintf("pair %v<>%v proto %d: record %+v without any such packet", k.A, k.B, k.Proto, g)})
		case w != g:
			cl := "counters_wrong|"
			if g.PR+g.PS < w.PR+w.PS {
				cl = "traffic_lost|"
			} else if g.PR+g.PS > w.PR+w.PS {
				cl = "traffic_duplicated|"
			}
			out = append(out, Mismatch{cl + fam, fmt.Sprintf("pair %v<>%v proto %d: expected %+v got %+v", k.A, k.B, k.Proto, w, g)})
		}
		if len(out) > 8 {
			return out
		}
	}
	if len(out) > 0 {
		return out
	}
	// exact records for pairs on which every conversation is decisive
	want := map[string]ref.Ctr{}
	for ci, c := range iv.Convs {
		cv := convs[ci]
		if !exactPairs[pairOf(cv.Client, cv.Server, cv.Proto)] {
			continue
		}
		t := want[cv.StoredKey()]
		t.Add(c)
		want[cv.StoredKey()] = t
	}
	gotRec := map[string]ref.Ctr{}
	for _, f := range obs {
		if !exactPairs[pairOf(f.SIP, f.DIP, f.Proto)] {
			continue
		}
		k := f.KeyString()
		if _, dup := gotRec[k]; dup {
			out = append(out, Mismatch{"duplicate_record", k})
		}
		t := gotRec[k]
		t.Add(ref.Ctr{BR: f.BR, BS: f.BS, PR: f.PR, PS: f.PS})
		gotRec[k] = t
	}
	for k, w := range want {
		if g, ok := gotRec[k]; !ok {
			var have []string
			for kk := range gotRec {
				have = append(have, kk)
			}
			sort.Strings(have)
			out = append(out, Mismatch{"decisive_record_missing", fmt.Sprintf("expected record %s %+v; records on decisive pairs: %v", k, w, have)})
		} else if g != w {
			out = append(out, Mismatch{"decisive_record_counters", fmt.Sprintf("record %s expected %+v got %+v", k, w, g)})
		}
		if len(out) > 8 {
			return out
		}
	}
	for k, g := range gotRec {
		if _, ok := want[k]; !ok {
			out = append(out, Mismatch{"unexpected_record_orientation_or_port", fmt.Sprintf("record %s %+v does not correspond to any decisive conversation (source port kept, wrong orientation, or split record)", k, g)})
		}
	}
	return out
}

// DecisivePairs returns the pairs on which every conversation is decisive.
func DecisivePairs(convs []Conv) map[PairKey]bool {
	all := map[PairKey]bool{}
	for _, c := range convs {
		k := pairOf(c.Client, c.Server, c.Proto)
		if v, ok := all[k]; ok {
			all[k] = v && c.Decisive
		} else {
			all[k] = c.Decisive
		}
	}
	return all
}
