// Package ptr is a small ptrace-based tracer used to inject crashes, I/O errors, short writes and
// schedules at file-system-call granularity into real goProbe processes (writer, merger, reader)
// without touching their source. Linux/amd64 only.
//
// An *event* is the entry of a file-system syscall that refers to a path / file descriptor below one
// of the configured root directories, or a write to the marker file descriptor (phase announcements
// of the tracee). Events are numbered 0,1,2,... per tracee in the order the tracer observes them.
package ptr

import (
	"bytes"
	"fmt"
	"io"
	"os"
	"os/exec"
	"path/filepath"
	"runtime"
	"strings"
	"syscall"
	"time"
	"unsafe"
)

const (
	ptraceOExitKill = 0x100000
	markerFD        = 3
	wNoThread       = 0x20000000 // __WNOTHREAD: only wait for children / tracees of the calling thread
)

// syscall numbers (amd64)
const (
	sysRead       = 0
	sysWrite      = 1
	sysOpen       = 2
	sysClose      = 3
	sysStat       = 4
	sysFstat      = 5
	sysLstat      = 6
	sysLseek      = 8
	sysPread64    = 17
	sysPwrite64   = 18
	sysFsync      = 74
	sysFdatasync  = 75
	sysFtruncate  = 77
	sysGetdents64 = 217
	sysRename     = 82
	sysMkdir      = 83
	sysRmdir      = 84
	sysUnlink     = 87
	sysChmod      = 90
	sysFchmod     = 91
	sysOpenat     = 257
	sysMkdirat    = 258
	sysNewfstatat = 262
	sysUnlinkat   = 263
	sysRenameat   = 264
	sysFchmodat   = 268
	sysRenameat2  = 316
	sysStatx      = 332
	sysFchmodat2  = 452
)

var sysNames = map[uint64]string{
	sysRead: "read", sysWrite: "write", sysOpen: "open", sysClose: "close", sysStat: "stat", sysFstat: "fstat", sysLstat: "lstat",
	sysLseek: "lseek", sysPread64: "pread64", sysPwrite64: "pwrite64", sysFsync: "fsync", sysFdatasync: "fdatasync", sysFtruncate: "ftruncate",
	sysGetdents64: "getdents64", sysRename: "rename", sysMkdir: "mkdir", sysRmdir: "rmdir", sysUnlink: "unlink", sysChmod: "chmod", sysFchmod: "fchmod",
	sysOpenat: "openat", sysMkdirat: "mkdirat", sysNewfstatat: "newfstatat", sysUnlinkat: "unlinkat", sysRenameat: "renameat",
	sysFchmodat: "fchmodat", sysRenameat2: "renameat2", sysStatx: "statx", sysFchmodat2: "fchmodat2",
}

// Event is one observed file-system call (at entry).
type Event struct {
	Idx    int    `json:"i"`
	Proc   int    `json:"p"`              // tracee index (0 unless several tracees are scheduled)
	Sys    string `json:"sys"`            // syscall name or "marker"
	Path   string `json:"path,omitempty"` // path relative to the matching root (for fd calls: the path the fd was opened with)
	Path2  string `json:"path2,omitempty"`
	Count  int    `json:"n,omitempty"`      // byte count for read/write
	Marker string `json:"marker,omitempty"` // marker text
	Ret    int64  `json:"ret"`              // return value (filled at exit; -errno on failure)
	Flags  int    `json:"flags,omitempty"`  // open flags
}

func (e Event) String() string {
	if e.Sys == "marker" {
		return fmt.Sprintf("#%d marker %q", e.Idx, e.Marker)
	}
	s := fmt.Sprintf("#%d %s %s", e.Idx, e.Sys, e.Path)
	if e.Path2 != "" {
		s += " -> " + e.Path2
	}
	if e.Count > 0 {
		s += fmt.Sprintf(" n=%d", e.Count)
	}
	return s
}

// Kind is a coarse class of the event for coverage accounting: syscall name + file class.
func (e Event) Kind() string {
	return e.Sys + ":" + FileClass(e.Path)
}

// FileClass classifies a DB-relative path.
func FileClass(p string) string {
	b := filepath.Base(p)
	switch {
	case p == "":
		return "-"
	case strings.HasSuffix(b, ".gpf"):
		return "column"
	case strings.HasPrefix(b, ".tmp-metadata"):
		return "meta-tmp"
	case strings.HasPrefix(b, ".blockmeta"):
		return "meta"
	case strings.Contains(p, "merge-stage"), strings.Contains(p, "merge-backup"):
		return "merge-artifact"
	default:
		return "dir"
	}
}

// Action tells the tracer what to do at an event.
type Action int

const (
	Continue   Action = iota
	Kill              // SIGKILL the tracee while stopped at the entry of the event (call not executed)
	FailErrno         // do not execute the call; make it return -Errno
	ShortWrite        // truncate the write to Arg bytes, let it execute, then SIGKILL at its exit
)

// Decision is returned by the policy.
type Decision struct {
	Act   Action
	Errno syscall.Errno
	Arg   int
}

// Policy decides per event. It runs on the tracer thread.
type Policy func(e *Event) Decision

// Options configures a trace.
type Options struct {
	Roots  []string // absolute directories whose files are events
	Policy Policy   // nil = count only
	// MarkerOut receives the data the tracee writes to the marker fd (fd 3), may be nil.
	Timeout time.Duration // wall-clock watchdog for the whole run (default 60s); firing => TimedOut
	Env     []string
	Stdout  *os.File
	Stderr  *os.File
}

// Result of a traced run.
type Result struct {
	Events    []Event
	Killed    bool // killed by policy
	KilledAt  int
	ExitCode  int
	TimedOut  bool
	MarkerLog []string
	Err       error
}

type threadState struct {
	inSyscall  bool
	cur        *Event // event being executed by this thread (between entry and exit)
	fail       syscall.Errno
	killAtExit bool
}

// Run starts argv under the tracer and drives it to completion.
func Run(argv []string, o Options) *Result {
	resCh := make(chan *Result, 1)
	go func() {
		runtime.LockOSThread()
		// deliberately never unlocked: the thread dies with the goroutine, taking ptrace state with it
		resCh <- run(argv, o)
	}()
	return <-resCh
}

type tracer struct {
	started map[int]bool
	o       Options
	roots   []string
	pid     int
	threads map[int]*threadState
	fds     map[int]string // fd -> root-relative path ("" = not tracked)
	res     *Result
}

func run(argv []string, o Options) *Result {
	res := &Result{KilledAt: -1}
	t := &tracer{o: o, threads: map[int]*threadState{}, fds: map[int]string{}, res: res, started: map[int]bool{}}
	for _, r := range o.Roots {
		rr, err := filepath.EvalSymlinks(r)
		if err != nil {
			rr = r
		}
		t.roots = append(t.roots, filepath.Clean(rr))
	}
	pr, pw, err := os.Pipe()
	if err != nil {
		res.Err = err
		return res
	}
	cmd := exec.Command(argv[0], argv[1:]...)
	cmd.Env = append(os.Environ(), o.Env...)
	cmd.Stdout, cmd.Stderr = o.Stdout, o.Stderr
	cmd.ExtraFiles = []*os.File{pw}
	cmd.SysProcAttr = &syscall.SysProcAttr{Ptrace: true}
	if err := cmd.Start(); err != nil {
		pr.Close()
		pw.Close()
		res.Err = err
		return res
	}
	pw.Close()
	defer pr.Close()
	t.pid = cmd.Process.Pid
	var ws syscall.WaitStatus
	if _, err := syscall.Wait4(t.pid, &ws, 0, nil); err != nil {
		res.Err = fmt.Errorf("initial wait: %w", err)
		return res
	}
	if err := syscall.PtraceSetOptions(t.pid, syscall.PTRACE_O_TRACESYSGOOD|syscall.PTRACE_O_TRACECLONE|syscall.PTRACE_O_TRACEFORK|syscall.PTRACE_O_TRACEVFORK|syscall.PTRACE_O_TRACEEXEC|ptraceOExitKill); err != nil {
		res.Err = fmt.Errorf("setoptions: %w", err)
		syscall.Kill(t.pid, syscall.SIGKILL)
		return res
	}
	t.threads[t.pid] = &threadState{}
	t.started[t.pid] = true
	if err := syscall.PtraceSyscall(t.pid, 0); err != nil {
		res.Err = err
		return res
	}
	timeout := o.Timeout
	if timeout == 0 {
		timeout = 60 * time.Second
	}
	deadline := time.Now().Add(timeout)
	// watchdog: kill the tracee on timeout (wait4 then returns)
	stopWD := make(chan struct{})
	go func() {
		select {
		case <-stopWD:
		case <-time.After(timeout):
			syscall.Kill(t.pid, syscall.SIGKILL)
		}
	}()
	defer close(stopWD)

	for {
		tid, err := syscall.Wait4(-1, &ws, syscall.WALL|wNoThread, nil)
		if err != nil {
			if err == syscall.EINTR {
				continue
			}
			if err == syscall.ECHILD {
				break
			}
			res.Err = fmt.Errorf("wait4: %w", err)
			break
		}
		if ws.Exited() || ws.Signaled() {
			delete(t.threads, tid)
			if tid == t.pid {
				if ws.Exited() {
					res.ExitCode = ws.ExitStatus()
				} else {
					res.ExitCode = 128 + int(ws.Signal())
				}
				break
			}
			continue
		}
		if !ws.Stopped() {
			continue
		}
		st := t.threads[tid]
		if st == nil {
			st = &threadState{}
			t.threads[tid] = st
		}
		sig := ws.StopSignal()
		switch {
		case sig == syscall.SIGTRAP|0x80:
			done := t.onSyscallStop(tid, st)
			if done {
				// tracee was killed by policy; reap
				t.reap()
				goto out
			}
			syscall.PtraceSyscall(tid, 0)
		case sig == syscall.SIGTRAP && ws.TrapCause() > 0:
			// clone/fork/vfork event: the new thread is attached automatically
			syscall.PtraceSyscall(tid, 0)
		case sig == syscall.SIGSTOP && !t.started[tid]:
			// initial stop of a newly attached thread
			t.started[tid] = true
			syscall.PtraceSyscall(tid, 0)
		default:
			// deliver the signal to the tracee (Go uses SIGURG for preemption)
			syscall.PtraceSyscall(tid, int(sig))
		}
	}
out:
	if time.Now().After(deadline) && !res.Killed {
		res.TimedOut = true
	}
	// drain marker pipe: the tracee is gone, so all write ends are closed and the read ends with EOF.
	// The deadline is a safety net only; it must be generous, because a deadline that has already
	// expired when Read is called (scheduling delays on a loaded machine) makes Read return without
	// delivering the data that is waiting in the pipe, which would silently drop the marker log.
	var buf bytes.Buffer
	pr.SetReadDeadline(time.Now().Add(60 * time.Second))
	tmp := make([]byte, 65536)
	for {
		n, err := pr.Read(tmp)
		buf.Write(tmp[:n])
		if err != nil {
			if err != io.EOF && res.Err == nil {
				res.Err = fmt.Errorf("draining the marker pipe: %w", err)
			}
			break
		}
	}
	for _, l := range strings.Split(buf.String(), "\n") {
		if l != "" {
			res.MarkerLog = append(res.MarkerLog, l)
		}
	}
	cmd.Process.Release()
	return res
}

func (t *tracer) reap() {
	var ws syscall.WaitStatus
	for {
		tid, err := syscall.Wait4(-1, &ws, syscall.WALL|wNoThread, nil)
		if err != nil {
			if err == syscall.EINTR {
				continue
			}
			return
		}
		if tid == t.pid && (ws.Exited() || ws.Signaled()) {
			t.res.ExitCode = 128 + int(syscall.SIGKILL)
			return
		}
	}
}

func (t *tracer) readString(tid int, addr uint64) string {
	var out []byte
	buf := make([]byte, 256)
	for len(out) < 4096 {
		n, err := syscall.PtracePeekData(tid, uintptr(addr)+uintptr(len(out)), buf)
		if err != nil || n == 0 {
			break
		}
		if i := bytes.IndexByte(buf[:n], 0); i >= 0 {
			out = append(out, buf[:i]...)
			return string(out)
		}
		out = append(out, buf[:n]...)
	}
	return string(out)
}

func (t *tracer) readBytes(tid int, addr uint64, n int) []byte {
	if n > 4096 {
		n = 4096
	}
	buf := make([]byte, n)
	m, _ := syscall.PtracePeekData(tid, uintptr(addr), buf)
	return buf[:m]
}

// rel returns the root-relative path and whether p lies below a root.
func (t *tracer) rel(p string) (string, bool) {
	if !filepath.IsAbs(p) {
		// resolve against the tracee's cwd
		if cwd, err := os.Readlink(fmt.Sprintf("/proc/%d/cwd", t.pid)); err == nil {
			p = filepath.Join(cwd, p)
		}
	}
	p = filepath.Clean(p)
	for _, r := range t.roots {
		if p == r {
			return ".", true
		}
		if strings.HasPrefix(p, r+"/") {
			return p[len(r)+1:], true
		}
	}
	return "", false
}

func (t *tracer) pathAt(tid int, dirfd int64, addr uint64) (string, bool) {
	p := t.readString(tid, addr)
	if !filepath.IsAbs(p) && int32(dirfd) != -100 { // AT_FDCWD
		if base, ok := t.fds[int(dirfd)]; ok && base != "" {
			return filepath.Join(base, p), true
		}
		if l, err := os.Readlink(fmt.Sprintf("/proc/%d/fd/%d", t.pid, dirfd)); err == nil {
			p = filepath.Join(l, p)
		}
	}
	return t.rel(p)
}

// onSyscallStop handles a syscall-entry or syscall-exit stop; returns true if the tracee was killed.
func (t *tracer) onSyscallStop(tid int, st *threadState) bool {
	var regs syscall.PtraceRegs
	if err := syscall.PtraceGetRegs(tid, &regs); err != nil {
		return false
	}
	entry := !st.inSyscall
	if op, ok := syscallInfoOp(tid); ok {
		entry = op == 1
	}
	if entry {
		st.inSyscall = true
		st.cur = nil
		ev := t.classify(tid, &regs)
		if ev == nil {
			return false
		}
		ev.Idx = len(t.res.Events)
		t.res.Events = append(t.res.Events, *ev)
		st.cur = &t.res.Events[len(t.res.Events)-1]
		if t.o.Policy == nil || ev.Sys == "marker" && false {
			return false
		}
		d := t.o.Policy(st.cur)
		switch d.Act {
		case Kill:
			t.res.Killed, t.res.KilledAt = true, ev.Idx
			syscall.Kill(t.pid, syscall.SIGKILL)
			return true
		case FailErrno:
			st.fail = d.Errno
			regs.Orig_rax = ^uint64(0) // invalid syscall number: the kernel skips the call
			syscall.PtraceSetRegs(tid, &regs)
		case ShortWrite:
			if (ev.Sys == "write" || ev.Sys == "pwrite64") && d.Arg < ev.Count {
				regs.Rdx = uint64(d.Arg)
				syscall.PtraceSetRegs(tid, &regs)
				st.cur.Count = d.Arg
			}
			st.killAtExit = true
		}
		return false
	}
	// exit stop
	st.inSyscall = false
	if st.cur != nil {
		if st.fail != 0 {
			regs.Rax = uint64(-int64(st.fail))
			syscall.PtraceSetRegs(tid, &regs)
			st.fail = 0
		}
		st.cur.Ret = int64(regs.Rax)
		// fd bookkeeping
		switch st.cur.Sys {
		case "openat", "open":
			if int64(regs.Rax) >= 0 {
				t.fds[int(regs.Rax)] = st.cur.Path
			}
		}
		kill := st.killAtExit
		st.killAtExit = false
		st.cur = nil
		if kill {
			t.res.Killed, t.res.KilledAt = true, len(t.res.Events)-1
			syscall.Kill(t.pid, syscall.SIGKILL)
			return true
		}
	} else if regs.Orig_rax == sysClose {
		// untracked close: nothing
	}
	return false
}

func (t *tracer) classify(tid int, r *syscall.PtraceRegs) *Event {
	nr := r.Orig_rax
	a0, a1, a2, a3 := r.Rdi, r.Rsi, r.Rdx, r.R10
	name := sysNames[nr]
	switch nr {
	case sysWrite:
		if _, tracked := t.fds[int(a0)]; int(a0) == markerFD && !tracked {
			b := t.readBytes(tid, a1, int(a2))
			return &Event{Sys: "marker", Marker: strings.TrimRight(string(b), "\n")}
		}
		fallthrough
	case sysRead, sysPread64, sysPwrite64:
		if p, ok := t.fds[int(a0)]; ok {
			return &Event{Sys: name, Path: p, Count: int(a2)}
		}
	case sysClose:
		if p, ok := t.fds[int(a0)]; ok {
			delete(t.fds, int(a0))
			return &Event{Sys: name, Path: p}
		}
	case sysFstat, sysLseek, sysFsync, sysFdatasync, sysFtruncate, sysGetdents64, sysFchmod:
		if p, ok := t.fds[int(a0)]; ok {
			return &Event{Sys: name, Path: p}
		}
	case sysOpenat:
		if p, ok := t.pathAt(tid, int64(a0), a1); ok {
			return &Event{Sys: name, Path: p, Flags: int(a2)}
		}
	case sysOpen:
		if p, ok := t.rel(t.readString(tid, a0)); ok {
			return &Event{Sys: name, Path: p, Flags: int(a1)}
		}
	case sysMkdirat, sysUnlinkat, sysFchmodat, sysFchmodat2, sysNewfstatat, sysStatx:
		if p, ok := t.pathAt(tid, int64(a0), a1); ok {
			return &Event{Sys: name, Path: p}
		}
	case sysStat, sysLstat, sysMkdir, sysRmdir, sysUnlink, sysChmod:
		if p, ok := t.rel(t.readString(tid, a0)); ok {
			return &Event{Sys: name, Path: p}
		}
	case sysRename:
		p1, ok1 := t.rel(t.readString(tid, a0))
		p2, ok2 := t.rel(t.readString(tid, a1))
		if ok1 || ok2 {
			return &Event{Sys: name, Path: p1, Path2: p2}
		}
	case sysRenameat, sysRenameat2:
		p1, ok1 := t.pathAt(tid, int64(a0), a1)
		p2, ok2 := t.pathAt(tid, int64(a2), a3)
		if ok1 || ok2 {
			return &Event{Sys: name, Path: p1, Path2: p2}
		}
	}
	return nil
}

// syscallInfoOp asks the kernel whether the current syscall-stop is an entry (1) or exit (2) stop
// (PTRACE_GET_SYSCALL_INFO, Linux >= 5.3).
func syscallInfoOp(tid int) (uint8, bool) {
	var info [88]byte
	const ptraceGetSyscallInfo = 0x420e
	n, _, e := syscall.Syscall6(syscall.SYS_PTRACE, ptraceGetSyscallInfo, uintptr(tid), uintptr(len(info)), uintptr(unsafe.Pointer(&info[0])), 0, 0)
	if e != 0 || n == 0 {
		return 0, false
	}
	return info[0], true
}
