// Package eng wraps calls into goProbe's real query engine for the checks.
package eng

import (
	"context"
	"fmt"
	"io"
	"log/slog"
	"os"
	"runtime/debug"
	"strconv"
	"strings"
	"sync"

	"github.com/els0r/goProbe/v4/pkg/goDB/engine"
	"github.com/els0r/goProbe/v4/pkg/query"
	"github.com/els0r/goProbe/v4/pkg/results"
	"github.com/els0r/telemetry/logging"
)

var (
	logMu  sync.Mutex
	logSet bool
)

// QuietLogs routes goProbe's logging to io.Discard (or to w if non-nil).
func QuietLogs(w io.Writer) {
	logMu.Lock()
	defer logMu.Unlock()
	if w == nil {
		w = io.Discard
	}
	_, _ = logging.Init(logLevel(), logging.EncodingLogfmt, logging.WithOutput(w), logging.WithErrorOutput(w))
	logSet = true
}

func ensureQuiet() {
	logMu.Lock()
	set := logSet
	logMu.Unlock()
	if !set {
		QuietLogs(nil)
	}
}

// Args builds query arguments with explicit epoch bounds.
func Args(queryType, ifaces, cond string, first, last int64) *query.Args {
	a := query.NewArgs(queryType, ifaces)
	a.Condition = cond
	a.First = strconv.FormatInt(first, 10)
	a.Last = strconv.FormatInt(last, 10)
	a.Format = "json"
	a.NumResults = 1 << 40
	a.MaxMemPct = 90
	return a
}

// Run executes a query through the real engine. Panics on the calling goroutine are recovered and
// returned (panicMsg != ""); panics in worker goroutines kill the process (child isolation).
func Run(dbPath string, a *query.Args, opts ...engine.RunnerOption) (res *results.Result, err error, panicMsg string) {
	ensureQuiet()
	defer func() {
		if r := recover(); r != nil {
			panicMsg = fmt.Sprintf("%v\n%s", r, debug.Stack())
		}
	}()
	res, err = engine.NewQueryRunner(dbPath, opts...).Run(context.Background(), a)
	return
}

// QueryType renders an attribute list (+time/iface labels) as a query type string.
func QueryType(attrs []string, time, iface bool) string {
	var parts []string
	if time {
		parts = append(parts, "time")
	}
	if iface {
		parts = append(parts, "iface")
	}
	parts = append(parts, attrs...)
	return strings.Join(parts, ",")
}

func logLevel() slog.Level {
	if os.Getenv("VERIF_DEBUG_LOG") != "" {
		return logging.LevelDebug
	}
	return logging.LevelError
}
