// Package rdr holds helpers shared by the checks of the `reader` group (C06, C11, C12, C16):
// a query generator restricted to condition shapes whose evaluation is not affected by defects that
// belong to other properties (C08/C09/C10), and canonicalisation / comparison of engine results.
package rdr

import (
	"fmt"
	"math/rand"
	"net/netip"
	"sort"
	"strings"

	"github.com/els0r/goProbe/v4/pkg/results"
	"verifharness/checks/c08"
	"verifharness/eng"
	"verifharness/gen"
	"verifharness/ref"
)

// numLeaf draws a port / protocol comparison.
func numLeaf(r *rand.Rand) *gen.Cond {
	c := &gen.Cond{Kind: gen.CCmp}
	c.Op = []string{"=", "!=", "<", ">", "<=", ">="}[r.Intn(6)]
	if r.Intn(2) == 0 {
		c.Attr = "dport"
		c.Num = int(gen.Ports[r.Intn(len(gen.Ports))])
		if r.Intn(4) == 0 {
			c.Num = []int{1, 79, 81, 255, 256, 1024, 65534}[r.Intn(7)]
		}
	} else {
		c.Attr = "proto"
		c.Num = int(gen.Protos[r.Intn(len(gen.Protos))])
	}
	return c
}

func numTree(r *rand.Rand, depth int) *gen.Cond {
	if depth <= 1 || r.Intn(3) == 0 {
		return numLeaf(r)
	}
	switch r.Intn(5) {
	case 0, 1:
		return &gen.Cond{Kind: gen.CAnd, L: numTree(r, depth-1), R: numTree(r, depth-1)}
	case 2, 3:
		return &gen.Cond{Kind: gen.COr, L: numTree(r, depth-1), R: numTree(r, depth-1)}
	default:
		return &gen.Cond{Kind: gen.CNot, L: numTree(r, depth-1)}
	}
}

var prefix4 = []int{0, 1, 8, 9, 16, 24, 25, 31, 32}
var prefix6 = []int{0, 1, 8, 32, 33, 64, 104, 112, 127, 128}

// SafeCond draws a condition of the shape  [src-leaf &] [dst-leaf &] numeric-tree  where the address
// leaves use `=` only, all have the same IP family, and each of source / destination occurs at most
// once. Conjunctions of single-family equality leaves are evaluated identically under every reading
// of the condition semantics (the flows of the other family never match), so results can be compared
// with the oracle without tripping over the IP-version pruning, `!=` and network-closure defects that
// C08/C09 own. May return nil (no condition).
func SafeCond(r *rand.Rand) *gen.Cond {
	var parts []*gen.Cond
	v6 := r.Intn(2) == 0
	addr := func() netip.Addr {
		if v6 {
			return gen.V6Addrs[r.Intn(len(gen.V6Addrs))]
		}
		return gen.V4Addrs[r.Intn(len(gen.V4Addrs))]
	}
	ipLeaf := func(ipAttr, netAttr string) *gen.Cond {
		c := &gen.Cond{Kind: gen.CCmp, Op: "="}
		if r.Intn(2) == 0 {
			c.Attr, c.Addr = ipAttr, addr()
			return c
		}
		bits := prefix4[r.Intn(len(prefix4))]
		if v6 {
			bits = prefix6[r.Intn(len(prefix6))]
		}
		c.Attr, c.Net = netAttr, netip.PrefixFrom(addr(), bits)
		return c
	}
	switch r.Intn(6) {
	case 0:
		parts = append(parts, ipLeaf("sip", "snet"))
	case 1:
		parts = append(parts, ipLeaf("dip", "dnet"))
	case 2:
		parts = append(parts, ipLeaf("sip", "snet"), ipLeaf("dip", "dnet"))
	}
	if len(parts) == 0 || r.Intn(2) == 0 {
		if r.Intn(5) != 0 || len(parts) > 0 {
			parts = append(parts, numTree(r, 1+r.Intn(3)))
		}
	}
	if len(parts) == 0 {
		return nil
	}
	r.Shuffle(len(parts), func(i, j int) { parts[i], parts[j] = parts[j], parts[i] })
	c := parts[0]
	for _, p := range parts[1:] {
		c = &gen.Cond{Kind: gen.CAnd, L: c, R: p}
	}
	return c
}

// QueryOpts tunes SafeQuery.
type QueryOpts struct {
	ForceTime bool // always request the time attribute
	NoDir     bool // no direction filter
	FullRange bool // always query the whole time span of the DB
}

// SafeQuery draws a query against db (attributes, interface selection, time range, SafeCond,
// optional direction filter, low-memory flag).
func SafeQuery(r *rand.Rand, db *gen.RefDB, o QueryOpts) c08.Query {
	var q c08.Query
	all := []string{"sip", "dip", "dport", "proto"}
	perm := r.Perm(4)
	n := r.Intn(5)
	for _, i := range perm[:n] {
		q.Spec.Attrs = append(q.Spec.Attrs, all[i])
	}
	q.Spec.Time = o.ForceTime || r.Intn(3) == 0
	if n == 0 && !q.Spec.Time {
		q.Spec.Attrs = []string{all[perm[0]]}
	}
	q.Type = eng.QueryType(q.Spec.Attrs, q.Spec.Time, r.Intn(3) == 0)
	names := db.IfaceNames()
	if r.Intn(2) == 0 {
		q.Ifaces, q.Spec.Ifaces = "any", names
	} else {
		k := 1 + r.Intn(len(names))
		var sel []string
		for _, i := range r.Perm(len(names))[:k] {
			sel = append(sel, names[i])
		}
		q.Ifaces, q.Spec.Ifaces = strings.Join(sel, ","), sel
	}
	tss := db.AllTimestamps()
	if o.FullRange || r.Intn(3) == 0 {
		q.Spec.First, q.Spec.Last = tss[0]-1000, tss[len(tss)-1]+1000
	} else {
		pick := func() int64 {
			t := tss[r.Intn(len(tss))]
			return t + []int64{0, 0, 1, -1, 150, -150, 300, -300}[r.Intn(8)]
		}
		a, b := pick(), pick()
		if a > b {
			a, b = b, a
		}
		q.Spec.First, q.Spec.Last = a, b
	}
	if c := SafeCond(r); c != nil {
		q.Spec.Cond = c
		q.Cond = c.Render(gen.PlainStyle)
	}
	if !o.NoDir && r.Intn(5) == 0 {
		d := gen.DirFilters[r.Intn(len(gen.DirFilters))]
		q.Spec.Dir = d
		if q.Cond == "" {
			q.Cond = fmt.Sprintf("dir = %s", d)
		} else {
			q.Cond = fmt.Sprintf("(%s) & dir = %s", q.Cond, d)
		}
	}
	q.LowMem = r.Intn(3) == 0
	return q
}

// Canon is a canonical, comparable rendering of a result: sorted rows, totals, hit count.
type Canon struct {
	Rows   []string
	Totals ref.Ctr
	Hits   int
	Dup    string // non-empty if two result rows share a group key
}

// Canonical renders engine output.
func Canonical(res *results.Result, spec ref.QuerySpec) Canon {
	rows, dup := ref.FromResult(res.Rows, spec)
	t := res.Summary.Totals
	return Canon{Rows: RowStrings(rows), Dup: dup, Hits: res.Summary.Hits.Total,
		Totals: ref.Ctr{BR: t.BytesRcvd, BS: t.BytesSent, PR: t.PacketsRcvd, PS: t.PacketsSent}}
}

// RowStrings renders oracle-style rows as sorted strings.
func RowStrings(rows ref.Rows) []string {
	out := make([]string, 0, len(rows))
	for k, c := range rows {
		out = append(out, fmt.Sprintf("%s %+v", k, c))
	}
	sort.Strings(out)
	return out
}

// DiffCanon describes the first differences between two canonical results ("" = equal).
func DiffCanon(a, b Canon) string {
	var msgs []string
	if a.Totals != b.Totals {
		msgs = append(msgs, fmt.Sprintf("totals %+v vs %+v", a.Totals, b.Totals))
	}
	if a.Hits != b.Hits {
		msgs = append(msgs, fmt.Sprintf("hits %d vs %d", a.Hits, b.Hits))
	}
	am, bm := map[string]bool{}, map[string]bool{}
	for _, r := range a.Rows {
		am[r] = true
	}
	for _, r := range b.Rows {
		bm[r] = true
	}
	n := 0
	for _, r := range a.Rows {
		if !bm[r] && n < 4 {
			msgs = append(msgs, "only in first: "+r)
			n++
		}
	}
	n = 0
	for _, r := range b.Rows {
		if !am[r] && n < 4 {
			msgs = append(msgs, "only in second: "+r)
			n++
		}
	}
	if len(a.Rows) != len(b.Rows) {
		msgs = append(msgs, fmt.Sprintf("%d vs %d rows", len(a.Rows), len(b.Rows)))
	}
	return strings.Join(msgs, "; ")
}

// Sanitize rewrites the one address of the generator alphabet that the engine cannot render
// (IPv6 a00:1:: has 12 trailing zero bytes and is reported as IPv4 10.0.0.1 by types.RawIPToAddr — a
// result-rendering defect that belongs to C08) so that the checks of this group do not trip over it.
func Sanitize(db *gen.RefDB) {
	bad := netip.MustParseAddr("a00:1::")
	repl := netip.MustParseAddr("a00:1::7")
	for i := range db.Ifaces {
		for j := range db.Ifaces[i].Blocks {
			b := &db.Ifaces[i].Blocks[j]
			seen := map[string]bool{}
			out := b.Flows[:0]
			for _, f := range b.Flows {
				if f.SIP == bad {
					f.SIP = repl
				}
				if f.DIP == bad {
					f.DIP = repl
				}
				if seen[f.KeyString()] {
					continue
				}
				seen[f.KeyString()] = true
				out = append(out, f)
			}
			b.Flows = out
		}
	}
}
