package condx

import (
	"fmt"
	"io"
	"runtime/debug"

	"github.com/els0r/goProbe/v4/pkg/query"
)

// Prepare runs goProbe's query preparation (Args.Prepare) with the given condition text and otherwise
// valid arguments, so that the returned error is non-nil iff the condition was rejected. Panics are
// recovered and returned.
func Prepare(cond string) (st *query.Statement, err error, panicMsg string) {
	defer func() {
		if r := recover(); r != nil {
			panicMsg = fmt.Sprintf("%v\n%s", r, debug.Stack())
		}
	}()
	a := query.NewArgs("sip,dip,dport,proto", "eth0")
	a.Condition = cond
	a.First = "1000080000"
	a.Last = "1000090000"
	a.Format = "json"
	a.DNSResolution.Timeout = DNSTimeout
	st, err = a.Prepare(io.Discard)
	return
}
