// Package condx holds the helpers shared by the condition checks C09 and C10: the flow pool the
// truth tables are computed on, guarded key buffers (exact capacity / spare capacity with canaries),
// safe wrappers around goProbe's parser and evaluator, and leaf classification for signatures.
//
// Nothing in here decides a truth value: the oracle is gen.Cond.Eval (net/netip arithmetic).
package condx

import (
	"bytes"
	"fmt"
	"math/rand"
	"net/netip"
	"runtime/debug"
	"strings"
	"time"

	"github.com/els0r/goProbe/v4/pkg/goDB/conditions/node"
	"github.com/els0r/goProbe/v4/pkg/types"
	"verifharness/gen"
)

// DNSTimeout is the resolver timeout handed to ParseAndInstrument (generated conditions never
// contain host names, so it only bounds fuzz inputs that look like one).
const DNSTimeout = 300 * time.Millisecond

// flipBit returns a with bit i (0 = most significant bit of the first byte) inverted.
func flipBit(a netip.Addr, i int) netip.Addr {
	b := a.AsSlice()
	if i < 0 || i >= len(b)*8 {
		return a
	}
	b[i/8] ^= 0x80 >> (i % 8)
	r, _ := netip.AddrFromSlice(b)
	return r
}

// addrNeighbours returns addresses around the literal of a leaf: the literal itself, the literal with
// single bits flipped around the prefix boundary (last network bit, first host bit), the first and the
// last bit, the byte boundary bits around the prefix, and the masked network / broadcast address.
func addrNeighbours(a netip.Addr, bits int) []netip.Addr {
	out := []netip.Addr{a}
	n := a.BitLen()
	for _, i := range []int{0, n - 1, bits - 1, bits, bits - 2, bits + 1, (bits / 8) * 8, (bits/8)*8 - 1, (bits/8)*8 + 7, (bits/8)*8 + 8} {
		if i >= 0 && i < n {
			out = append(out, flipBit(a, i))
		}
	}
	if bits >= 0 && bits <= n {
		p := netip.PrefixFrom(a, bits).Masked()
		out = append(out, p.Addr())
		// highest address of the network
		b := p.Addr().AsSlice()
		for i := bits; i < n; i++ {
			b[i/8] |= 0x80 >> (i % 8)
		}
		hi, _ := netip.AddrFromSlice(b)
		out = append(out, hi)
	}
	return out
}

// crossFamily maps an address into the other family such that the leading bytes coincide (the raw
// byte comparison goProbe performs is then tempted to match across families).
func crossFamily(a netip.Addr, r *rand.Rand) netip.Addr {
	if a.Is4() {
		var b [16]byte
		s := a.As4()
		copy(b[:], s[:])
		if r.Intn(2) == 0 {
			r.Read(b[4:])
		}
		return netip.AddrFrom16(b)
	}
	s := a.As16()
	return netip.AddrFrom4([4]byte{s[0], s[1], s[2], s[3]})
}

// v4ImageOfV6 builds the IPv4 flow whose 11 key bytes (sip|dip|dport|proto) equal the first 11 bytes of
// the IPv6 address a: a network closure that reslices an IPv4 key up to its capacity compares exactly
// these bytes.
func v4ImageOfV6(a netip.Addr) gen.Flow {
	s := a.As16()
	return gen.Flow{
		SIP:   netip.AddrFrom4([4]byte{s[0], s[1], s[2], s[3]}),
		DIP:   netip.AddrFrom4([4]byte{s[4], s[5], s[6], s[7]}),
		Dport: uint16(s[8])<<8 | uint16(s[9]),
		Proto: s[10],
	}
}

// BuildPool builds the flow pool for a set of conditions: a seeded sample of the small alphabets plus,
// for every leaf constant, flows on and next to the constant (±1 bit around the prefix boundary,
// ±1 for numbers), in the source and in the destination position, in the leaf's family and
// transplanted into the other family.
func BuildPool(r *rand.Rand, conds []*gen.Cond, nRandom int) []gen.Flow {
	var pool []gen.Flow
	seen := map[string]bool{}
	add := func(f gen.Flow) {
		if !f.SIP.IsValid() || !f.DIP.IsValid() || f.SIP.Is4() != f.DIP.Is4() {
			return
		}
		k := f.KeyString()
		if seen[k] {
			return
		}
		seen[k] = true
		pool = append(pool, f)
	}
	for i := 0; i < nRandom; i++ {
		add(gen.RandFlow(r, gen.FlowOpts{V6Prob: 0.5}))
	}
	other := func(v4 bool) netip.Addr {
		if v4 {
			return gen.V4Addrs[r.Intn(len(gen.V4Addrs))]
		}
		return gen.V6Addrs[r.Intn(len(gen.V6Addrs))]
	}
	port := func() uint16 { return gen.Ports[r.Intn(len(gen.Ports))] }
	proto := func() uint8 { return gen.Protos[r.Intn(len(gen.Protos))] }
	for _, c := range conds {
		for _, l := range c.Leaves() {
			switch l.Attr {
			case "sip", "dip", "src", "dst", "host", "snet", "dnet", "net":
				a, bits := l.Addr, -1
				if strings.HasSuffix(l.Attr, "net") {
					a, bits = l.Net.Addr(), l.Net.Bits()
				} else {
					bits = a.BitLen()
				}
				for _, n := range addrNeighbours(a, bits) {
					for _, x := range []netip.Addr{n, crossFamily(n, r)} {
						add(gen.Flow{SIP: x, DIP: other(x.Is4()), Dport: port(), Proto: proto()})
						add(gen.Flow{SIP: other(x.Is4()), DIP: x, Dport: port(), Proto: proto()})
						add(gen.Flow{SIP: x, DIP: x, Dport: port(), Proto: proto()})
					}
				}
				if !a.Is4() {
					add(v4ImageOfV6(a))
					add(v4ImageOfV6(netip.PrefixFrom(a, bits).Masked().Addr()))
				}
			case "dport", "port":
				for _, d := range []int{-1, 0, 1, 256, -256} {
					v := l.Num + d
					if v < 0 || v > 65535 {
						continue
					}
					v4 := r.Intn(2) == 0
					add(gen.Flow{SIP: other(v4), DIP: other(v4), Dport: uint16(v), Proto: proto()})
					add(gen.Flow{SIP: other(!v4), DIP: other(!v4), Dport: uint16(v), Proto: proto()})
				}
				// byte-swapped port (endianness mistakes)
				sw := (l.Num&0xff)<<8 | l.Num>>8
				add(gen.Flow{SIP: other(true), DIP: other(true), Dport: uint16(sw), Proto: proto()})
			default:
				for _, d := range []int{-1, 0, 1} {
					v := l.Num + d
					if v < 0 || v > 255 {
						continue
					}
					v4 := r.Intn(2) == 0
					add(gen.Flow{SIP: other(v4), DIP: other(v4), Dport: port(), Proto: uint8(v)})
					add(gen.Flow{SIP: other(!v4), DIP: other(!v4), Dport: port(), Proto: uint8(v)})
				}
			}
		}
	}
	return pool
}

// KeyLayout selects how the key handed to Evaluate is allocated.
type KeyLayout int

const (
	// KeyExact is a key with len == cap (what types.NewV4Key / NewV6Key produce).
	KeyExact KeyLayout = iota
	// KeySpare is a key cut out of a larger buffer (what ExtendedKey.Key() and the hash map iterator
	// produce): bytes before and after the key are canaries.
	KeySpare
	// NumKeyLayouts is the number of layouts.
	NumKeyLayouts
)

const canaryLen = 24

// GuardedKey is a goProbe key plus the means to detect any write to it or around it.
type GuardedKey struct {
	Key  types.Key
	buf  []byte // whole backing buffer
	snap []byte // snapshot of buf at creation
}

// NewGuardedKey builds the key of f in the given layout.
func NewGuardedKey(f gen.Flow, layout KeyLayout) *GuardedKey {
	k := f.Key() // exact capacity
	g := &GuardedKey{}
	switch layout {
	case KeyExact:
		g.buf = k
		g.Key = k
	default:
		g.buf = make([]byte, canaryLen+len(k)+canaryLen)
		for i := range g.buf {
			g.buf[i] = 0xA5 ^ byte(i*7)
		}
		copy(g.buf[canaryLen:], k)
		g.Key = types.Key(g.buf[canaryLen : canaryLen+len(k)]) // cap reaches into the trailing canary
	}
	g.snap = append([]byte(nil), g.buf...)
	return g
}

// Changed reports how the key or its surroundings differ from the snapshot ("" = untouched).
func (g *GuardedKey) Changed() string {
	if bytes.Equal(g.buf, g.snap) {
		return ""
	}
	off := 0
	if len(g.buf) != len(g.Key) {
		off = canaryLen
	}
	for i := range g.buf {
		if g.buf[i] != g.snap[i] {
			where := "key"
			if i < off {
				where = "memory before key"
			} else if i >= off+len(g.Key) {
				where = "memory after key"
			}
			return fmt.Sprintf("%s byte %d changed %#02x -> %#02x (key before % x, after % x)", where, i-off, g.snap[i], g.buf[i],
				g.snap[off:off+len(g.Key)], g.buf[off:off+len(g.Key)])
		}
	}
	return ""
}

// Parse calls goProbe's ParseAndInstrument, recovering panics (returned as panicMsg).
func Parse(text string) (n node.Node, vf *node.ValFilterNode, err error, panicMsg string) {
	defer func() {
		if r := recover(); r != nil {
			panicMsg = fmt.Sprintf("%v\n%s", r, debug.Stack())
		}
	}()
	n, vf, err = node.ParseAndInstrument(text, DNSTimeout)
	return
}

// Eval calls Node.Evaluate, recovering panics (returned as panicMsg).
func Eval(n node.Node, k types.Key) (res bool, panicMsg string) {
	defer func() {
		if r := recover(); r != nil {
			panicMsg = fmt.Sprintf("%v\n%s", r, debug.Stack())
		}
	}()
	res = n.Evaluate(k)
	return
}

// FirstLine returns the first line of a panic message.
func FirstLine(s string) string {
	if i := strings.IndexByte(s, '\n'); i >= 0 {
		return s[:i]
	}
	return s
}

// PanicFrame returns the first goProbe frame of a recovered panic's stack ("unknown" if none).
func PanicFrame(msg string) string {
	for _, line := range strings.Split(msg, "\n") {
		line = strings.TrimSpace(line)
		if strings.HasPrefix(line, "github.com/els0r/goProbe/v4/") {
			line = strings.TrimPrefix(line, "github.com/els0r/goProbe/v4/")
			if i := strings.IndexByte(line, '('); i >= 0 {
				line = line[:i]
			}
			// strip closure numbering
			for {
				j := strings.LastIndex(line, ".func")
				if j < 0 {
					break
				}
				line = line[:j]
			}
			return line
		}
	}
	return "unknown"
}

// LeafClass is the deterministic feature class of a leaf evaluated on a flow, for signatures:
// attribute kind, comparator kind, prefix alignment, same/other family.
func LeafClass(l *gen.Cond, f gen.Flow) string {
	var parts []string
	switch l.Attr {
	case "sip", "dip":
		parts = append(parts, "ip")
	case "src", "dst":
		parts = append(parts, "ip_sugar")
	case "host":
		parts = append(parts, "host")
	case "snet", "dnet":
		parts = append(parts, "net")
	case "net":
		parts = append(parts, "net_sugar")
	case "dport":
		parts = append(parts, "dport")
	case "port":
		parts = append(parts, "port_sugar")
	case "proto":
		parts = append(parts, "proto")
	default:
		parts = append(parts, "proto_sugar")
	}
	if l.Op == "=" || l.Op == "!=" {
		parts = append(parts, map[string]string{"=": "eq", "!=": "ne"}[l.Op])
	} else {
		parts = append(parts, "order")
	}
	lit4, isIP := false, false
	switch l.Attr {
	case "sip", "dip", "src", "dst", "host":
		lit4, isIP = l.Addr.Is4(), true
	case "snet", "dnet", "net":
		lit4, isIP = l.Net.Addr().Is4(), true
		switch {
		case l.Net.Bits() == 0:
			parts = append(parts, "len0")
		case l.Net.Bits() == l.Net.Addr().BitLen():
			parts = append(parts, "full")
		case l.Net.Bits()%8 == 0:
			parts = append(parts, "aligned")
		default:
			parts = append(parts, "unaligned")
		}
	}
	if isIP {
		if lit4 == f.IsV4() {
			parts = append(parts, "same_family")
		} else if lit4 {
			parts = append(parts, "v4lit_on_v6flow")
		} else {
			parts = append(parts, "v6lit_on_v4flow")
		}
	}
	return strings.Join(parts, ",")
}

// FixProtoNames clears protocol names the platform table of goProbe does not know ("esp" is only a
// protocol name on darwin; on Linux it is "ipsec-esp"), so that generated conditions are valid.
func FixProtoNames(c *gen.Cond) {
	for _, l := range c.Leaves() {
		if l.Proto == "esp" {
			l.Proto = "ipsec-esp"
		}
	}
}
