package condx

import (
	"math/rand"
	"sort"
	"strconv"
	"strings"
	"unicode"

	"verifharness/gen"
)

// Operator spellings exactly as listed in goQuery's help text (cmd/goQuery/cmd/help.go, "Condition").
// The first entry of every list is the base symbol.
var (
	CmpSpellings = map[string][]string{
		"=":  {"=", "eq", "-eq", "equals", "==", "==="},
		"!=": {"!=", "neq", "-neq", "ne", "-ne"},
		"<=": {"<=", "le", "-le", "leq", "-leq"},
		">=": {">=", "ge", "-ge", "geq", "-geq"},
		"<":  {"<", "less", "l", "-l", "lt", "-lt"},
		">":  {">", "greater", "g", "-g", "gt", "-gt"},
	}
	AndSpellings = []string{"&", "and", "&&", "*"}
	OrSpellings  = []string{"|", "or", "||", "+"}
	NotSpellings = []string{"!", "not"}
	Brackets     = [][2]string{{"(", ")"}, {"[", "]"}, {"{", "}"}}
	// whitespace the tokenizer documents as separators
	wsNonEmpty = []string{" ", " ", " ", "  ", "\t", "\n", " \t ", "\r\n", "   "}
	wsAny      = []string{"", "", " ", " ", "  ", "\t", "\n"}
)

// IsWord reports whether an operator spelling is a word form (needs enclosing whitespace).
func IsWord(sp string) bool {
	for _, r := range sp {
		if unicode.IsLetter(r) {
			return true
		}
	}
	return false
}

// Styled is a condition AST annotated with one concrete spelling / whitespace / bracket choice per
// node, so that a rendering can be reproduced and shrunk (sub-trees keep their choices).
type Styled struct {
	C          *gen.Cond
	L, R       *Styled
	Op         string // spelling of this node's operator
	WsL, WsR   string // whitespace before / after the operator
	Force      bool   // parenthesise even where precedence does not require it
	Br         int    // bracket kind
	PadL, PadR string // whitespace inside the brackets
	UpperVal   bool   // protocol name in upper case (as in the help text: "proto = TCP")
	// optional forms (accepted by the implementation but not promised by the help text)
	NotNoLead  bool // word "not" directly after an opening bracket / operator symbol: "(not x)"
	NotNoTrail bool // "not(" without whitespace
}

// StyleOpts tunes RandStyle.
type StyleOpts struct {
	WordProb     float64 // probability of a non-base spelling per operator
	OptionalProb float64 // probability of an optional form where one is possible
	Whitespace   bool    // draw whitespace variants (otherwise single blanks)
	ForceProb    float64 // probability of redundant parentheses
	AltBrackets  bool
	UpperProto   bool // protocol names in upper case with probability 1/2 (only valid through SanitizeUserInput)
}

func pick(r *rand.Rand, xs []string) string { return xs[r.Intn(len(xs))] }

// RandStyle draws a styling for c.
func RandStyle(r *rand.Rand, c *gen.Cond, o StyleOpts) *Styled {
	s := &Styled{C: c}
	spell := func(list []string) string {
		if r.Float64() < o.WordProb {
			return list[1+r.Intn(len(list)-1)]
		}
		return list[0]
	}
	switch c.Kind {
	case gen.CAnd:
		s.Op = spell(AndSpellings)
	case gen.COr:
		s.Op = spell(OrSpellings)
	case gen.CNot:
		s.Op = spell(NotSpellings)
	default:
		s.Op = spell(CmpSpellings[c.Op])
		s.UpperVal = o.UpperProto && r.Intn(2) == 0
	}
	if IsWord(s.Op) {
		s.WsL, s.WsR = " ", " "
		if o.Whitespace {
			s.WsL, s.WsR = pick(r, wsNonEmpty), pick(r, wsNonEmpty)
		}
		if c.Kind == gen.CNot && r.Float64() < o.OptionalProb {
			if r.Intn(2) == 0 {
				s.NotNoLead = true
			} else {
				s.NotNoTrail = true
			}
		}
	} else {
		s.WsL, s.WsR = " ", " "
		if o.Whitespace {
			s.WsL, s.WsR = pick(r, wsAny), pick(r, wsAny)
		}
		if c.Kind == gen.CNot {
			s.WsL = ""
		}
	}
	s.Force = r.Float64() < o.ForceProb
	if o.AltBrackets {
		s.Br = r.Intn(len(Brackets))
	}
	if o.Whitespace {
		s.PadL, s.PadR = pick(r, wsAny), pick(r, wsAny)
	}
	switch c.Kind {
	case gen.CAnd, gen.COr:
		s.L, s.R = RandStyle(r, c.L, o), RandStyle(r, c.R, o)
	case gen.CNot:
		s.L = RandStyle(r, c.L, o)
	}
	return s
}

// Rendering is the text of a styled tree plus what it used.
type Rendering struct {
	Text      string
	Optional  bool     // uses a form the help text does not promise
	Spellings []string // distinct non-base spellings used (sorted)
	MinParens bool     // at least one sub-expression relies on operator precedence
}

type renderer struct {
	b        strings.Builder
	optional bool
	used     map[string]bool
	minPar   bool
}

func (w *renderer) last() byte {
	s := w.b.String()
	if len(s) == 0 {
		return 0
	}
	return s[len(s)-1]
}

func isSpace(c byte) bool { return c == ' ' || c == '\t' || c == '\n' || c == '\r' }

const (
	ctxTop = iota
	ctxOr
	ctxAnd
	ctxNot
)

func valueText(c *gen.Cond, upper bool) string {
	switch c.Attr {
	case "sip", "dip", "src", "dst", "host":
		return c.Addr.String()
	case "snet", "dnet", "net":
		return c.Net.Addr().String() + "/" + strconv.Itoa(c.Net.Bits())
	case "dport", "port":
		return strconv.Itoa(c.Num)
	}
	if c.Proto != "" {
		if upper {
			return strings.ToUpper(c.Proto)
		}
		return c.Proto
	}
	return strconv.Itoa(c.Num)
}

func (w *renderer) node(s *Styled, ctx int) {
	c := s.C
	need := false
	switch ctx {
	case ctxAnd:
		need = c.Kind == gen.COr
	case ctxNot:
		need = c.Kind != gen.CCmp
	}
	paren := need || s.Force
	if !paren && c.Kind != gen.CCmp && ctx != ctxTop {
		w.minPar = true
	}
	if paren {
		w.b.WriteString(Brackets[s.Br][0])
		w.b.WriteString(s.PadL)
	}
	note := func(op, base string) {
		if op != base {
			w.used[op] = true
		}
	}
	switch c.Kind {
	case gen.CCmp:
		note(s.Op, c.Op)
		w.b.WriteString(c.Attr)
		w.b.WriteString(s.WsL)
		w.b.WriteString(s.Op)
		w.b.WriteString(s.WsR)
		w.b.WriteString(valueText(c, s.UpperVal))
	case gen.CNot:
		note(s.Op, "!")
		if IsWord(s.Op) {
			// the word form needs whitespace (or the start of the text) in front of it
			if l := w.last(); l != 0 && !isSpace(l) {
				if s.NotNoLead {
					w.optional = true
				} else {
					w.b.WriteString(s.WsL)
				}
			}
			w.b.WriteString(s.Op)
			willParen := s.L.C.Kind != gen.CCmp || s.L.Force
			if s.NotNoTrail && willParen {
				w.optional = true
			} else {
				w.b.WriteString(s.WsR)
			}
		} else {
			w.b.WriteString(s.Op)
			w.b.WriteString(s.WsR)
		}
		w.node(s.L, ctxNot)
	default:
		sub := ctxAnd
		base := "&"
		if c.Kind == gen.COr {
			sub, base = ctxOr, "|"
		}
		note(s.Op, base)
		w.node(s.L, sub)
		w.b.WriteString(s.WsL)
		w.b.WriteString(s.Op)
		w.b.WriteString(s.WsR)
		w.node(s.R, sub)
	}
	if paren {
		w.b.WriteString(s.PadR)
		w.b.WriteString(Brackets[s.Br][1])
	}
}

// Render renders the styled tree.
func (s *Styled) Render() Rendering {
	w := &renderer{used: map[string]bool{}}
	w.node(s, ctxTop)
	out := Rendering{Text: w.b.String(), Optional: w.optional, MinParens: w.minPar}
	for k := range w.used {
		out.Spellings = append(out.Spellings, k)
	}
	sort.Strings(out.Spellings)
	return out
}

// Children returns the styled sub-trees (for shrinking).
func (s *Styled) Children() []*Styled {
	switch s.C.Kind {
	case gen.CAnd, gen.COr:
		return []*Styled{s.L, s.R}
	case gen.CNot:
		return []*Styled{s.L}
	}
	return nil
}

// Shrink returns a smallest sub-tree of s (keeping all styling choices) for which bad still holds.
func Shrink(s *Styled, bad func(*Styled) bool) *Styled {
	for {
		next := (*Styled)(nil)
		for _, ch := range s.Children() {
			if bad(ch) {
				next = ch
				break
			}
		}
		if next == nil {
			return s
		}
		s = next
	}
}

// ShrinkCond is Shrink for plain ASTs.
func ShrinkCond(c *gen.Cond, bad func(*gen.Cond) bool) *gen.Cond {
	for {
		var next *gen.Cond
		var kids []*gen.Cond
		switch c.Kind {
		case gen.CAnd, gen.COr:
			kids = []*gen.Cond{c.L, c.R}
		case gen.CNot:
			kids = []*gen.Cond{c.L}
		}
		for _, k := range kids {
			if bad(k) {
				next = k
				break
			}
		}
		if next == nil {
			return c
		}
		c = next
	}
}

// Desugared returns the documented expansion of the sugared attributes (help text of goQuery):
// src/dst/port/protocol/ipproto are aliases; host = X is (sip = X | dip = X), host != X is
// (sip != X & dip != X); net likewise with snet/dnet.
func Desugared(c *gen.Cond) *gen.Cond {
	switch c.Kind {
	case gen.CAnd, gen.COr:
		return &gen.Cond{Kind: c.Kind, L: Desugared(c.L), R: Desugared(c.R)}
	case gen.CNot:
		return &gen.Cond{Kind: gen.CNot, L: Desugared(c.L)}
	}
	cp := *c
	two := func(a, b string) *gen.Cond {
		l, r := cp, cp
		l.Attr, r.Attr = a, b
		if c.Op == "=" {
			return &gen.Cond{Kind: gen.COr, L: &l, R: &r}
		}
		return &gen.Cond{Kind: gen.CAnd, L: &l, R: &r}
	}
	switch c.Attr {
	case "src":
		cp.Attr = "sip"
	case "dst":
		cp.Attr = "dip"
	case "port":
		cp.Attr = "dport"
	case "protocol", "ipproto":
		cp.Attr = "proto"
	case "host":
		return two("sip", "dip")
	case "net":
		return two("snet", "dnet")
	}
	return &cp
}

// HasSugar reports whether any leaf uses a sugared attribute.
func HasSugar(c *gen.Cond) bool {
	for _, l := range c.Leaves() {
		switch l.Attr {
		case "src", "dst", "port", "protocol", "ipproto", "host", "net":
			return true
		}
	}
	return false
}
