// Package fw is the small framework every property check is written against.
//
// A check is a deterministic list of cases (a pure function of seed, tier and case index). The
// parent process runs the cases in child processes (crash isolation: a panic in a goProbe worker
// goroutine, a sanitizer abort or a `fatal error` kills one batch and is attributed to the case that
// was logged as started). Children stream one JSON record per case; the parent aggregates
// coverage counters, distinct non-trivial case keys, samples and violations, consults the
// known-findings file, writes the evidence file and decides the exit code:
//
//	0  held on everything explored (KNOWN-FINDING lines may have been printed)
//	1  at least one violation that is not a listed known finding (VIOLATION line printed)
//	2  inconclusive (watchdog fired / a required coverage counter is zero)
package fw

import (
	"bufio"
	"bytes"
	"crypto/sha256"
	"encoding/hex"
	"encoding/json"
	"errors"
	"flag"
	"fmt"
	"math/rand"
	"os"
	"os/exec"
	"path/filepath"
	"regexp"
	"runtime"
	"runtime/debug"
	"sort"
	"strconv"
	"strings"
	"sync"
	"syscall"
	"time"
)

// VerifDir is the root of the verification tree.
var VerifDir = envOr("VERIF_DIR", "/verif")

// OutDir is where evidence and replay files are written (VERIF_OUT; default: the verification tree).
// Mutation trials against another source tree set it so that /verif/evidence keeps describing /repo.
var OutDir = envOr("VERIF_OUT", VerifDir)

// RepoDir is the goProbe source tree the harness is built against.
var RepoDir = envOr("VERIF_REPO", "/repo")

func envOr(k, d string) string {
	if v := os.Getenv(k); v != "" {
		return v
	}
	return d
}

// Check describes one property check.
type Check struct {
	ID          string
	Level       string // exploration | fault_enumeration
	Rule        string // how cases are generated, and what makes one non-trivial / distinct
	Assumptions []string
	// NumCases returns the number of cases for the tier and build variant.
	NumCases func(tier, variant string) int
	// Variants lists build variants the cases are run under ("default" if empty). Known variants:
	// default, race, asan, nocgo, nolz4, nozstd.
	Variants func(tier string) []string
	// Run executes case c.Idx. It must only depend on (c.Seed, c.Tier, c.Idx, c.Variant).
	Run func(c *Case)
	// Require lists coverage counters that must be > 0 over the whole run, else inconclusive.
	Require []string
	// Batch is the number of cases per child process (0 = automatic).
	Batch int
	// Parallel is the number of concurrent children (0 = number of CPUs).
	Parallel int
	// CaseTimeout is the watchdog per case (0 = 120s). Firing is inconclusive, never a violation,
	// unless the check itself turns a hang into a violation with a structural witness.
	CaseTimeout time.Duration
	// Prepare runs once in the parent before any case (e.g. to build helper binaries). Optional.
	Prepare func(p *Parent) error
	// Finish runs once in the parent after all cases with the aggregated counters. Optional.
	Finish func(p *Parent)
	// Exhaustive is set when the case list enumerates a finite space completely.
	Exhaustive func(tier string) bool
	// Env adds environment variables for children.
	Env func(tier, variant string) []string
	// HangIsViolation: a watchdog expiry counts as a violation (sig "hang") rather than inconclusive.
	// Only set where the property itself states "never hangs" and the watchdog is >=100x normal.
	HangIsViolation bool
}

var registry = map[string]*Check{}

// Register adds a check to the registry (called from init functions).
func Register(c *Check) {
	if _, ok := registry[c.ID]; ok {
		panic("duplicate check " + c.ID)
	}
	registry[c.ID] = c
}

// Violation is one refutation of the property.
type Violation struct {
	Sig    string `json:"sig"`    // stable signature: failing oracle clause | feature class of the input
	Detail string `json:"detail"` // human readable witness
}

// Case is the context handed to Check.Run.
type Case struct {
	Idx     int
	Seed    int64
	Tier    string
	Variant string
	Rng     *rand.Rand
	Tmp     string // scratch directory private to this case (removed afterwards)
	Verbose bool

	mu   sync.Mutex // Case methods may be called from several goroutines of a check
	rec  caseRecord
	note func(string)
}

// Note records a progress note that survives a crash of the child process: if the process dies
// in this case, the last note is attached to the crash report (e.g. the query being executed).
func (c *Case) Note(format string, args ...any) {
	s := fmt.Sprintf(format, args...)
	if c.Verbose {
		fmt.Fprintln(os.Stderr, "NOTE:", s)
	}
	if c.note != nil {
		c.note(s)
	}
}

type caseRecord struct {
	Start      *int           `json:"start,omitempty"`
	Done       *int           `json:"done,omitempty"`
	Variant    string         `json:"variant,omitempty"`
	Violations []Violation    `json:"violations,omitempty"`
	Counts     map[string]int `json:"counts,omitempty"`
	Nontrivial []string       `json:"nontrivial,omitempty"`
	Sample     any            `json:"sample,omitempty"`
	Inconcl    string         `json:"inconclusive,omitempty"`
	Note       string         `json:"note,omitempty"`
}

// Violatef records a violation.
func (c *Case) Violatef(sig, format string, args ...any) {
	c.mu.Lock()
	defer c.mu.Unlock()
	d := fmt.Sprintf(format, args...)
	if len(d) > 4000 {
		d = d[:4000] + "…"
	}
	if len(c.rec.Violations) < 20 {
		c.rec.Violations = append(c.rec.Violations, Violation{Sig: sig, Detail: d})
	}
	if c.Verbose {
		fmt.Fprintf(os.Stderr, "VIOLATION[%s] %s\n", sig, d)
	}
}

// Failed reports whether the case recorded a violation.
func (c *Case) Failed() bool {
	c.mu.Lock()
	defer c.mu.Unlock()
	return len(c.rec.Violations) > 0
}

// Count adds n to a named coverage counter.
func (c *Case) Count(name string, n int) {
	c.mu.Lock()
	defer c.mu.Unlock()
	c.count(name, n)
}

func (c *Case) count(name string, n int) {
	if c.rec.Counts == nil {
		c.rec.Counts = map[string]int{}
	}
	c.rec.Counts[name] += n
}

// Nontrivial marks this case (or a sub-case) as non-trivial by the check's rule. key identifies it
// for the distinct count; it is hashed, so it may be long.
func (c *Case) Nontrivial(key string) {
	c.mu.Lock()
	defer c.mu.Unlock()
	h := sha256.Sum256([]byte(key))
	if len(c.rec.Nontrivial) < 4096 {
		c.rec.Nontrivial = append(c.rec.Nontrivial, hex.EncodeToString(h[:8]))
	} else {
		c.count("nontrivial_keys_dropped", 1)
	}
}

// Sample stores a written-out example of what this case explored.
func (c *Case) Sample(v any) {
	c.mu.Lock()
	defer c.mu.Unlock()
	if c.rec.Sample == nil {
		c.rec.Sample = v
	}
}

// Inconclusive marks the case as undecided.
func (c *Case) Inconclusive(format string, args ...any) {
	c.mu.Lock()
	defer c.mu.Unlock()
	c.rec.Inconcl = fmt.Sprintf(format, args...)
}

// Logf prints only in verbose (replay) mode.
func (c *Case) Logf(format string, args ...any) {
	if c.Verbose {
		fmt.Fprintf(os.Stderr, format+"\n", args...)
	}
}

// SubRng returns an independent deterministic PRNG for a named purpose within the case.
func (c *Case) SubRng(name string) *rand.Rand {
	return rand.New(rand.NewSource(mix(c.Seed, int64(c.Idx), hashStr(name))))
}

func hashStr(s string) int64 {
	h := sha256.Sum256([]byte(s))
	var v int64
	for i := 0; i < 8; i++ {
		v = v<<8 | int64(h[i])
	}
	return v
}

func mix(vs ...int64) int64 {
	var x uint64 = 0x9E3779B97F4A7C15
	for _, v := range vs {
		x ^= uint64(v) + 0x9E3779B97F4A7C15 + (x << 6) + (x >> 2)
		x *= 0xBF58476D1CE4E5B9
		x ^= x >> 31
	}
	return int64(x & 0x7fffffffffffffff)
}

// Parent is the aggregation context available to Prepare/Finish.
type Parent struct {
	Check   *Check
	Tier    string
	Seed    int64
	Counts  map[string]int
	Scratch string // scratch dir of the whole run (removed at exit)
	// ChildEnv holds extra environment variables (KEY=VALUE) handed to every child; Prepare may
	// append to it (e.g. paths of helper binaries it built).
	ChildEnv []string

	mu         sync.Mutex
	violations []foundViolation
	inconcl    []string
	nontrivial map[string]struct{}
	samples    []any
	evals      int
}

type foundViolation struct {
	Violation
	Case    int    `json:"case"`
	Variant string `json:"variant"`
}

// AddViolation lets Finish (or Prepare) report a violation found by the parent itself.
func (p *Parent) AddViolation(sig, detail string) {
	p.mu.Lock()
	defer p.mu.Unlock()
	p.violations = append(p.violations, foundViolation{Violation: Violation{Sig: sig, Detail: detail}, Case: -1})
}

// AddInconclusive lets Finish mark the run undecided.
func (p *Parent) AddInconclusive(msg string) {
	p.mu.Lock()
	defer p.mu.Unlock()
	p.inconcl = append(p.inconcl, msg)
}

// Main is the entry point of cmd/vcheck.
func Main() {
	var (
		prop    = flag.String("prop", "", "property id")
		tier    = flag.String("tier", "quick", "quick|thorough")
		seed    = flag.Int64("seed", envInt("VERIF_SEED", 1), "seed")
		child   = flag.Bool("child", false, "internal: run cases from..to and stream records to -out")
		from    = flag.Int("from", 0, "")
		to      = flag.Int("to", 0, "")
		out     = flag.String("out", "", "")
		variant = flag.String("variant", "default", "")
		one     = flag.Int("case", -1, "run a single case verbosely in-process (replay)")
		replay  = flag.String("replay", "", "replay file written with a VIOLATION line")
		list    = flag.Bool("list", false, "list registered checks")
		role    = flag.String("role", "", "internal: helper role (see fw.RegisterRole)")
	)
	flag.Parse()
	if *role != "" {
		fn, ok := roles[*role]
		if !ok {
			fmt.Fprintln(os.Stderr, "unknown role", *role)
			os.Exit(3)
		}
		os.Exit(fn(flag.Args()))
	}
	if *list {
		ids := make([]string, 0, len(registry))
		for id := range registry {
			ids = append(ids, id)
		}
		sort.Strings(ids)
		fmt.Println(strings.Join(ids, "\n"))
		return
	}
	if *replay != "" {
		b, err := os.ReadFile(*replay)
		if err != nil {
			fmt.Fprintln(os.Stderr, err)
			os.Exit(3)
		}
		var r replayFile
		if err := json.Unmarshal(b, &r); err != nil {
			fmt.Fprintln(os.Stderr, err)
			os.Exit(3)
		}
		*prop, *tier, *seed, *one, *variant = r.Property, r.Tier, r.Seed, r.Case, r.Variant
	}
	ck, ok := registry[*prop]
	if !ok {
		fmt.Fprintf(os.Stderr, "unknown property %q\n", *prop)
		os.Exit(3)
	}
	if *child {
		os.Exit(runChild(ck, *tier, *seed, *variant, *from, *to, *out))
	}
	if *one >= 0 {
		if *variant != "default" && os.Getenv("VERIF_VARIANT_EXEC") == "" {
			// re-exec under the right build variant
			p := &Parent{Check: ck, Tier: *tier, Seed: *seed}
			bin, err := p.VariantBinary(*variant)
			if err != nil {
				fmt.Fprintln(os.Stderr, err)
				os.Exit(3)
			}
			cmd := exec.Command(bin, "-prop", *prop, "-tier", *tier, "-seed", fmt.Sprint(*seed), "-variant", *variant, "-case", fmt.Sprint(*one))
			cmd.Env = append(os.Environ(), "VERIF_VARIANT_EXEC=1")
			if ck.Env != nil {
				cmd.Env = append(cmd.Env, ck.Env(*tier, *variant)...)
			}
			cmd.Stdout, cmd.Stderr = os.Stdout, os.Stderr
			if err := cmd.Run(); err != nil {
				os.Exit(1)
			}
			return
		}
		c := newCase(ck, *tier, *seed, *variant, *one)
		c.Verbose = true
		runCase(ck, c)
		b, _ := json.MarshalIndent(c.rec, "", " ")
		fmt.Println(string(b))
		if len(c.rec.Violations) > 0 {
			os.Exit(1)
		}
		return
	}
	os.Exit(runParent(ck, *tier, *seed))
}

func envInt(k string, d int64) int64 {
	if v := os.Getenv(k); v != "" {
		if n, err := strconv.ParseInt(v, 10, 64); err == nil {
			return n
		}
	}
	return d
}

var roles = map[string]func(args []string) int{}

// RegisterRole registers a helper role: `vcheck -role name args...` runs fn(args) (used for child
// processes that are not case batches: writers under the tracer, queries under taskset, ...).
func RegisterRole(name string, fn func(args []string) int) { roles[name] = fn }

func newCase(ck *Check, tier string, seed int64, variant string, idx int) *Case {
	c := &Case{Idx: idx, Seed: seed, Tier: tier, Variant: variant}
	c.Rng = rand.New(rand.NewSource(mix(seed, int64(idx), hashStr(ck.ID))))
	return c
}

func scratchBase() string {
	if d := os.Getenv("VERIF_SCRATCH"); d != "" {
		return d
	}
	// prefer tmpfs
	if st, err := os.Stat("/dev/shm"); err == nil && st.IsDir() {
		var fs syscall.Statfs_t
		if syscall.Statfs("/dev/shm", &fs) == nil && fs.Bavail*uint64(fs.Bsize) > 8<<30 {
			return "/dev/shm"
		}
	}
	return os.TempDir()
}

func runCase(ck *Check, c *Case) {
	tmp, err := os.MkdirTemp(scratchBase(), "vcase."+ck.ID+".")
	if err != nil {
		c.Inconclusive("mktemp: %v", err)
		return
	}
	c.Tmp = tmp
	defer os.RemoveAll(tmp)
	defer func() {
		if r := recover(); r != nil {
			st := string(debug.Stack())
			c.Violatef("panic:"+panicSite(st), "panic: %v\n%s", r, st)
		}
	}()
	ck.Run(c)
}

var frameRe = regexp.MustCompile(`(?m)^(github\.com/els0r/goProbe/[^\s(]+|verifharness/[^\s(]+)`)

// panicSite extracts the first goProbe frame of a stack dump (falls back to the first harness frame).
func panicSite(stack string) string {
	ms := frameRe.FindAllString(stack, -1)
	for _, m := range ms {
		if strings.HasPrefix(m, "github.com/els0r/goProbe/") {
			m = strings.TrimPrefix(m, "github.com/els0r/goProbe/v4/")
			m = regexp.MustCompile(`\.func\d+(\.\d+)*$`).ReplaceAllString(m, "")
			m = strings.TrimSuffix(m, "[...]")
			return m
		}
	}
	if len(ms) > 0 {
		return ms[0]
	}
	return "unknown"
}

func runChild(ck *Check, tier string, seed int64, variant string, from, to int, out string) int {
	f, err := os.OpenFile(out, os.O_WRONLY|os.O_APPEND|os.O_CREATE, 0o644)
	if err != nil {
		fmt.Fprintln(os.Stderr, err)
		return 3
	}
	defer f.Close()
	enc := func(r caseRecord) {
		b, err := json.Marshal(r)
		if err != nil {
			b, _ = json.Marshal(caseRecord{Done: r.Done, Violations: r.Violations, Counts: r.Counts, Nontrivial: r.Nontrivial, Inconcl: r.Inconcl, Sample: fmt.Sprintf("unmarshalable sample: %v", err)})
		}
		f.Write(append(b, '\n'))
	}
	for i := from; i < to; i++ {
		idx := i
		enc(caseRecord{Start: &idx})
		c := newCase(ck, tier, seed, variant, i)
		c.note = func(s string) { enc(caseRecord{Note: s}) }
		runCase(ck, c)
		c.rec.Done = &idx
		enc(c.rec)
	}
	return 0
}

type replayFile struct {
	Property string `json:"property"`
	Tier     string `json:"tier"`
	Seed     int64  `json:"seed"`
	Case     int    `json:"case"`
	Variant  string `json:"variant"`
	Sig      string `json:"signature"`
	Detail   string `json:"detail"`
	Cmd      string `json:"replay_cmd"`
}

var buildMu sync.Mutex

// VariantBinary returns the path of the vcheck binary for a build variant, building it from the
// current /repo tree if needed.
func (p *Parent) VariantBinary(variant string) (string, error) {
	self, err := os.Executable()
	if err != nil {
		return "", err
	}
	if variant == "default" || variant == "" {
		return self, nil
	}
	buildMu.Lock()
	defer buildMu.Unlock()
	binDir := filepath.Dir(self)
	outp := filepath.Join(binDir, filepath.Base(self)+"."+variant)
	args := []string{"build"}
	env := os.Environ()
	tags := "verif"
	switch variant {
	case "race":
		args = append(args, "-race")
	case "asan":
		args = append(args, "-asan")
	case "nocgo":
		env = append(env, "CGO_ENABLED=0")
	case "nolz4":
		tags += ",goprobe_noliblz4"
	case "nozstd":
		tags += ",goprobe_nolibzstd"
	case "checkptr":
		args = append(args, "-gcflags=all=-d=checkptr")
	default:
		return "", fmt.Errorf("unknown variant %q", variant)
	}
	if mf := os.Getenv("VERIF_MODFILE"); mf != "" {
		args = append(args, "-modfile="+mf)
	}
	tmpOut := fmt.Sprintf("%s.tmp%d", outp, os.Getpid())
	args = append(args, "-tags", tags, "-o", tmpOut, envOr("VERIF_CMD_PKG", "./cmd/vcheck"))
	cmd := exec.Command("go", args...)
	cmd.Dir = filepath.Join(VerifDir, "harness")
	cmd.Env = env
	var buf bytes.Buffer
	cmd.Stdout, cmd.Stderr = &buf, &buf
	if err := cmd.Run(); err != nil {
		os.Remove(tmpOut)
		return "", fmt.Errorf("building variant %s: %v\n%s", variant, err, buf.String())
	}
	if err := os.Rename(tmpOut, outp); err != nil {
		return "", err
	}
	return outp, nil
}

type batch struct {
	variant  string
	from, to int
}

func runParent(ck *Check, tier string, seed int64) int {
	t0 := time.Now()
	scratch, err := os.MkdirTemp(scratchBase(), "vrun."+ck.ID+".")
	if err != nil {
		fmt.Fprintln(os.Stderr, err)
		return 3
	}
	defer os.RemoveAll(scratch)
	p := &Parent{Check: ck, Tier: tier, Seed: seed, Counts: map[string]int{}, Scratch: scratch, nontrivial: map[string]struct{}{}}
	os.Setenv("VERIF_SCRATCH_RUN", scratch)

	variants := []string{"default"}
	if ck.Variants != nil {
		variants = ck.Variants(tier)
	}
	if ck.Prepare != nil {
		if err := ck.Prepare(p); err != nil {
			fmt.Printf("INCONCLUSIVE property=%s prepare failed: %v\n", ck.ID, err)
			writeEvidence(p, time.Since(t0), nil, nil, []string{"prepare: " + err.Error()})
			return 2
		}
	}
	par := ck.Parallel
	if par <= 0 {
		par = runtime.NumCPU()
	}
	var batches []batch
	bins := map[string]string{}
	for _, v := range variants {
		bin, err := p.VariantBinary(v)
		if err != nil {
			fmt.Printf("INCONCLUSIVE property=%s %v\n", ck.ID, err)
			writeEvidence(p, time.Since(t0), nil, nil, []string{err.Error()})
			return 2
		}
		bins[v] = bin
		n := ck.NumCases(tier, v)
		bs := ck.Batch
		if bs <= 0 {
			bs = (n + par*4 - 1) / (par * 4)
			if bs < 1 {
				bs = 1
			}
		}
		for a := 0; a < n; a += bs {
			b := a + bs
			if b > n {
				b = n
			}
			batches = append(batches, batch{v, a, b})
		}
	}
	ch := make(chan batch)
	var wg sync.WaitGroup
	for w := 0; w < par; w++ {
		wg.Add(1)
		go func(w int) {
			defer wg.Done()
			for b := range ch {
				p.runBatch(bins[b.variant], b, w)
			}
		}(w)
	}
	for _, b := range batches {
		ch <- b
	}
	close(ch)
	wg.Wait()

	for _, r := range ck.Require {
		if p.Counts[r] == 0 {
			p.inconcl = append(p.inconcl, fmt.Sprintf("required coverage counter %q is zero: the monitor did not observe what it must", r))
		}
	}
	if ck.Finish != nil {
		ck.Finish(p)
	}
	return conclude(p, time.Since(t0))
}

func (p *Parent) runBatch(bin string, b batch, worker int) {
	ck := p.Check
	from := b.from
	for attempt := 0; from < b.to; attempt++ {
		out := filepath.Join(p.Scratch, fmt.Sprintf("out.%s.%d.%d.%d", b.variant, b.from, from, attempt))
		errp := out + ".stderr"
		ef, _ := os.Create(errp)
		cmd := exec.Command(bin, "-child", "-prop", ck.ID, "-tier", p.Tier, "-seed", fmt.Sprint(p.Seed),
			"-variant", b.variant, "-from", fmt.Sprint(from), "-to", fmt.Sprint(b.to), "-out", out)
		cmd.Stdout, cmd.Stderr = ef, ef
		cmd.Env = append(os.Environ(), "GOTRACEBACK=all")
		raceLog := ""
		if b.variant == "race" {
			raceLog = out + ".race"
			cmd.Env = append(cmd.Env, "GORACE=halt_on_error=0 log_path="+raceLog)
		}
		if b.variant == "asan" {
			cmd.Env = append(cmd.Env, "ASAN_OPTIONS=detect_leaks=0:abort_on_error=1")
		}
		if ck.Env != nil {
			cmd.Env = append(cmd.Env, ck.Env(p.Tier, b.variant)...)
		}
		cmd.Env = append(cmd.Env, p.ChildEnv...)
		cmd.SysProcAttr = &syscall.SysProcAttr{Setpgid: true}
		if err := cmd.Start(); err != nil {
			ef.Close()
			p.AddInconclusive("cannot start child: " + err.Error())
			return
		}
		done := make(chan error, 1)
		go func() { done <- cmd.Wait() }()
		to := ck.CaseTimeout
		if to == 0 {
			to = 120 * time.Second
		}
		// watchdog: progress-based (a new record within `to`)
		var werr error
		hung := false
		lastSize := int64(-1)
		lastProgress := time.Now()
	wait:
		for {
			select {
			case werr = <-done:
				break wait
			case <-time.After(200 * time.Millisecond):
				if st, err := os.Stat(out); err == nil && st.Size() != lastSize {
					lastSize = st.Size()
					lastProgress = time.Now()
				}
				if time.Since(lastProgress) > to {
					hung = true
					syscall.Kill(-cmd.Process.Pid, syscall.SIGQUIT)
					select {
					case werr = <-done:
					case <-time.After(10 * time.Second):
						syscall.Kill(-cmd.Process.Pid, syscall.SIGKILL)
						werr = <-done
					}
					break wait
				}
			}
		}
		ef.Close()
		started, finished, lastNote := p.absorb(out, b.variant)
		if raceLog != "" {
			p.absorbRace(raceLog, b.variant, started)
		}
		if werr == nil && finished == b.to-1 {
			return
		}
		// the child died (or was killed) while running case `started`
		stderrTail := tail(errp, 6000)
		if started < from {
			// died before starting anything: harness/environment problem
			p.AddInconclusive(fmt.Sprintf("child died before first case (%v): %s", werr, stderrTail))
			return
		}
		if hung {
			msg := fmt.Sprintf("watchdog (%s) expired in case %d variant %s; last note: %s; goroutine dump tail:\n%s", to, started, b.variant, lastNote, stderrTail)
			if ck.HangIsViolation {
				p.mu.Lock()
				p.violations = append(p.violations, foundViolation{Violation{Sig: "hang:" + hangSite(stderrTail), Detail: msg}, started, b.variant})
				p.mu.Unlock()
			} else {
				p.AddInconclusive(msg)
			}
		} else if finished < started {
			sig := "crash:" + crashSite(readAll(errp))
			p.mu.Lock()
			p.violations = append(p.violations, foundViolation{Violation{Sig: sig, Detail: fmt.Sprintf("child process died (%v) while running case %d; last note: %s; stderr tail:\n%s", werr, started, lastNote, stderrTail)}, started, b.variant})
			p.evals++
			p.mu.Unlock()
		} else {
			p.AddInconclusive(fmt.Sprintf("child exited abnormally (%v) between cases after %d: %s", werr, finished, stderrTail))
		}
		from = started + 1
		if attempt > 200 {
			p.AddInconclusive("too many child crashes in one batch")
			return
		}
	}
}

func readAll(path string) string {
	b, _ := os.ReadFile(path)
	if len(b) > 1<<20 {
		b = b[:1<<20]
	}
	return string(b)
}

func tail(path string, n int) string {
	b, _ := os.ReadFile(path)
	if len(b) > n {
		b = b[len(b)-n:]
	}
	return string(b)
}

var fatalRe = regexp.MustCompile(`(?m)^(panic: .*|fatal error: .*|==\d+==ERROR: AddressSanitizer: \S+)`)

func crashSite(stderr string) string {
	kind := "unknown"
	if m := fatalRe.FindString(stderr); m != "" {
		switch {
		case strings.HasPrefix(m, "fatal error: checkptr"):
			kind = "checkptr"
		case strings.HasPrefix(m, "fatal error:"):
			kind = "fatal"
		case strings.Contains(m, "AddressSanitizer"):
			kind = "asan"
		default:
			kind = "panic"
		}
		if i := strings.Index(stderr, m); i >= 0 {
			stderr = stderr[i:]
		}
	}
	return kind + "@" + panicSite(stderr)
}

func hangSite(dump string) string { return panicSite(dump) }

// absorb reads the record stream of one child; returns the last started and last finished index.
func (p *Parent) absorb(out, variant string) (started, finished int, lastNote string) {
	started, finished = -1, -1
	f, err := os.Open(out)
	if err != nil {
		return
	}
	defer f.Close()
	sc := bufio.NewScanner(f)
	sc.Buffer(make([]byte, 1<<20), 64<<20)
	p.mu.Lock()
	defer p.mu.Unlock()
	for sc.Scan() {
		var r caseRecord
		if json.Unmarshal(sc.Bytes(), &r) != nil {
			continue
		}
		if r.Start != nil {
			started = *r.Start
			lastNote = ""
			continue
		}
		if r.Done == nil {
			if r.Note != "" {
				lastNote = r.Note
			}
			continue
		}
		finished = *r.Done
		p.evals++
		for k, v := range r.Counts {
			p.Counts[k] += v
		}
		for _, k := range r.Nontrivial {
			p.nontrivial[k] = struct{}{}
		}
		if r.Sample != nil && len(p.samples) < 5 {
			p.samples = append(p.samples, r.Sample)
		}
		for _, v := range r.Violations {
			p.violations = append(p.violations, foundViolation{v, *r.Done, variant})
		}
		if r.Inconcl != "" {
			p.inconcl = append(p.inconcl, fmt.Sprintf("case %d: %s", *r.Done, r.Inconcl))
		}
	}
	return
}

var raceFrameRe = regexp.MustCompile(`(?m)^\s+(github\.com/els0r/goProbe/[^\s(]+|verifharness/[^\s(]+)\(`)

// absorbRace turns race-detector reports into violations, de-duplicated by the first goProbe frame
// of each of the two conflicting accesses.
func (p *Parent) absorbRace(logPrefix, variant string, lastCase int) {
	files, _ := filepath.Glob(logPrefix + ".*")
	for _, f := range files {
		b, _ := os.ReadFile(f)
		blocks := strings.Split(string(b), "WARNING: DATA RACE")
		for _, blk := range blocks[1:] {
			// the two accesses are the first two stack paragraphs
			paras := strings.Split(blk, "\n\n")
			var sites []string
			for _, para := range paras {
				if len(sites) == 2 {
					break
				}
				if m := raceFrameRe.FindStringSubmatch(para); m != nil {
					s := strings.TrimPrefix(m[1], "github.com/els0r/goProbe/v4/")
					s = regexp.MustCompile(`\.func\d+(\.\d+)*$`).ReplaceAllString(s, "")
					sites = append(sites, s)
				}
			}
			sort.Strings(sites)
			sig := "race:" + strings.Join(sites, "<>")
			if len(blk) > 5000 {
				blk = blk[:5000]
			}
			p.mu.Lock()
			p.Counts["race_reports"]++
			p.violations = append(p.violations, foundViolation{Violation{Sig: sig, Detail: "WARNING: DATA RACE" + blk}, lastCase, variant})
			p.mu.Unlock()
		}
	}
}

type knownFinding struct {
	kind, property, sig, text string
}

func loadKnown() []knownFinding {
	var out []knownFinding
	f, err := os.Open(filepath.Join(VerifDir, "known_findings.txt"))
	if err != nil {
		return nil
	}
	defer f.Close()
	sc := bufio.NewScanner(f)
	for sc.Scan() {
		line := strings.TrimSpace(sc.Text())
		if line == "" || strings.HasPrefix(line, "#") {
			continue
		}
		// known: property=C11 signature=<sig> <what fails>
		// fixed: property=C01 <commit> <what failed>
		kind, rest, ok := strings.Cut(line, ":")
		if !ok {
			continue
		}
		kf := knownFinding{kind: strings.TrimSpace(kind)}
		fields := strings.Fields(rest)
		var textParts []string
		for _, fl := range fields {
			switch {
			case strings.HasPrefix(fl, "property=") && kf.property == "":
				kf.property = strings.TrimPrefix(fl, "property=")
			case strings.HasPrefix(fl, "signature=") && kf.sig == "":
				kf.sig = strings.TrimPrefix(fl, "signature=")
			default:
				textParts = append(textParts, fl)
			}
		}
		kf.text = strings.Join(textParts, " ")
		out = append(out, kf)
	}
	return out
}

func conclude(p *Parent, wall time.Duration) int {
	ck := p.Check
	known := loadKnown()
	isKnown := func(sig string) *knownFinding {
		for i := range known {
			k := &known[i]
			if k.kind == "known" && k.property == ck.ID && globMatch(k.sig, sig) {
				return k
			}
		}
		return nil
	}
	// group violations by signature
	bySig := map[string][]foundViolation{}
	var sigs []string
	for _, v := range p.violations {
		if _, ok := bySig[v.Sig]; !ok {
			sigs = append(sigs, v.Sig)
		}
		bySig[v.Sig] = append(bySig[v.Sig], v)
	}
	sort.Strings(sigs)
	var newViol, knownHit []string
	os.MkdirAll(filepath.Join(OutDir, "replays"), 0o755)
	for _, sig := range sigs {
		vs := bySig[sig]
		if k := isKnown(sig); k != nil {
			fmt.Printf("KNOWN-FINDING: property=%s signature=%s %s (%d occurrence(s) this run)\n", ck.ID, sig, k.text, len(vs))
			knownHit = append(knownHit, sig)
			continue
		}
		v := vs[0]
		rp := filepath.Join(OutDir, "replays", fmt.Sprintf("%s-%s-s%d-c%d-%s.json", ck.ID, p.Tier, p.Seed, v.Case, shortHash(sig)))
		rf := replayFile{Property: ck.ID, Tier: p.Tier, Seed: p.Seed, Case: v.Case, Variant: v.Variant, Sig: sig, Detail: v.Detail,
			Cmd: fmt.Sprintf("cd %s && ./run.sh replay %s", VerifDir, rp)}
		b, _ := json.MarshalIndent(rf, "", " ")
		os.WriteFile(rp, b, 0o644)
		fmt.Printf("VIOLATION property=%s replay=%s signature=%s occurrences=%d\n", ck.ID, rp, sig, len(vs))
		d := v.Detail
		if len(d) > 1500 {
			d = d[:1500] + "…"
		}
		fmt.Printf("  witness (case %d, variant %s): %s\n", v.Case, v.Variant, strings.ReplaceAll(d, "\n", "\n    "))
		newViol = append(newViol, sig)
	}
	writeEvidence(p, wall, newViol, knownHit, p.inconcl)
	fmt.Printf("SUMMARY property=%s tier=%s seed=%d evaluations=%d distinct_nontrivial=%d violations=%d known=%d inconclusive=%d wall=%.1fs\n",
		ck.ID, p.Tier, p.Seed, p.evals, len(p.nontrivial), len(newViol), len(knownHit), len(p.inconcl), wall.Seconds())
	keys := make([]string, 0, len(p.Counts))
	for k := range p.Counts {
		keys = append(keys, k)
	}
	sort.Strings(keys)
	for _, k := range keys {
		fmt.Printf("  %s=%d\n", k, p.Counts[k])
	}
	if len(newViol) > 0 {
		return 1
	}
	if len(p.inconcl) > 0 {
		for i, m := range p.inconcl {
			if i >= 5 {
				break
			}
			if len(m) > 3000 {
				m = m[:3000]
			}
			fmt.Printf("INCONCLUSIVE property=%s %s\n", ck.ID, m)
		}
		return 2
	}
	return 0
}

// globMatch matches a known-finding signature pattern against a signature. A pattern without '*' must
// be equal; '*' stands for any (possibly empty) run of characters. Patterns are written so that the
// fixed parts name the failing call site (and the oracle view where that matters), e.g.
// "*|renameat:dir": whatever oracle clause observed it, the fault was injected at the directory rename.
func globMatch(pattern, sig string) bool {
	if !strings.Contains(pattern, "*") {
		return pattern == sig
	}
	parts := strings.Split(pattern, "*")
	if !strings.HasPrefix(sig, parts[0]) {
		return false
	}
	rest := sig[len(parts[0]):]
	for i := 1; i < len(parts); i++ {
		p := parts[i]
		if i == len(parts)-1 {
			return strings.HasSuffix(rest, p)
		}
		j := strings.Index(rest, p)
		if j < 0 {
			return false
		}
		rest = rest[j+len(p):]
	}
	return true
}

func shortHash(s string) string {
	h := sha256.Sum256([]byte(s))
	return hex.EncodeToString(h[:4])
}

func writeEvidence(p *Parent, wall time.Duration, newViol, knownHit, inconcl []string) {
	ck := p.Check
	cov := map[string]any{
		"evaluations":         p.evals,
		"distinct_nontrivial": len(p.nontrivial),
		"rule":                ck.Rule,
		"samples":             p.samples,
		"counters":            p.Counts,
	}
	if p.samples == nil {
		cov["samples"] = []any{}
	}
	if ck.Exhaustive != nil && ck.Exhaustive(p.Tier) {
		cov["exhaustive"] = true
	}
	if len(knownHit) > 0 {
		cov["known_findings_observed"] = knownHit
	}
	if len(newViol) > 0 {
		cov["violation_signatures"] = newViol
	}
	if len(inconcl) > 0 {
		if len(inconcl) > 10 {
			inconcl = inconcl[:10]
		}
		cov["inconclusive"] = inconcl
	}
	variants := []string{"default"}
	if ck.Variants != nil {
		variants = ck.Variants(p.Tier)
	}
	cov["build_variants"] = variants
	ev := map[string]any{
		"property_id": ck.ID,
		"tier":        p.Tier,
		"seed":        p.Seed,
		"level":       ck.Level,
		"coverage":    cov,
		"assumptions": ck.Assumptions,
		"wall_s":      wall.Seconds(),
		"violations":  len(newViol),
		"repo_tree":   repoTreeID(),
	}
	if ck.Assumptions == nil {
		ev["assumptions"] = []string{}
	}
	b, _ := json.MarshalIndent(ev, "", " ")
	os.MkdirAll(filepath.Join(OutDir, "evidence"), 0o755)
	tmp := filepath.Join(OutDir, "evidence", ck.ID+".json.tmp")
	os.WriteFile(tmp, b, 0o644)
	os.Rename(tmp, filepath.Join(OutDir, "evidence", ck.ID+".json"))
}

func repoTreeID() string {
	out, err := exec.Command("git", "-C", RepoDir, "rev-parse", "HEAD").Output()
	if err != nil {
		return "unknown"
	}
	id := strings.TrimSpace(string(out))
	if st, err := exec.Command("git", "-C", RepoDir, "status", "--porcelain").Output(); err == nil && len(bytes.TrimSpace(st)) > 0 {
		id += "+dirty"
	}
	return id
}

// ErrSkip can be returned by helpers to signal "case not applicable".
var ErrSkip = errors.New("skip")
