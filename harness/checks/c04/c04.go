// Package c04: a crash during a write-out leaves the database consistent and queryable.
//
// The real writer (goDB.DBWriter via role `dbwrite`) runs as a child process under the ptrace
// tracer, which SIGKILLs it at the entry of the N-th file-system call (and, in the thorough tier,
// after forced short writes). The parent then reads the database through goProbe's real reader
// paths and compares with the oracle, resumes writing and compares again.
package c04

import (
	"fmt"
	"math/rand"
	"os"
	"os/exec"
	"regexp"
	"strconv"
	"strings"

	"github.com/els0r/goProbe/v4/pkg/goDB/encoder/encoders"
	"verifharness/dbx"
	"verifharness/fw"
	"verifharness/gen"
	"verifharness/ptr"
	"verifharness/roles"
)

func slots(tier string) int {
	if tier == "thorough" {
		return 64
	}
	return 32
}

func histories(tier string) int {
	if tier == "thorough" {
		return 5 // measured: ~10 min per history on 16 idle cores (every FS call of every write-out, plus partial writes)
	}
	return 3
}

func init() {
	fw.Register(&fw.Check{
		ID:    "C04",
		Level: "fault_enumeration",
		Rule: "history = seeded sequence of 4-10 write-outs over 1-3 days x 1-2 interfaces (new-day creation, day roll-over, empty blocks, incompressible >4KiB columns) executed by the production DBWriter in a traced child; " +
			"one run per crash point = entry of every file-system syscall touching the DB (quick: all points of 3 selected write-outs per history incl. first-of-day and append; thorough: all write-outs, plus short writes {1,n/2,n-1,4096k} at every write call). " +
			"After the kill all reader views (engine query, ReadMetadata listing, interface list) must equal the oracle for completed write-outs (in-flight one atomically present or absent), then the remaining write-outs are resumed and checked. " +
			"Non-trivial/distinct = (history, event index, injection kind).",
		Assumptions: []string{"SIGKILL at a syscall boundary models the crash; page cache is not lost (process crash, not power loss)", "DB root directory exists before the first write-out"},
		NumCases:    func(tier, variant string) int { return histories(tier) * slots(tier) },
		Run:         run,
		Require:     []string{"crash_runs", "crash_in_column_write", "crash_in_meta_rename", "crash_in_new_day", "resumed_writeouts"},
		CaseTimeout: 300e9,
	})
}

// GenHistory draws a write history for the crash / fault checks.
func GenHistory(r *rand.Rand) *roles.History {
	base := gen.DayStart(gen.MinTS) + 86400*int64(1+r.Intn(11000))
	nIf := 1 + r.Intn(2)
	names := []string{"eth0", "eth1"}[:nIf]
	nOuts := 4 + r.Intn(7)
	db := &gen.RefDB{}
	for _, n := range names {
		db.Ifaces = append(db.Ifaces, gen.IfaceData{Name: n})
	}
	// timestamps: start late in the day so a roll-over happens
	ts := base + 86400 - 300*int64(1+r.Intn(4))
	for k := 0; k < nOuts; k++ {
		for i := range db.Ifaces {
			if nIf > 1 && r.Intn(5) == 0 {
				continue // interface without traffic is still written (empty block) most of the time
			}
			b := gen.Block{TS: ts, Drops: uint64(r.Intn(3))}
			nf := r.Intn(8)
			if r.Intn(6) == 0 {
				nf = 0
			}
			seen := map[string]bool{}
			wide := r.Intn(4) == 0
			if wide {
				nf = 600 + r.Intn(600) // incompressible address columns larger than the 4 KiB write buffer
			}
			for j := 0; j < nf; j++ {
				f := gen.RandFlow(r, gen.FlowOpts{V6Prob: 0.4, BigCounters: true, WideAlphabet: wide})
				if !seen[f.KeyString()] {
					seen[f.KeyString()] = true
					b.Flows = append(b.Flows, f)
				}
			}
			db.Ifaces[i].Blocks = append(db.Ifaces[i].Blocks, b)
		}
		step := int64(300)
		if r.Intn(5) == 0 {
			step = 86400 // skip to the next day
		}
		ts += step
	}
	enc := []encoders.Type{encoders.EncoderTypeLZ4, encoders.EncoderTypeLZ4, encoders.EncoderTypeZSTD, encoders.EncoderTypeNull}[r.Intn(4)]
	return roles.HistoryFromRefDB(db, enc, 0)
}

// ParseMarkers extracts completed / failed / in-flight write-outs from the marker log.
func ParseMarkers(lines []string) (okSet map[int]bool, errSet map[int]string, inflight int) {
	okSet, errSet, inflight = map[int]bool{}, map[int]string{}, -1
	for _, l := range lines {
		f := strings.Fields(l)
		if len(f) < 2 {
			continue
		}
		k, _ := strconv.Atoi(f[1])
		switch f[0] {
		case "B":
			inflight = k
		case "E":
			if len(f) >= 3 && f[2] == "ok" {
				okSet[k] = true
			} else {
				errSet[k] = strings.Join(f[2:], " ")
			}
			if inflight == k {
				inflight = -1
			}
		}
	}
	return
}

// markersOf collects marker texts from the event trace (the pipe content may be cut by the kill).
func markersOf(evs []ptr.Event) []string {
	var out []string
	for _, e := range evs {
		if e.Sys == "marker" {
			out = append(out, strings.Split(e.Marker, "\n")...)
		}
	}
	return out
}

// RunPlain runs the dbwrite role untraced and returns its marker lines.
func RunPlain(self, db, hist string, from, to int) ([]string, error) {
	pr, pw, err := os.Pipe()
	if err != nil {
		return nil, err
	}
	cmd := exec.Command(self, "-role", "dbwrite", db, hist, strconv.Itoa(from), strconv.Itoa(to))
	cmd.ExtraFiles = []*os.File{pw}
	if err := cmd.Start(); err != nil {
		pw.Close()
		pr.Close()
		return nil, err
	}
	pw.Close()
	var sb strings.Builder
	buf := make([]byte, 65536)
	for {
		n, rerr := pr.Read(buf)
		sb.Write(buf[:n])
		if rerr != nil {
			break
		}
	}
	pr.Close()
	werr := cmd.Wait()
	var lines []string
	for _, l := range strings.Split(sb.String(), "\n") {
		if l != "" {
			lines = append(lines, l)
		}
	}
	return lines, werr
}

// woOfEvent maps every event index to the write-out during which it happened (-1 outside).
func woOfEvent(evs []ptr.Event) []int {
	out := make([]int, len(evs))
	cur := -1
	for i, e := range evs {
		if e.Sys == "marker" {
			f := strings.Fields(e.Marker)
			if len(f) >= 2 && f[0] == "B" {
				cur, _ = strconv.Atoi(f[1])
			}
			out[i] = cur
			if len(f) >= 2 && f[0] == "E" {
				cur = -1
			}
			continue
		}
		out[i] = cur
	}
	return out
}

type injection struct {
	at    int
	kind  string // kill | short
	short int
}

func run(c *fw.Case) {
	P := slots(c.Tier)
	hidx, slot := c.Idx/P, c.Idx%P
	hr := rand.New(rand.NewSource(c.Seed*7919 + int64(hidx)*104729 + 4))
	h := GenHistory(hr)
	histFile := c.Tmp + "/history.json"
	if err := h.Save(histFile); err != nil {
		c.Inconclusive("save history: %v", err)
		return
	}
	self, _ := os.Executable()
	n := len(h.Outs)
	argv := func(db string, from, to int) []string {
		return []string{self, "-role", "dbwrite", db, histFile, strconv.Itoa(from), strconv.Itoa(to)}
	}

	// 1. uninterrupted traced run: enumerate the events
	db0 := c.Tmp + "/db-count"
	os.MkdirAll(db0, 0o755)
	cnt := ptr.Run(argv(db0, 0, n), ptr.Options{Roots: []string{db0}})
	if cnt.Err != nil || cnt.TimedOut || cnt.ExitCode != 0 {
		c.Inconclusive("count run failed: err=%v timeout=%v exit=%d", cnt.Err, cnt.TimedOut, cnt.ExitCode)
		return
	}
	okSet, errSet, _ := ParseMarkers(cnt.MarkerLog)
	if len(errSet) > 0 || len(okSet) != n {
		c.Violatef("fault_free_write_failed", "history %d: fault-free traced run: ok=%d of %d, errors=%v", hidx, len(okSet), n, errSet)
		return
	}
	full := dbx.Expect(h.RefDBOf(func(int) bool { return true }))
	if mm := dbx.Compare(full, dbx.Observe(db0), true); len(mm) > 0 {
		c.Violatef("fault_free_readback|"+mm[0].Clause, "history %d: after the uninterrupted run: %s", hidx, mm[0].Detail)
		return
	}
	os.RemoveAll(db0)
	wo := woOfEvent(cnt.Events)

	// 2. select write-outs whose events are crash points
	selected := map[int]bool{}
	if c.Tier == "thorough" {
		for k := 0; k < n; k++ {
			selected[k] = true
		}
	} else {
		// first write-out (creates everything), first write-out of a later day if any, and two appends
		selected[0] = true
		firstDay := gen.DayStart(h.Outs[0].Block.TS)
		for k := 1; k < n; k++ {
			if gen.DayStart(h.Outs[k].Block.TS) != firstDay {
				selected[k] = true
				break
			}
		}
		selected[1+hr.Intn(n-1)] = true
		selected[1+hr.Intn(n-1)] = true
	}
	var points []injection
	for i, e := range cnt.Events {
		if e.Sys == "marker" || wo[i] < 0 || !selected[wo[i]] {
			continue
		}
		points = append(points, injection{at: i, kind: "kill"})
		if c.Tier == "thorough" && (e.Sys == "write" || e.Sys == "pwrite64") && e.Count > 1 {
			cuts := map[int]bool{1: true, e.Count / 2: true, e.Count - 1: true}
			for k := 4096; k < e.Count; k += 4096 {
				cuts[k] = true
			}
			for cut := range cuts {
				if cut > 0 && cut < e.Count {
					points = append(points, injection{at: i, kind: "short", short: cut})
				}
			}
		}
	}
	c.Count("events_in_history", len(cnt.Events))
	if slot == 0 {
		var tr []string
		for i, e := range cnt.Events {
			if i > 60 {
				tr = append(tr, "…")
				break
			}
			tr = append(tr, e.String())
		}
		c.Sample(map[string]any{"history": hidx, "writeouts": n, "encoder": encoders.Type(h.Encoder).String(), "crash_points": len(points), "trace_prefix": tr})
	}

	for j, inj := range points {
		if j%P != slot {
			continue
		}
		crashAt(c, h, histFile, hidx, cnt.Events, wo, inj, argv)
	}
}

func crashAt(c *fw.Case, h *roles.History, histFile string, hidx int, ref0 []ptr.Event, wo []int, inj injection, argv func(string, int, int) []string) {
	n := len(h.Outs)
	ev := ref0[inj.at]
	db := fmt.Sprintf("%s/db-%d-%s-%d", c.Tmp, inj.at, inj.kind, inj.short)
	os.MkdirAll(db, 0o755)
	defer os.RemoveAll(db)
	desc := fmt.Sprintf("history %d (%d write-outs, encoder %s), %s at event %s (write-out %d", hidx, n, encoders.Type(h.Encoder), inj.kind, ev.String(), wo[inj.at])
	if inj.kind == "short" {
		desc += fmt.Sprintf(", short write of %d bytes", inj.short)
	}
	desc += ")"
	c.Note("%s", desc)
	res := ptr.Run(argv(db, 0, n), ptr.Options{Roots: []string{db}, Policy: func(e *ptr.Event) ptr.Decision {
		if e.Idx == inj.at {
			if inj.kind == "short" {
				return ptr.Decision{Act: ptr.ShortWrite, Arg: inj.short}
			}
			return ptr.Decision{Act: ptr.Kill}
		}
		return ptr.Decision{}
	}})
	if res.Err != nil || res.TimedOut {
		c.Inconclusive("traced run failed: %v timeout=%v", res.Err, res.TimedOut)
		return
	}
	if !res.Killed {
		c.Count("trace_diverged", 1)
		return
	}
	// determinism of the trace up to the injection point
	for i := 0; i <= inj.at && i < len(res.Events); i++ {
		if res.Events[i].Sys != ref0[i].Sys || NormPath(res.Events[i].Path) != NormPath(ref0[i].Path) {
			c.Count("trace_diverged", 1)
			return
		}
	}
	c.Count("crash_runs", 1)
	c.Count("crash_at_"+ev.Kind(), 1)
	switch ptr.FileClass(ev.Path) {
	case "column":
		if ev.Sys == "write" || ev.Sys == "pwrite64" {
			c.Count("crash_in_column_write", 1)
		}
	case "meta", "meta-tmp":
		if strings.HasPrefix(ev.Sys, "rename") {
			c.Count("crash_in_meta_rename", 1)
		}
	}
	if ev.Sys == "mkdirat" || ev.Sys == "mkdir" {
		c.Count("crash_in_new_day", 1)
	}
	if inj.kind == "short" {
		c.Count("short_write_runs", 1)
	}
	c.Nontrivial(fmt.Sprintf("%d/%d/%s/%d", hidx, inj.at, inj.kind, inj.short))

	okSet, _, inflight := ParseMarkers(markersOf(res.Events))
	got := dbx.Observe(db)
	wantA := dbx.Expect(h.RefDBOf(func(k int) bool { return okSet[k] }))
	mmA := dbx.Compare(wantA, got, false)
	visible := func(k int) bool { return okSet[k] }
	if len(mmA) > 0 {
		if inflight >= 0 {
			wantB := dbx.Expect(h.RefDBOf(func(k int) bool { return okSet[k] || k == inflight }))
			mmB := dbx.Compare(wantB, got, false)
			if len(mmB) == 0 {
				c.Count("inflight_visible_atomically", 1)
				visible = func(k int) bool { return okSet[k] || k == inflight }
				mmA = nil
			} else if mmB[0].Clause != mmA[0].Clause {
				// the in-flight write-out is (mostly) visible: report the deviation from that alternative,
				// it names the view that actually lags instead of every row of the in-flight write-out
				c.Violatef("after_crash|inflight_visible|"+mmB[0].Clause+"|"+ev.Kind(), "%s: after the crash the in-flight write-out %d is visible but the readers disagree with completed %v + in-flight: %s", desc, inflight, keys(okSet), mmB[0].Detail)
				return
			}
		}
	}
	if len(mmA) > 0 {
		c.Violatef("after_crash|"+mmA[0].Clause+"|"+ev.Kind(), "%s: after the crash the readers disagree with the completed write-outs %v (in-flight %d): %s", desc, keys(okSet), inflight, mmA[0].Detail)
		return
	}
	// resume with the write-outs after the in-flight one
	from := inflight + 1
	if inflight < 0 {
		from = len(okSet)
	}
	self, _ := os.Executable()
	lines, err := RunPlain(self, db, histFile, from, n)
	ok2, err2, _ := ParseMarkers(lines)
	if err != nil || len(err2) > 0 || len(ok2) != n-from {
		c.Violatef("resume_write_failed|"+ev.Kind(), "%s: resuming write-outs %d..%d after the crash failed: err=%v write errors=%v ok=%d", desc, from, n-1, err, err2, len(ok2))
		return
	}
	c.Count("resumed_writeouts", len(ok2))
	want2 := dbx.Expect(h.RefDBOf(func(k int) bool { return visible(k) || k >= from }))
	if mm := dbx.Compare(want2, dbx.Observe(db), false); len(mm) > 0 {
		c.Violatef("after_resume|"+mm[0].Clause+"|"+ev.Kind(), "%s: after resuming write-outs %d..%d the readers disagree: %s", desc, from, n-1, mm[0].Detail)
	}
}

func keys(m map[int]bool) []int {
	var out []int
	for k := range m {
		out = append(out, k)
	}
	// small; simple insertion sort
	for i := 1; i < len(out); i++ {
		for j := i; j > 0 && out[j-1] > out[j]; j-- {
			out[j-1], out[j] = out[j], out[j-1]
		}
	}
	return out
}

var tmpMetaRe = regexp.MustCompile(`\.tmp-metadata-\d+`)

// NormPath removes the random part of temporary metadata file names so traces of two runs compare.
func NormPath(p string) string { return tmpMetaRe.ReplaceAllString(p, ".tmp-metadata-*") }
