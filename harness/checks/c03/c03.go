// Package c03: day metadata survives reopening for every accepted write history; writes the
// on-disk format cannot represent are rejected instead of being stored altered; truncated or
// malformed metadata files are reported as errors, never as a crash.
package c03

import (
	"context"
	"fmt"
	"math"
	"math/rand"
	"os"
	"path/filepath"
	"runtime"
	"runtime/debug"
	"strings"
	"time"

	"github.com/els0r/goProbe/v4/cmd/gpdb/pkg/csvimport"
	"github.com/els0r/goProbe/v4/pkg/capture/capturetypes"
	"github.com/els0r/goProbe/v4/pkg/goDB"
	"github.com/els0r/goProbe/v4/pkg/goDB/encoder/encoders"
	"github.com/els0r/goProbe/v4/pkg/goDB/storage/gpfile"
	"github.com/els0r/goProbe/v4/pkg/types"
	"verifharness/fw"
	"verifharness/gen"
	"verifharness/stor"
)

func init() {
	fw.Register(&fw.Check{
		ID:    "C03",
		Level: "exploration",
		Rule: "case kinds: (a) gpfile write histories on one day directory: 1-5 sessions x 0-5 WriteBlocks with timestamp moves from {+1,+300,+rand, equal, -1,-300,-1 day,+1 day, gap 2^32-1 / 2^32 / 2^32+1 / 2^40, jump to 0 / negative / +-2^62 / int64 extremes} " +
			"and per-block flow/drop counts from {0,1,small,2^32-1,2^32,2^40,2^64-1}; after a rejected WriteBlocks the session is abandoned (as DBWriter does) or continued and closed. " +
			"(b) the same timestamp moves and drop counts through goDB.DBWriter.Write / WriteBulk with generated flow maps. (c) csvimport.Import of rows older than / between / after blocks already stored. " +
			"After every session the day is reopened with a fresh reader and must show exactly the accepted writes (timestamps in order, per-block counts, day totals in .blockmeta and in the directory name); a rejected session must leave the previous state. " +
			"(d) GPDir.Open (read and write mode) on every strict prefix of valid .blockmeta files (must be an error), on bit flips, forged block counts, random blobs and extended files (error or success, never a panic or an allocation > 64 MiB). " +
			"A history is non-trivial iff it contains a hostile move (non-monotone timestamp, gap >= 2^32 or count >= 2^32); distinct by the (move, count class, outcome) sequence. A byte string is distinct by content hash.",
		Assumptions: []string{
			"sums of the four traffic counters over a day stay below 2^64 (an overflowing day total is not treated as 'a count too large for the format')",
			"a session is accepted iff Open, every WriteBlocks and Close returned nil; a WriteBlocks that returned an error must leave no trace",
			"one writer at a time; no I/O faults (C04/C05)",
		},
		NumCases: func(tier, variant string) int {
			n := map[string]int{"default": 800, "checkptr": 200}[variant]
			if tier == "thorough" {
				n *= 30
			}
			return stor.DevCases(n)
		},
		// checkptr polices the unsafe string conversions of the directory-name metadata (metadata.go)
		Variants:    func(tier string) []string { return []string{"default", "checkptr"} },
		Run:         run,
		CaseTimeout: 10 * time.Minute,
		Env:         func(tier, variant string) []string { return []string{"GOMAXPROCS=2"} },
		Require: []string{"sessions_accepted", "sessions_rejected", "writes_rejected", "moves_decreasing", "moves_gap_ge_2p32", "moves_gap_eq_max", "counts_ge_2p32", "counts_eq_max",
			"reopen_after_rejected_session", "dbwriter_writes", "dbwriter_bulk_writes", "csv_imports", "csv_imports_older_than_stored", "meta_prefixes", "meta_bitflips", "meta_forged_nblocks", "meta_random_blobs", "meta_open_errors", "meta_open_successes"},
	})
}

func run(c *fw.Case) {
	switch k := c.Idx % 20; {
	case k < 10:
		runGpfileHistory(c)
	case k < 14:
		runDBWriterHistory(c)
	case k < 16:
		runCSVImport(c)
	default:
		runMetaFuzz(c)
	}
}

// ---------------------------------------------------------------------------------------------
// timestamp moves and count classes

type move struct {
	name    string
	hostile bool
	next    func(r *rand.Rand, last, day int64) int64
}

const two32 = int64(1) << 32

var moves = []move{
	{"+1", false, func(r *rand.Rand, l, d int64) int64 { return l + 1 }},
	{"+300", false, func(r *rand.Rand, l, d int64) int64 { return l + 300 }},
	{"+rand", false, func(r *rand.Rand, l, d int64) int64 { return l + 1 + int64(r.Intn(5000)) }},
	{"+1day", false, func(r *rand.Rand, l, d int64) int64 { return l + 86400 }},
	{"gap=2^32-1", false, func(r *rand.Rand, l, d int64) int64 { return l + two32 - 1 }},
	{"equal", true, func(r *rand.Rand, l, d int64) int64 { return l }},
	{"-1", true, func(r *rand.Rand, l, d int64) int64 { return l - 1 }},
	{"-300", true, func(r *rand.Rand, l, d int64) int64 { return l - 300 }},
	{"-rand", true, func(r *rand.Rand, l, d int64) int64 { return l - 1 - int64(r.Intn(5000)) }},
	{"-1day", true, func(r *rand.Rand, l, d int64) int64 { return l - 86400 }},
	{"gap=2^32", true, func(r *rand.Rand, l, d int64) int64 { return l + two32 }},
	{"gap=2^32+1", true, func(r *rand.Rand, l, d int64) int64 { return l + two32 + 1 }},
	{"gap=2^40", true, func(r *rand.Rand, l, d int64) int64 { return l + 1<<40 }},
	{"gap=-2^32", true, func(r *rand.Rand, l, d int64) int64 { return l - two32 }},
	{"to0", true, func(r *rand.Rand, l, d int64) int64 { return 0 }},
	{"toNeg", true, func(r *rand.Rand, l, d int64) int64 { return -5 - int64(r.Intn(100000)) }},
	{"to+2^62", true, func(r *rand.Rand, l, d int64) int64 { return 1 << 62 }},
	{"to-2^62", true, func(r *rand.Rand, l, d int64) int64 { return -(1 << 62) }},
	{"toMaxInt64", true, func(r *rand.Rand, l, d int64) int64 { return math.MaxInt64 }},
	{"toMinInt64", true, func(r *rand.Rand, l, d int64) int64 { return math.MinInt64 }},
	{"backToDay", true, func(r *rand.Rand, l, d int64) int64 { return d + int64(r.Intn(86400)) }},
}

func pickMove(r *rand.Rand, hostileProb float64) move {
	for {
		m := moves[r.Intn(len(moves))]
		if m.hostile == (r.Float64() < hostileProb) {
			return m
		}
	}
}

func pickCount(r *rand.Rand, hostileProb float64) (uint64, string) {
	if r.Float64() < hostileProb {
		switch r.Intn(5) {
		case 0:
			return 1<<32 - 1, "=2^32-1"
		case 1:
			return 1 << 32, ">=2^32"
		case 2:
			return 1<<32 + uint64(r.Intn(1000)) + 1, ">=2^32"
		case 3:
			return 1 << 40, ">=2^32"
		default:
			return math.MaxUint64, ">=2^32"
		}
	}
	switch r.Intn(4) {
	case 0:
		return 0, "small"
	case 1:
		return 1, "small"
	default:
		return uint64(r.Intn(100000)), "small"
	}
}

// pickCtr keeps every counter below 2^58 so that the sum over <= 30 blocks cannot overflow uint64.
func pickCtr(r *rand.Rand) uint64 {
	switch r.Intn(6) {
	case 0:
		return 0
	case 1:
		return 1<<32 + uint64(r.Intn(10))
	case 2:
		return 1<<58 - uint64(r.Intn(10)) - 1
	default:
		return uint64(r.Intn(1 << 24))
	}
}

// classification of a sequence of accepted timestamps / counts for signatures
func classify(prev []stor.BlockRec, added []stor.BlockRec) string {
	all := append(append([]stor.BlockRec{}, prev...), added...)
	var tags []string
	dec, gap, ext := false, false, false
	for i := 1; i < len(all); i++ {
		d := all[i].TS - all[i-1].TS
		wrapped := (all[i].TS >= all[i-1].TS) != (d >= 0)
		switch {
		case wrapped:
			ext = true
		case d < 0:
			dec = true
		case d > two32-1:
			gap = true
		}
	}
	cnt := false
	for _, b := range all {
		if b.Sum.V4 > 1<<32-1 || b.Sum.V6 > 1<<32-1 || b.Sum.Drops > 1<<32-1 {
			cnt = true
		}
	}
	if dec {
		tags = append(tags, "ts_decreasing")
	}
	if gap {
		tags = append(tags, "ts_gap>=2^32")
	}
	if ext {
		tags = append(tags, "ts_delta_overflows_int64")
	}
	if cnt {
		tags = append(tags, "count>=2^32")
	}
	if len(tags) == 0 {
		return "representable"
	}
	return strings.Join(tags, "+")
}

// representable reports whether the block sequence can be stored faithfully by the format
// (uint32 deltas, uint32 per-block counts).
func representable(all []stor.BlockRec) bool { return classify(nil, all) == "representable" }

// verifyDay reopens the day and compares the metadata (and data) with the accepted state.
func verifyDay(c *fw.Case, iface string, m *stor.DayModel, r *rand.Rand, when, feature string, withData bool) bool {
	o := stor.ReadOpts{UseSuffix: r.Intn(2) == 0, ReadAll: r.Intn(2) == 0, Order: "seq", SkipData: !withData}
	c.Note("reopen day %d %s", m.DayTS, when)
	if len(m.Blocks) == 0 {
		if _, _, found := stor.FindDayDir(iface, m.DayTS); !found {
			return true // nothing was ever accepted and nothing exists
		}
	}
	dump, err := stor.ReadDay(iface, m.DayTS, o)
	if err != nil {
		if len(m.Blocks) == 0 && strings.Contains(err.Error(), "no such file") {
			// a directory without metadata after only rejected sessions: nothing accepted, nothing to compare
			c.Count("reopen_day_without_metadata", 1)
			return true
		}
		c.Violatef("reopen_error|"+feature, "%s: reopening day %d (accepted timestamps %v) failed: %v", when, m.DayTS, tsOf(m.Blocks), err)
		return false
	}
	ms := stor.Compare(m, dump, withData)
	for _, mm := range ms {
		c.Violatef("reopen_"+mm.Clause+"|"+feature, "%s: %s", when, mm.Detail)
	}
	return len(ms) == 0
}

func tsOf(bs []stor.BlockRec) []int64 {
	var out []int64
	for _, b := range bs {
		out = append(out, b.TS)
	}
	return out
}

// ---------------------------------------------------------------------------------------------
// (a) gpfile-level histories

func runGpfileHistory(c *fw.Case) {
	r := c.Rng
	iface := filepath.Join(c.Tmp, "db", "eth0")
	day := gen.DayStart(gen.MinTS) + 86400*int64(1+r.Intn(11000))
	model := &stor.DayModel{DayTS: day}
	hostile := []float64{0, 0.15, 0.3, 0.5}[r.Intn(4)]
	countHostile := []float64{0, 0.1, 0.3}[r.Intn(3)]
	nSess := 1 + r.Intn(5)
	var trace []string
	nontrivial := false
	last := day + int64(r.Intn(3000))
	first := true
	encs := []encoders.Type{encoders.EncoderTypeLZ4, encoders.EncoderTypeZSTD, encoders.EncoderTypeNull}

	for s := 0; s < nSess; s++ {
		nb := r.Intn(6)
		w := gpfile.NewDirWriter(iface, day+int64(r.Intn(86400)), gpfile.WithEncoderTypeLevel(encs[r.Intn(3)], 0))
		c.Note("session %d open (accepted so far %v)", s, tsOf(model.Blocks))
		if err := w.Open(); err != nil {
			c.Violatef("open_error|write_mode", "session %d: opening the day for writing failed although every earlier session was accepted or rejected cleanly: %v (accepted %v)", s, err, tsOf(model.Blocks))
			return
		}
		var pending []stor.BlockRec
		sessLast := last
		abandoned := false
		for b := 0; b < nb; b++ {
			mv := pickMove(r, hostile)
			var ts int64
			if first && len(pending) == 0 && len(model.Blocks) == 0 && r.Intn(3) != 0 {
				ts = sessLast // first block of the day: usually a plain timestamp
				mv = move{name: "first"}
			} else {
				ts = mv.next(r, sessLast, day)
			}
			rec := stor.BlockRec{TS: ts, Sess: s}
			var cls [3]string
			rec.Sum.V4, cls[0] = pickCount(r, countHostile)
			rec.Sum.V6, cls[1] = pickCount(r, countHostile)
			rec.Sum.Drops, cls[2] = pickCount(r, countHostile)
			rec.Ctr = stor.Ctr{BR: pickCtr(r), BS: pickCtr(r), PR: pickCtr(r), PS: pickCtr(r)}
			var data [types.ColIdxCount][]byte
			for col := 0; col < stor.NCols; col++ {
				rec.Class[col] = stor.PickClass(r)
				rec.Cols[col] = stor.Gen(r, rec.Class[col], r.Intn(48))
				data[col] = append([]byte(nil), rec.Cols[col]...)
			}
			countMoves(c, mv, cls[:])
			if mv.hostile || strings.Contains(strings.Join(cls[:], ","), "2^32") {
				nontrivial = true
			}
			c.Note("session %d WriteBlocks ts %d (%s) counts %+v", s, ts, mv.name, rec.Sum)
			err := w.WriteBlocks(ts, gpfile.TrafficMetadata{NumV4Entries: rec.Sum.V4, NumV6Entries: rec.Sum.V6, NumDrops: rec.Sum.Drops},
				types.Counters{BytesRcvd: rec.Ctr.BR, BytesSent: rec.Ctr.BS, PacketsRcvd: rec.Ctr.PR, PacketsSent: rec.Ctr.PS}, data)
			if err != nil {
				c.Count("writes_rejected", 1)
				trace = append(trace, fmt.Sprintf("%s/%s:rejected", mv.name, strings.Join(cls[:], ",")))
				if representable(append(append(append([]stor.BlockRec{}, model.Blocks...), pending...), rec)) && mv.name != "equal" {
					c.Count("writes_rejected_although_representable", 1)
				}
				if r.Intn(2) == 0 {
					abandoned = true
					break
				}
				continue
			}
			trace = append(trace, fmt.Sprintf("%s/%s:ok", mv.name, strings.Join(cls[:], ",")))
			pending = append(pending, rec)
			sessLast = ts
			first = false
		}
		feature := classify(model.Blocks, pending)
		if abandoned {
			// production callers return without Close when WriteBlocks fails; nothing of this
			// session may become visible
			c.Count("sessions_abandoned", 1)
			c.Count("sessions_rejected", 1)
			c.Count("reopen_after_rejected_session", 1)
			if !verifyDay(c, iface, model, r, fmt.Sprintf("after abandoned session %d [%s]", s, strings.Join(trace, " ")), "after_abandoned_session", true) {
				return
			}
			continue
		}
		c.Note("session %d close", s)
		if err := w.Close(); err != nil {
			c.Count("sessions_rejected", 1)
			c.Count("sessions_rejected_at_close", 1)
			c.Count("reopen_after_rejected_session", 1)
			trace = append(trace, "close:rejected")
			if feature == "representable" {
				c.Count("sessions_rejected_although_representable", 1)
			}
			if !verifyDay(c, iface, model, r, fmt.Sprintf("after session %d rejected by Close (%v) [%s]", s, err, strings.Join(trace, " ")), "after_rejected_close|"+feature, true) {
				return
			}
			continue
		}
		trace = append(trace, "close:ok")
		c.Count("sessions_accepted", 1)
		model.Blocks = append(model.Blocks, pending...)
		if len(pending) > 0 {
			last = sessLast
		}
		if feature != "representable" {
			c.Count("sessions_accepted_unrepresentable", 1)
		}
		if !verifyDay(c, iface, model, r, fmt.Sprintf("after accepted session %d [%s]", s, strings.Join(trace, " ")), feature, true) {
			return
		}
	}
	if nontrivial {
		c.Nontrivial("gpfile|" + strings.Join(trace, " "))
	}
	c.Sample(map[string]any{"kind": "gpfile history", "day": day, "trace": trace})
}

func countMoves(c *fw.Case, mv move, cls []string) {
	switch {
	case strings.HasPrefix(mv.name, "-") || mv.name == "gap=-2^32" || mv.name == "backToDay" || mv.name == "to0" || mv.name == "toNeg" || mv.name == "to-2^62" || mv.name == "toMinInt64":
		c.Count("moves_decreasing", 1)
	case mv.name == "gap=2^32" || mv.name == "gap=2^32+1" || mv.name == "gap=2^40" || mv.name == "to+2^62" || mv.name == "toMaxInt64":
		c.Count("moves_gap_ge_2p32", 1)
	case mv.name == "gap=2^32-1":
		c.Count("moves_gap_eq_max", 1)
	case mv.name == "equal":
		c.Count("moves_equal", 1)
	default:
		c.Count("moves_monotone", 1)
	}
	for _, k := range cls {
		switch k {
		case ">=2^32":
			c.Count("counts_ge_2p32", 1)
		case "=2^32-1":
			c.Count("counts_eq_max", 1)
		}
	}
}

// ---------------------------------------------------------------------------------------------
// (b) DBWriter-level histories

func flowsRec(r *rand.Rand, ts int64, drops uint64) (stor.BlockRec, []gen.Flow) {
	nf := r.Intn(8)
	seen := map[string]bool{}
	var flows []gen.Flow
	rec := stor.BlockRec{TS: ts}
	for i := 0; i < nf; i++ {
		f := gen.RandFlow(r, gen.FlowOpts{V6Prob: 0.4, BigCounters: false})
		if seen[f.KeyString()] {
			continue
		}
		seen[f.KeyString()] = true
		flows = append(flows, f)
		if f.IsV4() {
			rec.Sum.V4++
		} else {
			rec.Sum.V6++
		}
		rec.Ctr = rec.Ctr.Add(stor.Ctr{BR: f.BR, BS: f.BS, PR: f.PR, PS: f.PS})
	}
	rec.Sum.Drops = drops
	return rec, flows
}

func runDBWriterHistory(c *fw.Case) {
	r := c.Rng
	dbPath := filepath.Join(c.Tmp, "db")
	iface := filepath.Join(dbPath, "eth0")
	day := gen.DayStart(gen.MinTS) + 86400*int64(1+r.Intn(11000))
	// the DBWriter derives the day directory from the block timestamp, so the model is per day
	models := map[int64]*stor.DayModel{}
	modelOf := func(ts int64) *stor.DayModel {
		d := dayOf(ts)
		if models[d] == nil {
			models[d] = &stor.DayModel{DayTS: d}
		}
		return models[d]
	}
	hostile := []float64{0.15, 0.3, 0.5}[r.Intn(3)]
	enc := []encoders.Type{encoders.EncoderTypeLZ4, encoders.EncoderTypeZSTD, encoders.EncoderTypeNull}[r.Intn(3)]
	w := goDB.NewDBWriter(dbPath, "eth0", enc)
	last := day + int64(r.Intn(3000))
	var trace []string
	nontrivial := false
	nOps := 2 + r.Intn(6)
	for op := 0; op < nOps; op++ {
		if r.Intn(3) == 0 {
			// WriteBulk: several blocks into the directory of dirTS
			n := 1 + r.Intn(4)
			var wl []goDB.BulkWorkload
			var recs []stor.BlockRec
			cur := last
			var names []string
			for i := 0; i < n; i++ {
				mv := pickMove(r, hostile)
				if op == 0 && i == 0 {
					mv = move{name: "first", next: func(r *rand.Rand, l, d int64) int64 { return l }}
				}
				ts := mv.next(r, cur, day)
				drops, cls := pickCount(r, 0.15)
				countMoves(c, mv, []string{cls})
				if mv.hostile || cls != "small" {
					nontrivial = true
				}
				rec, flows := flowsRec(r, ts, drops)
				recs = append(recs, rec)
				wl = append(wl, goDB.BulkWorkload{FlowMap: gen.FlowMap(flows), CaptureStats: capturetypes.CaptureStats{Dropped: drops}, Timestamp: ts})
				names = append(names, mv.name+"/"+cls)
				cur = ts
			}
			dirTS := recs[0].TS
			if r.Intn(4) == 0 {
				dirTS = day
			}
			m := modelOf(dirTS)
			feature := classify(m.Blocks, recs)
			c.Note("WriteBulk dirTS %d timestamps %v", dirTS, tsOf(recs))
			err := w.WriteBulk(wl, dirTS)
			c.Count("dbwriter_bulk_writes", 1)
			if err != nil {
				trace = append(trace, "bulk["+strings.Join(names, " ")+"]:rejected")
				c.Count("sessions_rejected", 1)
				c.Count("writes_rejected", 1)
				c.Count("reopen_after_rejected_session", 1)
				if !verifyDay(c, iface, m, r, fmt.Sprintf("after rejected WriteBulk (%v) [%s]", err, strings.Join(trace, " ")), "dbwriter|after_rejected_bulk|"+feature, false) {
					return
				}
				continue
			}
			trace = append(trace, "bulk["+strings.Join(names, " ")+"]:ok")
			c.Count("sessions_accepted", 1)
			m.Blocks = append(m.Blocks, recs...)
			last = cur
			if !verifyDay(c, iface, m, r, fmt.Sprintf("after accepted WriteBulk [%s]", strings.Join(trace, " ")), "dbwriter|"+feature, false) {
				return
			}
			continue
		}
		mv := pickMove(r, hostile)
		if op == 0 {
			mv = move{name: "first", next: func(r *rand.Rand, l, d int64) int64 { return l }}
		}
		ts := mv.next(r, last, day)
		drops, cls := pickCount(r, 0.15)
		countMoves(c, mv, []string{cls})
		if mv.hostile || cls != "small" {
			nontrivial = true
		}
		rec, flows := flowsRec(r, ts, drops)
		m := modelOf(ts)
		feature := classify(m.Blocks, []stor.BlockRec{rec})
		c.Note("Write ts %d (%s) drops %d", ts, mv.name, drops)
		err := w.Write(gen.FlowMap(flows), capturetypes.CaptureStats{Dropped: drops}, ts)
		c.Count("dbwriter_writes", 1)
		if err != nil {
			trace = append(trace, mv.name+"/"+cls+":rejected")
			c.Count("sessions_rejected", 1)
			c.Count("writes_rejected", 1)
			c.Count("reopen_after_rejected_session", 1)
			if !verifyDay(c, iface, m, r, fmt.Sprintf("after rejected Write (%v) [%s]", err, strings.Join(trace, " ")), "dbwriter|after_rejected_write|"+feature, false) {
				return
			}
			continue
		}
		trace = append(trace, mv.name+"/"+cls+":ok")
		c.Count("sessions_accepted", 1)
		m.Blocks = append(m.Blocks, rec)
		last = ts
		if !verifyDay(c, iface, m, r, fmt.Sprintf("after accepted Write [%s]", strings.Join(trace, " ")), "dbwriter|"+feature, false) {
			return
		}
	}
	if nontrivial {
		c.Nontrivial("dbwriter|" + strings.Join(trace, " "))
	}
	c.Sample(map[string]any{"kind": "DBWriter history", "trace": trace})
}

// dayOf mirrors the documented day granularity (UTC day of the epoch timestamp, truncation
// towards zero as integer division does).
func dayOf(ts int64) int64 { return (ts / 86400) * 86400 }

// ---------------------------------------------------------------------------------------------
// (c) csvimport into a DB that already holds blocks

func runCSVImport(c *fw.Case) {
	r := c.Rng
	dbPath := filepath.Join(c.Tmp, "db")
	iface := filepath.Join(dbPath, "eth0")
	day := gen.DayStart(gen.MinTS) + 86400*int64(1+r.Intn(11000))
	model := &stor.DayModel{DayTS: day}
	w := goDB.NewDBWriter(dbPath, "eth0", encoders.EncoderTypeLZ4)
	// existing blocks
	nExisting := 1 + r.Intn(3)
	ts := day + 3000 + int64(r.Intn(10))*300
	for i := 0; i < nExisting; i++ {
		rec, flows := flowsRec(r, ts, 0)
		if err := w.Write(gen.FlowMap(flows), capturetypes.CaptureStats{}, ts); err != nil {
			c.Violatef("write_error|csv_setup", "plain monotone Write at %d failed: %v", ts, err)
			return
		}
		model.Blocks = append(model.Blocks, rec)
		ts += 300 * int64(1+r.Intn(3))
	}
	lastStored := model.Blocks[len(model.Blocks)-1].TS
	firstStored := model.Blocks[0].TS
	// CSV blocks: ordered, non-decreasing timestamps as the importer requires
	nCSV := 1 + r.Intn(3)
	var start int64
	var kind string
	switch r.Intn(3) {
	case 0:
		start, kind = firstStored-300*int64(1+r.Intn(5)), "older_than_stored"
	case 1:
		start, kind = firstStored+1+int64(r.Intn(200)), "between_stored"
		if nExisting == 1 {
			kind = "older_than_stored"
			start = firstStored - 1
		}
	default:
		start, kind = lastStored+300, "after_stored"
	}
	var sb strings.Builder
	sb.WriteString("time,iface,sip,dip,dport,proto,packets received,packets sent,data vol. received,data vol. sent\n")
	var csvRecs []stor.BlockRec
	t := start
	for i := 0; i < nCSV; i++ {
		rec := stor.BlockRec{TS: t}
		nf := 1 + r.Intn(4)
		seen := map[string]bool{}
		for j := 0; j < nf; j++ {
			f := gen.RandFlow(r, gen.FlowOpts{V6Prob: 0.4})
			f.Proto = []uint8{6, 17}[r.Intn(2)]
			if seen[f.KeyString()] {
				continue
			}
			seen[f.KeyString()] = true
			fmt.Fprintf(&sb, "%d,eth0,%s,%s,%d,%s,%d,%d,%d,%d\n", t, f.SIP, f.DIP, f.Dport, map[uint8]string{6: "TCP", 17: "UDP"}[f.Proto], f.PR, f.PS, f.BR, f.BS)
			if f.IsV4() {
				rec.Sum.V4++
			} else {
				rec.Sum.V6++
			}
			rec.Ctr = rec.Ctr.Add(stor.Ctr{BR: f.BR, BS: f.BS, PR: f.PR, PS: f.PS})
		}
		csvRecs = append(csvRecs, rec)
		t += 300
	}
	in := filepath.Join(c.Tmp, "in.csv")
	if err := os.WriteFile(in, []byte(sb.String()), 0o600); err != nil {
		c.Inconclusive("csv: %v", err)
		return
	}
	c.Note("csv import %s: stored %v csv %v", kind, tsOf(model.Blocks), tsOf(csvRecs))
	sum, err := csvimport.Import(context.Background(), csvimport.Options{InputPath: in, OutputPath: dbPath, EncoderType: encoders.EncoderTypeLZ4})
	c.Count("csv_imports", 1)
	if kind != "after_stored" {
		c.Count("csv_imports_older_than_stored", 1)
	}
	desc := fmt.Sprintf("csv import (%s) stored %v csv %v -> err=%v summary=%+v", kind, tsOf(model.Blocks), tsOf(csvRecs), err, sum)
	// every block the importer reports as written was an accepted write (one session each)
	k := sum.BlocksWritten
	if k > len(csvRecs) {
		k = len(csvRecs)
	}
	if err == nil && sum.BlocksWritten != len(csvRecs) {
		// not this property's business (C26), but the model below relies on it
		c.Count("csv_blocks_written_differs", 1)
	}
	if err != nil {
		c.Count("sessions_rejected", 1)
		c.Count("writes_rejected", 1)
		c.Count("reopen_after_rejected_session", 1)
	} else {
		c.Count("sessions_accepted", 1)
	}
	model.Blocks = append(model.Blocks, csvRecs[:k]...)
	feature := classify(nil, model.Blocks)
	verifyDay(c, iface, model, r, desc, "csvimport|"+feature, false)
	c.Nontrivial("csv|" + kind + fmt.Sprint(nExisting, nCSV, err == nil))
	c.Sample(map[string]any{"kind": "csv import", "case": desc})
}

// ---------------------------------------------------------------------------------------------
// (d) malformed metadata files

func runMetaFuzz(c *fw.Case) {
	r := c.Rng
	iface := filepath.Join(c.Tmp, "db", "eth0")
	day := gen.DayStart(gen.MinTS) + 86400*int64(1+r.Intn(11000))
	// a valid day with k blocks
	k := r.Intn(7)
	w := gpfile.NewDirWriter(iface, day)
	if err := w.Open(); err != nil {
		c.Violatef("open_error|write_mode", "fresh day: %v", err)
		return
	}
	ts := day
	for i := 0; i < k; i++ {
		var data [types.ColIdxCount][]byte
		for col := range data {
			data[col] = stor.Gen(r, stor.PickClass(r), r.Intn(64))
		}
		ts += int64(1 + r.Intn(600))
		if err := w.WriteBlocks(ts, gpfile.TrafficMetadata{NumV4Entries: uint64(r.Intn(100)), NumV6Entries: uint64(r.Intn(100)), NumDrops: uint64(r.Intn(3))},
			types.Counters{BytesRcvd: uint64(r.Intn(1 << 30)), PacketsRcvd: uint64(r.Intn(1 << 20))}, data); err != nil {
			c.Violatef("write_error|meta_setup", "plain monotone WriteBlocks failed: %v", err)
			return
		}
	}
	if err := w.Close(); err != nil {
		c.Violatef("write_error|meta_setup", "Close failed: %v", err)
		return
	}
	dir, _, found := stor.FindDayDir(iface, day)
	if !found {
		c.Violatef("reopen_error|meta_setup", "day directory missing after Close")
		return
	}
	metaPath := filepath.Join(dir, ".blockmeta")
	valid, err := os.ReadFile(metaPath)
	if err != nil {
		c.Violatef("reopen_error|meta_setup", "metadata file missing after Close: %v", err)
		return
	}
	try := func(class string, b []byte, mustFail bool) {
		if err := os.WriteFile(metaPath, b, 0o644); err != nil {
			c.Inconclusive("write meta: %v", err)
			return
		}
		c.Nontrivial(string(b))
		for _, mode := range []string{"read", "write"} {
			if mode == "write" && r.Intn(3) != 0 {
				continue
			}
			c.Note("meta %s open (%s) %d bytes", class, mode, len(b))
			var ms0, ms1 runtime.MemStats
			runtime.ReadMemStats(&ms0)
			opened, err, pmsg := openGuarded(iface, day, mode)
			runtime.ReadMemStats(&ms1)
			switch {
			case pmsg != "":
				c.Violatef("meta_panic|"+class+"|"+mode, "Open (%s mode) panicked on a %d byte metadata file (%s; valid file has %d bytes, %d blocks): %s\nfile: % x", mode, len(b), class, len(valid), k, pmsg, head(b, 256))
			case err != nil:
				c.Count("meta_open_errors", 1)
			default:
				c.Count("meta_open_successes", 1)
				if mustFail {
					c.Violatef("meta_truncated_accepted|"+mode, "Open (%s mode) accepted a metadata file truncated to %d of %d bytes (%d blocks, %d blocks reported)", mode, len(b), len(valid), k, opened)
				}
			}
			if d := ms1.TotalAlloc - ms0.TotalAlloc; d > 64<<20 {
				c.Violatef("meta_huge_alloc|"+class, "Open (%s mode) allocated %d MiB for a %d byte metadata file (%s)", mode, d>>20, len(b), class)
			}
		}
	}
	// every strict prefix must be rejected
	step := 1
	if c.Tier != "thorough" && len(valid) > 300 {
		step = 1 + r.Intn(3)
	}
	for n := r.Intn(step); n < len(valid); n += step {
		try("prefix", valid[:n], true)
		c.Count("meta_prefixes", 1)
	}
	// the valid file itself and extended files must not crash
	try("valid", valid, false)
	ext := append(append([]byte{}, valid...), stor.Gen(r, stor.PickClass(r), 1+r.Intn(200))...)
	try("extended", ext, false)
	// bit flips
	for i := 0; i < 40; i++ {
		b := append([]byte{}, valid...)
		for j := 0; j <= r.Intn(3); j++ {
			b[r.Intn(len(b))] ^= 1 << uint(r.Intn(8))
		}
		try("bitflip", b, false)
		c.Count("meta_bitflips", 1)
	}
	// forged number of blocks (bytes 8..16) and version
	forged := []uint64{0, 1, uint64(k) + 1, uint64(k) - 1, 1 << 16, 1 << 31, 1<<32 - 1, 1 << 32, 1 << 40, 1<<63 - 1, 1 << 63, math.MaxUint64, math.MaxUint64 / 88, math.MaxUint64/88 + 1, (math.MaxUint64 - 144) / 88}
	for _, nb := range forged {
		b := append([]byte{}, valid...)
		for i := 0; i < 8; i++ {
			b[8+i] = byte(nb >> uint(56-8*i))
		}
		if r.Intn(2) == 0 {
			b = append(b, make([]byte, r.Intn(4096))...)
		}
		try("forged_nblocks", b, false)
		c.Count("meta_forged_nblocks", 1)
	}
	// random blobs up to 4 KiB, including sizes around the minimum (144 bytes)
	for i := 0; i < 24; i++ {
		n := []int{0, 1, 143, 144, 145, 231, 232, 233, r.Intn(4096), r.Intn(400)}[r.Intn(10)]
		try("random_blob", stor.Gen(r, stor.PickClass(r), n), false)
		c.Count("meta_random_blobs", 1)
	}
	c.Sample(map[string]any{"kind": "metadata fuzz", "valid_blocks": k, "valid_size": len(valid)})
}

// openGuarded opens the day through goProbe and converts a panic into a message.
func openGuarded(iface string, day int64, mode string) (nBlocks int, err error, panicMsg string) {
	defer func() {
		if p := recover(); p != nil {
			panicMsg = fmt.Sprintf("%v\n%s", p, trimStack(string(debug.Stack())))
		}
	}()
	var d *gpfile.GPDir
	if mode == "write" {
		d = gpfile.NewDirWriter(iface, day)
	} else {
		d = gpfile.NewDirReader(iface, day, "")
	}
	if err = d.Open(); err != nil {
		return 0, err, ""
	}
	nBlocks = len(d.BlockTraffic)
	if mode == "read" {
		// closing a reader never writes; a writer's Close would rewrite the file under test
		_ = d.Close()
	}
	return nBlocks, nil, ""
}

func trimStack(s string) string {
	lines := strings.Split(s, "\n")
	var keep []string
	for i, l := range lines {
		if strings.Contains(l, "goProbe") {
			keep = append(keep, l)
			if i+1 < len(lines) {
				keep = append(keep, lines[i+1])
			}
		}
		if len(keep) > 12 {
			break
		}
	}
	return strings.Join(keep, "\n")
}

func head(b []byte, n int) []byte {
	if len(b) > n {
		return b[:n]
	}
	return b
}
