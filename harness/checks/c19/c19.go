// Package c19: packet parsing extracts the documented flow key and never panics.
//
// The real capture.ParsePacketV4 / ParsePacketV6 and EPHashV4/V6.Reverse are called on IP layers
// crafted byte-wise by the harness (slices with cap == len, as the ring-buffer source hands them
// out). The oracle reads the same bytes with its own fixed-offset reader (no goProbe code).
package c19

import (
	"fmt"
	"math/rand"

	"github.com/els0r/goProbe/v4/pkg/capture"
	"github.com/els0r/goProbe/v4/pkg/capture/capturetypes"
	slimcap "github.com/fako1024/slimcap/capture"

	"verifharness/capfn"
	"verifharness/fw"
)

const (
	quickLenCases    = 24
	thoroughLenCases = 160
	prodCases        = 32 // 8 protocol numbers each
	exhCases         = 256
)

func init() {
	fw.Register(&fw.Check{
		ID:    "C19",
		Level: "exploration",
		Rule: "three case groups. (len) for every delivered length 1..80 (v4) / 1..100 (v6): seeded random byte strings and structured headers (valid version, IHL 5 or not, weighted protocols, " +
			"fragment offsets/flags, boundary ports); (prod) full product of all 256 protocol numbers x boundary port set^2 (all common ports +-1, byte/ephemeral/table boundaries, byte-swapped common ports) x {v4,v6} x " +
			"{minimal length, snap length} plus fragment variants; (exh, thorough only) all 2^32 port pairs x {TCP,UDP} x {v4,v6}. Every packet is parsed together with its mirror (addresses and ports swapped). " +
			"A packet is non-trivial iff parsing returned a key (errno OK) for TCP/UDP with at least one non-zero port; distinct by (family, protocol, port class, length class).",
		Assumptions: []string{
			"IP layers are at least 1 byte long (the capture loop reads the version nibble before parsing)",
			"key layout is checked only for IHL=5 / no IPv6 extension headers (fixed-offset parsing is the documented mechanism); other inputs are checked for no-panic and mirror symmetry",
			"a packet that is both a non-first fragment and truncated may be classified either way",
			"ESP packets are never classified as fragments (documented in ParsePacketV4)",
			"when both ports are common service ports no side is ephemeral, so both ports are expected in the key",
		},
		NumCases: func(tier, variant string) int {
			if tier == "thorough" {
				return thoroughLenCases + prodCases + exhCases
			}
			return quickLenCases + prodCases
		},
		Run:     run,
		Require: []string{"keys_checked_v4", "keys_checked_v6", "mirror_checked", "classified_fragment", "classified_truncated", "short_header_inputs", "port_class_dport_common", "port_class_sport_common", "port_class_both_common", "reverse_checked"},
		Exhaustive: func(tier string) bool {
			return tier == "thorough"
		},
	})
}

// nontrivial keys already reported by the running case (cases run sequentially in a process)
var seenNT map[string]bool

func nontrivial(c *fw.Case, key string) {
	if !seenNT[key] {
		seenNT[key] = true
		c.Nontrivial(key)
	}
}

func run(c *fw.Case) {
	seenNT = map[string]bool{}
	nLen := quickLenCases
	if c.Tier == "thorough" {
		nLen = thoroughLenCases
	}
	switch {
	case c.Idx < nLen:
		runLengths(c)
	case c.Idx < nLen+prodCases:
		runProduct(c, c.Idx-nLen)
	default:
		runExhaustive(c, c.Idx-nLen-prodCases)
	}
}

// ---------------------------------------------------------------------------------------------
// independent oracle

const (
	clsOK = iota
	clsFrag
	clsTrunc
)

type verdict struct {
	cls      int    // primary classification
	altCls   int    // acceptable alternative (both fragment and truncated), else == cls
	key      []byte // expected key when cls == clsOK
	short    bool   // header shorter than the fixed header
	layoutOK bool   // IHL == 5 (v4); key layout is checked
	portCls  string
	proto    byte
}

func protoName(p byte) string {
	switch p {
	case capfn.TCP:
		return "tcp"
	case capfn.UDP:
		return "udp"
	case capfn.ICMP:
		return "icmp"
	case capfn.ICMPv6:
		return "icmp6"
	case capfn.ESP:
		return "esp"
	}
	return "other"
}

func portClass(sport, dport uint16, proto byte) (cls string, keepS, keepD bool) {
	sc, dc := capfn.CommonPort(sport, proto), capfn.CommonPort(dport, proto)
	switch {
	case sc && dc:
		return "both_common", true, true
	case dc:
		return "dport_common", false, true
	case sc:
		return "sport_common", true, false
	}
	return "none_common", true, true
}

func oracle(b []byte, v6 bool) verdict {
	hl, protoPos, sipPos, dipPos, alen := 20, 9, 12, 16, 4
	if v6 {
		hl, protoPos, sipPos, dipPos, alen = 40, 6, 8, 24, 16
	}
	v := verdict{layoutOK: true}
	if len(b) < hl {
		v.cls, v.altCls, v.short = clsTrunc, clsFrag, true
		return v
	}
	proto := b[protoPos]
	v.proto = proto
	if !v6 && b[0]&0x0f != 5 {
		v.layoutOK = false
	}
	frag := false
	if !v6 && proto != capfn.ESP {
		if (uint16(b[6]&0x1f)<<8)|uint16(b[7]) != 0 {
			frag = true
		}
	}
	need := hl
	switch {
	case proto == capfn.TCP:
		need = hl + 14
	case proto == capfn.UDP:
		need = hl + 4
	case (!v6 && proto == capfn.ICMP) || (v6 && proto == capfn.ICMPv6):
		need = hl + 1
	}
	trunc := len(b) < need
	switch {
	case frag && trunc:
		v.cls, v.altCls = clsFrag, clsTrunc
		return v
	case frag:
		v.cls, v.altCls = clsFrag, clsFrag
		return v
	case trunc:
		v.cls, v.altCls = clsTrunc, clsTrunc
		return v
	}
	key := make([]byte, 2*alen+5)
	copy(key[0:alen], b[sipPos:sipPos+alen])
	copy(key[alen+2:2*alen+2], b[dipPos:dipPos+alen])
	key[2*alen+4] = proto
	if proto == capfn.TCP || proto == capfn.UDP {
		sport := uint16(b[hl])<<8 | uint16(b[hl+1])
		dport := uint16(b[hl+2])<<8 | uint16(b[hl+3])
		cls, keepS, keepD := portClass(sport, dport, proto)
		v.portCls = cls
		if keepS {
			key[alen], key[alen+1] = byte(sport>>8), byte(sport)
		}
		if keepD {
			key[2*alen+2], key[2*alen+3] = byte(dport>>8), byte(dport)
		}
	}
	v.key = key
	return v
}

// mirrorKey is the mirror image of a key: source and destination (address+port) swapped.
func mirrorKey(k []byte) []byte {
	half := (len(k) - 1) / 2
	m := make([]byte, len(k))
	copy(m[0:half], k[half:2*half])
	copy(m[half:2*half], k[0:half])
	m[len(k)-1] = k[len(k)-1]
	return m
}

// ---------------------------------------------------------------------------------------------
// calling the real parser

type parsed struct {
	key   []byte
	aux   byte
	errno capturetypes.ParsingErrno
	pan   any
}

func parse(b []byte, v6 bool) (p parsed) {
	defer func() {
		if r := recover(); r != nil {
			p.pan = r
		}
	}()
	b = b[:len(b):len(b)] // like the ring buffer source: nothing readable behind the snap length
	if v6 {
		h, aux, errno := capture.ParsePacketV6(slimcap.IPLayer(b))
		p.key, p.aux, p.errno = h[:], aux, errno
		return
	}
	h, aux, errno := capture.ParsePacketV4(slimcap.IPLayer(b))
	p.key, p.aux, p.errno = h[:], aux, errno
	return
}

func errnoClass(e capturetypes.ParsingErrno) int {
	switch e {
	case capturetypes.ErrnoOK:
		return clsOK
	case capturetypes.ErrnoPacketFragmentIgnore:
		return clsFrag
	case capturetypes.ErrnoPacketTruncated:
		return clsTrunc
	}
	return -1
}

func clsName(c int) string {
	switch c {
	case clsOK:
		return "key"
	case clsFrag:
		return "fragment"
	case clsTrunc:
		return "truncated"
	}
	return "unknown_errno"
}

func fam(v6 bool) string {
	if v6 {
		return "v6"
	}
	return "v4"
}

func lenClass(n int, v6 bool) string {
	hl := 20
	if v6 {
		hl = 40
	}
	switch {
	case n < hl:
		return "short"
	case n == hl:
		return "hdr_only"
	case n < hl+4:
		return "lt_ports"
	case n < hl+14:
		return "lt_flags"
	case n <= capfn.SnapIPLen:
		return "le_snap"
	}
	return "gt_snap"
}

// checkPacket runs every clause of the property on one IP layer.
func checkPacket(c *fw.Case, b []byte, v6 bool, origin string) {
	want := oracle(b, v6)
	feat := fam(v6) + "_" + protoName(want.proto)
	if want.short {
		feat = fam(v6) + "_short_header"
		c.Count("short_header_inputs", 1)
	}
	got := parse(b, v6)
	c.Count("parse_calls", 1)
	if got.pan != nil {
		c.Violatef("panic|"+feat+"|"+lenClass(len(b), v6), "Parse%s panicked on a %d-byte IP layer (%s): %v; bytes=% x", fam(v6), len(b), origin, got.pan, b)
		return
	}
	gc := errnoClass(got.errno)
	if gc != want.cls && gc != want.altCls {
		if want.layoutOK {
			c.Violatef("classification|"+feat+"|want_"+clsName(want.cls)+"_got_"+clsName(gc), "%s IP layer of %d bytes (%s): expected %s, parser returned errno=%d (%s); bytes=% x", fam(v6), len(b), origin, clsName(want.cls), got.errno, clsName(gc), b)
			return
		}
	}
	switch gc {
	case clsFrag:
		c.Count("classified_fragment", 1)
	case clsTrunc:
		c.Count("classified_truncated", 1)
	}
	if gc == clsOK && want.cls == clsOK && want.layoutOK {
		if v6 {
			c.Count("keys_checked_v6", 1)
		} else {
			c.Count("keys_checked_v4", 1)
		}
		if want.portCls != "" {
			c.Count("port_class_"+want.portCls, 1)
		}
		if string(got.key) != string(want.key) {
			c.Violatef("key|"+feat+"|"+portClassOr(want.portCls), "%s IP layer (%s): expected key % x, parser returned % x; bytes=% x", fam(v6), origin, want.key, got.key, b)
		} else if want.portCls != "" && (got.key[len(got.key)/2-2] != 0 || got.key[len(got.key)/2-1] != 0 || got.key[len(got.key)-3] != 0 || got.key[len(got.key)-2] != 0) {
			nontrivial(c, fmt.Sprintf("%s|%d|%s|%s", fam(v6), want.proto, want.portCls, lenClass(len(b), v6)))
		}
	}
	if !want.layoutOK {
		c.Count("ihl_ne5_inputs", 1)
	}
	if want.short {
		return
	}
	// mirror clause: the same conversation's packet in the other direction
	mb := capfn.MirrorBytes(b, v6)
	gm := parse(mb, v6)
	c.Count("parse_calls", 1)
	if gm.pan != nil {
		c.Violatef("panic|"+feat+"|"+lenClass(len(b), v6), "Parse%s panicked on the mirror packet: %v; bytes=% x", fam(v6), gm.pan, mb)
		return
	}
	c.Count("mirror_checked", 1)
	if gm.errno != got.errno {
		c.Violatef("mirror_classification|"+feat, "%s: packet classified errno=%d, its mirror errno=%d; bytes=% x mirror=% x", fam(v6), got.errno, gm.errno, b, mb)
		return
	}
	if gc == clsOK {
		if string(gm.key) != string(mirrorKey(got.key)) {
			c.Violatef("mirror_key|"+feat+"|"+portClassOr(want.portCls), "%s: key % x, mirror packet's key % x is not its mirror image; bytes=% x", fam(v6), got.key, gm.key, b)
		}
		checkReverse(c, got.key)
	}
}

func portClassOr(s string) string {
	if s == "" {
		return "no_ports"
	}
	return s
}

// checkReverse compares goProbe's Reverse() with the independent mirror image.
func checkReverse(c *fw.Case, key []byte) {
	var rev []byte
	if len(key) == capturetypes.EPHashSizeV4 {
		r := capturetypes.EPHashV4(key).Reverse()
		rr := r.Reverse()
		rev = r[:]
		if string(rr[:]) != string(key) {
			c.Violatef("reverse_involution|v4", "Reverse(Reverse(% x)) = % x", key, rr[:])
		}
	} else {
		r := capturetypes.EPHashV6(key).Reverse()
		rr := r.Reverse()
		rev = r[:]
		if string(rr[:]) != string(key) {
			c.Violatef("reverse_involution|v6", "Reverse(Reverse(% x)) = % x", key, rr[:])
		}
	}
	c.Count("reverse_checked", 1)
	if string(rev) != string(mirrorKey(key)) {
		c.Violatef("reverse|"+fam(len(key) != capturetypes.EPHashSizeV4), "Reverse(% x) = % x, expected % x", key, rev, mirrorKey(key))
	}
}

// ---------------------------------------------------------------------------------------------
// group (len): every length, random and structured bytes

var weightedProtos = []byte{capfn.TCP, capfn.TCP, capfn.TCP, capfn.UDP, capfn.UDP, capfn.ICMP, capfn.ICMPv6, capfn.ESP, 0, 2, 41, 43, 44, 47, 51, 60, 132, 255}

func structured(r *rand.Rand, n int, v6 bool) []byte {
	hl := 20
	if v6 {
		hl = 40
	}
	full := n
	if full < hl+20 {
		full = hl + 20
	}
	b := make([]byte, full)
	r.Read(b)
	proto := weightedProtos[r.Intn(len(weightedProtos))]
	if r.Intn(6) == 0 {
		proto = byte(r.Intn(256))
	}
	if v6 {
		b[0] = 0x60 | b[0]&0x0f
		b[6] = proto
		copy(b[8:24], capfn.RandAddr(r, true))
		copy(b[24:40], capfn.RandAddr(r, true))
	} else {
		b[0] = 0x45
		if r.Intn(8) == 0 {
			b[0] = 0x40 | byte(r.Intn(16))
		}
		b[9] = proto
		switch r.Intn(6) {
		case 0: // non-first fragment
			off := 1 + r.Intn(8191)
			b[6] = byte(off>>8) | byte(r.Intn(8))<<5
			b[7] = byte(off)
		case 1: // first fragment (MF set, offset 0) / DF / reserved bit
			b[6] = byte(r.Intn(8)) << 5
			b[7] = 0
		default:
			b[6], b[7] = 0x40, 0
		}
		copy(b[12:16], capfn.RandAddr(r, false))
		copy(b[16:20], capfn.RandAddr(r, false))
	}
	if r.Intn(4) != 0 {
		s, d := capfn.RandPort(r), capfn.RandPort(r)
		b[hl], b[hl+1], b[hl+2], b[hl+3] = byte(s>>8), byte(s), byte(d>>8), byte(d)
	}
	return b[:n]
}

func runLengths(c *fw.Case) {
	r := c.Rng
	perLen := 220
	sampled := false
	for _, v6 := range []bool{false, true} {
		maxLen := 80
		if v6 {
			maxLen = 100
		}
		for n := 1; n <= maxLen; n++ {
			c.Note("group len: %s length %d", fam(v6), n)
			for i := 0; i < perLen; i++ {
				var b []byte
				origin := "structured"
				if i%4 == 0 {
					origin = "random"
					b = make([]byte, n)
					r.Read(b)
					if i%8 == 0 && !v6 && n > 0 {
						b[0] = 0x45
					}
				} else {
					b = structured(r, n, v6)
				}
				checkPacket(c, b, v6, origin)
				if c.Failed() && i > 8 {
					break
				}
				if !sampled && !v6 && n == 40 && origin == "structured" {
					sampled = true
					w := oracle(b, v6)
					c.Sample(map[string]any{"group": "len", "family": "v4", "bytes": fmt.Sprintf("% x", b), "oracle_class": clsName(w.cls), "oracle_key": fmt.Sprintf("% x", w.key)})
				}
			}
		}
	}
}

// ---------------------------------------------------------------------------------------------
// group (prod): protocols x boundary ports x families x lengths

func runProduct(c *fw.Case, k int) {
	r := c.Rng
	first := true
	for p := k * 8; p < k*8+8; p++ {
		proto := byte(p)
		c.Note("group prod: protocol %d", p)
		for _, v6 := range []bool{false, true} {
			hl := 20
			if v6 {
				hl = 40
			}
			lens := []int{hl, capfn.SnapIPLen, hl + 24}
			switch proto {
			case capfn.TCP:
				lens = []int{hl + 13, hl + 14, capfn.SnapIPLen, hl + 40}
			case capfn.UDP:
				lens = []int{hl + 3, hl + 4, hl + 8, capfn.SnapIPLen}
			case capfn.ICMP, capfn.ICMPv6:
				lens = []int{hl, hl + 1, hl + 8, capfn.SnapIPLen}
			}
			src, dst := capfn.RandAddr(r, v6), capfn.RandAddr(r, v6)
			for _, s := range capfn.BoundaryPorts {
				for _, d := range capfn.BoundaryPorts {
					for _, n := range lens {
						h := capfn.Hdr{V6: v6, Src: src, Dst: dst, Proto: proto, Sport: s, Dport: d, Aux: byte(r.Intn(256)), Len: n}
						b := h.Bytes()
						if proto != capfn.TCP && proto != capfn.UDP && len(b) >= hl+4 {
							// other protocols: whatever sits at the port offsets must not leak into the key
							b[hl+1], b[hl+2], b[hl+3] = byte(s), byte(d>>8), byte(d)
							if proto != capfn.ICMP && proto != capfn.ICMPv6 {
								b[hl] = byte(s >> 8)
							}
						}
						checkPacket(c, b, v6, "product")
						if first && proto == capfn.TCP && s == 33561 && d == 443 {
							first = false
							w := oracle(b, v6)
							c.Sample(map[string]any{"group": "prod", "packet": h.String(), "bytes": fmt.Sprintf("% x", b), "oracle_key": fmt.Sprintf("% x", w.key)})
						}
					}
					if c.Failed() {
						// keep going over the product for counters, but one witness per (s,d) is enough
						continue
					}
				}
			}
			// fragment variants (v4 only has a fragment field in the fixed header)
			if !v6 {
				for _, off := range []uint16{1, 2, 185, 255, 256, 512, 1024, 2048, 4096, 8191} {
					for _, mf := range []bool{false, true} {
						h := capfn.Hdr{Src: src, Dst: dst, Proto: proto, Sport: 40000, Dport: 443, Aux: 0x10, FragOff: off, MoreFrag: mf}
						checkPacket(c, h.Bytes(), false, "product_fragment")
					}
				}
				h := capfn.Hdr{Src: src, Dst: dst, Proto: proto, Sport: 40000, Dport: 443, Aux: 0x10, MoreFrag: true}
				checkPacket(c, h.Bytes(), false, "product_first_fragment")
			}
		}
	}
}

// ---------------------------------------------------------------------------------------------
// group (exh): all port pairs for TCP and UDP (thorough)

func runExhaustive(c *fw.Case, hi int) {
	r := c.Rng
	var common [2][65536]bool
	for p := 0; p < 65536; p++ {
		common[0][p] = capfn.CommonPort(uint16(p), capfn.TCP)
		common[1][p] = capfn.CommonPort(uint16(p), capfn.UDP)
	}
	for pi, proto := range []byte{capfn.TCP, capfn.UDP} {
		// v4
		{
			src, dst := capfn.RandAddr(r, false), capfn.RandAddr(r, false)
			fwd := capfn.Hdr{Src: src, Dst: dst, Proto: proto, Aux: 0x18}.Bytes()
			bwd := capfn.Hdr{Src: dst, Dst: src, Proto: proto, Aux: 0x18}.Bytes()
			fwd, bwd = fwd[:len(fwd):len(fwd)], bwd[:len(bwd):len(bwd)]
			var exp, expM capturetypes.EPHashV4
			copy(exp[0:4], src)
			copy(exp[6:10], dst)
			exp[12] = proto
			copy(expM[0:4], dst)
			copy(expM[6:10], src)
			expM[12] = proto
			c.Note("exhaustive v4 proto=%d sport=%d..%d", proto, hi<<8, hi<<8|255)
			for lo := 0; lo < 256; lo++ {
				s := hi<<8 | lo
				fwd[20], fwd[21] = byte(hi), byte(lo)
				bwd[22], bwd[23] = byte(hi), byte(lo)
				sc := common[pi][s]
				for d := 0; d < 65536; d++ {
					fwd[22], fwd[23] = byte(d>>8), byte(d)
					bwd[20], bwd[21] = byte(d>>8), byte(d)
					dc := common[pi][d]
					var ks, kd uint16
					if !(dc && !sc) {
						ks = uint16(s)
					}
					if !(sc && !dc) {
						kd = uint16(d)
					}
					exp[4], exp[5], exp[10], exp[11] = byte(ks>>8), byte(ks), byte(kd>>8), byte(kd)
					expM[4], expM[5], expM[10], expM[11] = exp[10], exp[11], exp[4], exp[5]
					h, _, e := capture.ParsePacketV4(slimcap.IPLayer(fwd))
					hm, _, em := capture.ParsePacketV4(slimcap.IPLayer(bwd))
					if e != capturetypes.ErrnoOK || em != capturetypes.ErrnoOK || h != exp || hm != expM {
						cls, _, _ := portClass(uint16(s), uint16(d), proto)
						c.Violatef("key|v4_"+protoName(proto)+"|"+cls, "exhaustive: v4 proto %d ports %d>%d: errno %d/%d key % x (expected % x), mirror key % x (expected % x)", proto, s, d, e, em, h[:], exp[:], hm[:], expM[:])
						if len(cls) > 0 && c.Failed() {
							break
						}
					}
				}
			}
			c.Count("exhaustive_port_pairs_v4", 256*65536)
			c.Count("keys_checked_v4", 2*256*65536)
			c.Count("parse_calls", 2*256*65536)
			c.Count("mirror_checked", 256*65536)
		}
		// v6
		{
			src, dst := capfn.RandAddr(r, true), capfn.RandAddr(r, true)
			fwd := capfn.Hdr{V6: true, Src: src, Dst: dst, Proto: proto, Aux: 0x18}.Bytes()
			bwd := capfn.Hdr{V6: true, Src: dst, Dst: src, Proto: proto, Aux: 0x18}.Bytes()
			fwd, bwd = fwd[:len(fwd):len(fwd)], bwd[:len(bwd):len(bwd)]
			var exp, expM capturetypes.EPHashV6
			copy(exp[0:16], src)
			copy(exp[18:34], dst)
			exp[36] = proto
			copy(expM[0:16], dst)
			copy(expM[18:34], src)
			expM[36] = proto
			c.Note("exhaustive v6 proto=%d sport=%d..%d", proto, hi<<8, hi<<8|255)
			for lo := 0; lo < 256; lo++ {
				s := hi<<8 | lo
				fwd[40], fwd[41] = byte(hi), byte(lo)
				bwd[42], bwd[43] = byte(hi), byte(lo)
				sc := common[pi][s]
				for d := 0; d < 65536; d++ {
					fwd[42], fwd[43] = byte(d>>8), byte(d)
					bwd[40], bwd[41] = byte(d>>8), byte(d)
					dc := common[pi][d]
					var ks, kd uint16
					if !(dc && !sc) {
						ks = uint16(s)
					}
					if !(sc && !dc) {
						kd = uint16(d)
					}
					exp[16], exp[17], exp[34], exp[35] = byte(ks>>8), byte(ks), byte(kd>>8), byte(kd)
					expM[16], expM[17], expM[34], expM[35] = exp[34], exp[35], exp[16], exp[17]
					h, _, e := capture.ParsePacketV6(slimcap.IPLayer(fwd))
					hm, _, em := capture.ParsePacketV6(slimcap.IPLayer(bwd))
					if e != capturetypes.ErrnoOK || em != capturetypes.ErrnoOK || h != exp || hm != expM {
						cls, _, _ := portClass(uint16(s), uint16(d), proto)
						c.Violatef("key|v6_"+protoName(proto)+"|"+cls, "exhaustive: v6 proto %d ports %d>%d: errno %d/%d key % x (expected % x), mirror key % x (expected % x)", proto, s, d, e, em, h[:], exp[:], hm[:], expM[:])
						if c.Failed() {
							break
						}
					}
				}
			}
			c.Count("exhaustive_port_pairs_v6", 256*65536)
			c.Count("keys_checked_v6", 2*256*65536)
			c.Count("parse_calls", 2*256*65536)
			c.Count("mirror_checked", 256*65536)
		}
	}
	if hi == 0 {
		c.Sample(map[string]any{"group": "exh", "sport_range": "0..255", "dports": "0..65535", "protocols": "tcp,udp", "families": "v4,v6"})
	}
	c.Nontrivial(fmt.Sprintf("exh|%d", hi))
}
