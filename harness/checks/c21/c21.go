// Package c21: packets seen while the capture is paused are counted once and unaltered.
//
// Same rig as C20 (real capture.Manager on scripted sources), but the three kinds of pauses
// (write-out rotation, Status call, live GetFlowMaps) are provoked while packets arrive:
// deterministically placed inside the pause through the source's Stats() rendezvous (goProbe calls
// Stats() while the three-point lock is held) and its Unblock() notifications (lock / unlock
// requests), and free-running with concurrent hammering. Oracle: the final flow set (all stored
// blocks + flows still in memory) equals the pause-free reference aggregation of the delivered
// packets, unless a local buffer overflow was explicitly reported.
package c21

import (
	"context"
	"fmt"
	"sync"
	"sync/atomic"
	"time"

	"verifharness/capx"
	"verifharness/fw"
	"verifharness/gen"
	"verifharness/src"
)

func init() {
	fw.Register(&fw.Check{
		ID:    "C21",
		Level: "exploration",
		Rule: "case = schedule of 6-20 operations on 1-2 interfaces with mixed IPv4/IPv6 scripted traffic: feed; write-out / Status / GetFlowMaps pauses during which m in {0,1,2,17,300} packets are delivered inside the locked section (Stats rendezvous) or right at the lock request (served before or after the unblock notification) or right after the unlock request; every 4th case is free-running (feeder and pausing goroutines unsynchronised); every 6th uses a tiny local buffer to force overflow. " +
			"Oracle: per unordered pair+proto and per decisive conversation, stored blocks + in-memory flows == aggregation of all delivered packets; with a reported overflow only losses are tolerated. Distinct = (case, op index) with >=1 packet of each family buffered during a pause.",
		Assumptions: []string{"which interval a packet delivered around a rotation boundary is accounted to is not constrained (only exactly-once)", "overflow is considered reported iff goProbe logs 'local packet buffer overflow'"},
		NumCases: func(tier, variant string) int {
			if variant == "race" {
				if tier == "thorough" {
					return 400
				}
				return 24
			}
			if tier == "thorough" {
				return 5000
			}
			return 150
		},
		Variants: func(tier string) []string { return []string{"default", "race"} },
		Run:      run,
		Require:  []string{"pauses_writeout", "pauses_status", "pauses_flowmaps", "buffered_v4", "buffered_v6", "at_lock_request_queue_first", "after_unlock", "free_running_cases", "overflow_cases"},
	})
}

func run(c *fw.Case) {
	r := c.Rng
	nIf := 1 + r.Intn(2)
	ifaces := []string{"eth0", "eth1"}[:nIf]
	dbPath := c.Tmp + "/db"
	free := c.Idx%4 == 3
	tiny := c.Idx%6 == 5
	opts := capx.Options{}
	if tiny {
		opts.BufferSize = 1 + r.Intn(400) // bytes: a handful of buffered packets at most
	}
	rig, err := capx.NewRig(capx.DefaultConfig(dbPath, ifaces...), opts)
	if err != nil {
		c.Inconclusive("rig: %v", err)
		return
	}
	defer rig.Close()

	scripts := map[string]*capx.Script{}
	pos := map[string]int{}
	all := map[string]*capx.Interval{}
	var mu sync.Mutex // protects pos/all (hooks run on goProbe goroutines)
	for _, i := range ifaces {
		scripts[i] = capx.GenScript(r, capx.ScriptOpts{NConvs: 6 + r.Intn(20), NPkts: 400 + r.Intn(2500), V6Prob: 0.5})
		all[i] = capx.NewInterval()
	}
	// next n packets of an interface, accounted as delivered
	take := func(iface string, n int) []src.Packet {
		mu.Lock()
		defer mu.Unlock()
		var out []src.Packet
		s := scripts[iface]
		for k := 0; k < n && pos[iface] < len(s.Pkts); k++ {
			p := s.Pkts[pos[iface]]
			pos[iface]++
			all[iface].Add(p)
			out = append(out, p.Spec.Packet())
		}
		return out
	}
	famCount := func(pk []src.Packet) (v4, v6 int) {
		for _, p := range pk {
			if p.IP[0]>>4 == 4 {
				v4++
			} else {
				v6++
			}
		}
		return
	}
	var bufV4, bufV6 int64
	// per-operation injection plan, consumed by the hooks
	type plan struct {
		inPause    int  // packets delivered inside the locked section via Stats()
		atLock     int  // packets queued at the lock request
		queueFirst bool // ... served before the unblock notification
		afterUnl   int  // packets queued right at the unlock request
	}
	var cur atomic.Pointer[plan]
	for _, i := range ifaces {
		iface := i
		s := rig.Source(iface)
		var lockedNow atomic.Bool
		s.StatsHook = func(n int) {
			p := cur.Load()
			if p == nil || p.inPause == 0 {
				return
			}
			pk := take(iface, p.inPause)
			v4, v6 := famCount(pk)
			atomic.AddInt64(&bufV4, int64(v4))
			atomic.AddInt64(&bufV6, int64(v6))
			s.Feed(pk...)
			// gives up only if the consumer stopped because the local buffer overflowed (the generous
			// limit is a safety net: a starved consumer on a loaded machine has not stopped)
			s.WaitIdleUntil(20*time.Second, func() bool { return rig.Log.Contains("local packet buffer overflow") })
		}
		s.UnblockHook = func(n int) {
			p := cur.Load()
			if p == nil {
				return
			}
			if n%2 == 1 { // lock request
				lockedNow.Store(true)
				if p.atLock > 0 {
					s.SetQueueFirst(p.queueFirst)
					pk := take(iface, p.atLock)
					if !p.queueFirst {
						v4, v6 := famCount(pk)
						atomic.AddInt64(&bufV4, int64(v4))
						atomic.AddInt64(&bufV6, int64(v6))
					}
					s.Feed(pk...)
				}
			} else { // unlock request
				lockedNow.Store(false)
				if p.afterUnl > 0 {
					s.SetQueueFirst(false)
					s.Feed(take(iface, p.afterUnl)...)
				}
			}
		}
	}
	day := gen.DayStart(gen.MinTS) + 86400*int64(1+r.Intn(11000))
	ts := day + 300*int64(1+r.Intn(200))
	ctx := context.Background()
	ms := []int{0, 1, 2, 17, 300}
	unsettled := false
	settle := func() {
		for _, i := range ifaces {
			// outside a pause the consumer always comes back for more: not becoming idle within the
			// (generous) limit means the machine is starved or the capture is stuck -> inconclusive
			if !rig.Source(i).WaitIdleOr(60 * time.Second) {
				unsettled = true
			}
		}
	}

	if !free {
		nOps := 6 + r.Intn(15)
		for op := 0; op < nOps; op++ {
			p := &plan{}
			switch r.Intn(4) {
			case 0:
				p.inPause = ms[r.Intn(len(ms))]
			case 1:
				p.atLock = ms[1+r.Intn(3)]
				p.queueFirst = r.Intn(2) == 0
			case 2:
				p.afterUnl = ms[1+r.Intn(3)]
			default:
				p.inPause, p.atLock, p.afterUnl = ms[r.Intn(len(ms))], r.Intn(3), r.Intn(3)
				p.queueFirst = r.Intn(2) == 0
			}
			// some ordinary traffic first
			for _, i := range ifaces {
				rig.Source(i).SetQueueFirst(false)
				rig.Source(i).Feed(take(i, r.Intn(200))...)
			}
			settle()
			b4, b6 := atomic.LoadInt64(&bufV4), atomic.LoadInt64(&bufV6)
			cur.Store(p)
			kind := r.Intn(3)
			c.Note("op %d kind %d plan %+v", op, kind, *p)
			switch kind {
			case 0:
				rig.Writeout(ts)
				ts += 300
				c.Count("pauses_writeout", 1)
			case 1:
				rig.Mgr.Status(ctx)
				c.Count("pauses_status", 1)
			default:
				// GetFlowMaps has no Stats() call inside its pause: deliver at the lock request instead
				if p.inPause > 0 && p.atLock == 0 {
					p.atLock, p.inPause, p.queueFirst = p.inPause, 0, false
				}
				rig.FlowMaps()
				c.Count("pauses_flowmaps", 1)
			}
			cur.Store(nil)
			settle()
			if p.atLock > 0 && p.queueFirst {
				c.Count("at_lock_request_queue_first", 1)
			}
			if p.afterUnl > 0 {
				c.Count("after_unlock", 1)
			}
			if atomic.LoadInt64(&bufV4) > b4 && atomic.LoadInt64(&bufV6) > b6 {
				c.Nontrivial(fmt.Sprintf("%d/%d", c.Idx, op))
			}
		}
	} else {
		c.Count("free_running_cases", 1)
		// feeders push packets without waiting; pausers hammer the three pause kinds concurrently
		var wg sync.WaitGroup
		stop := make(chan struct{})
		var tsMu sync.Mutex
		for _, i := range ifaces {
			iface := i
			fr := c.SubRng("feeder-" + iface)
			wg.Add(1)
			go func() {
				defer wg.Done()
				for {
					pk := take(iface, 1+fr.Intn(7))
					if len(pk) == 0 {
						return
					}
					rig.Source(iface).Feed(pk...)
					if rig.Source(iface).Pending() > 64 {
						rig.Source(iface).WaitIdleOr(50 * time.Millisecond) // pacing only
					}
					// pace the feeder so that many pauses overlap the traffic (no verdict depends on this)
					time.Sleep(time.Duration(fr.Intn(120)) * time.Microsecond)
				}
			}()
		}
		var pw sync.WaitGroup
		for g := 0; g < 3; g++ {
			g := g
			pw.Add(1)
			go func() {
				defer pw.Done()
				for n := 0; ; n++ {
					select {
					case <-stop:
						return
					default:
					}
					switch (g + n) % 3 {
					case 0:
						// write-outs are serialised with increasing timestamps, as the single write-out
						// scheduler of goProbe does (a block older than the day's last block is rejected
						// by the storage layer, which is C03's business and not a pause effect)
						tsMu.Lock()
						t := ts
						ts += 300
						rig.Writeout(t)
						tsMu.Unlock()
						c.Count("pauses_writeout", 1)
					case 1:
						rig.Mgr.Status(ctx)
						c.Count("pauses_status", 1)
					default:
						rig.FlowMaps()
						c.Count("pauses_flowmaps", 1)
					}
				}
			}()
		}
		wg.Wait()
		close(stop)
		pw.Wait()
		settle()
	}
	if tiny {
		c.Count("overflow_cases", 1)
	}
	c.Count("buffered_v4", int(atomic.LoadInt64(&bufV4)))
	c.Count("buffered_v6", int(atomic.LoadInt64(&bufV6)))
	if unsettled {
		c.Inconclusive("a source did not become idle within 60 s outside a pause (starved machine or stuck capture); log tail: %s", tail(rig.Log.String(), 400))
		return
	}
	// final flush so that everything is comparable in one place
	mem := rig.FlowMaps()
	overflow := rig.Log.Contains("local packet buffer overflow")
	if overflow {
		c.Count("overflow_reported", 1)
	}
	for _, i := range ifaces {
		stored, err := capx.ReadDB(dbPath, i)
		if err != nil && len(stored) == 0 {
			// an interface that never saw a write-out has no directory yet
			stored = map[int64][]gen.Flow{}
		}
		merged := map[string]gen.Flow{}
		add := func(f gen.Flow) {
			k := f.KeyString()
			m, ok := merged[k]
			if !ok {
				merged[k] = f
				return
			}
			m.BR += f.BR
			m.BS += f.BS
			m.PR += f.PR
			m.PS += f.PS
			merged[k] = m
		}
		for _, fl := range stored {
			for _, f := range fl {
				add(f)
			}
		}
		for _, f := range mem[i] {
			add(f)
		}
		var obs []gen.Flow
		for _, f := range merged {
			obs = append(obs, f)
		}
		mm := capx.CompareInterval(all[i], obs, scripts[i].Convs, capx.DecisivePairs(scripts[i].Convs))
		for _, m := range mm {
			if overflow && (len(m.Clause) >= 12 && m.Clause[:12] == "traffic_lost" || m.Clause == "decisive_record_missing" || m.Clause == "decisive_record_counters") {
				c.Count("loss_tolerated_after_reported_overflow", 1)
				continue
			}
			mode := "scheduled"
			if free {
				mode = "free_running"
			}
			c.Violatef(m.Clause+"|"+mode, "iface %s after %d delivered packets (%s, buffer limit %d, overflow reported: %v): %s", i, pos[i], mode, opts.BufferSize, overflow, m.Detail)
		}
	}
	c.Sample(map[string]any{"ifaces": ifaces, "free_running": free, "buffer_limit": opts.BufferSize, "delivered": pos, "buffered_v4": bufV4, "buffered_v6": bufV6})
}

func tail(s string, n int) string {
	if len(s) > n {
		return s[len(s)-n:]
	}
	return s
}
