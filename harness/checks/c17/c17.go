// Package c17: query arguments, prepared statements and results survive JSON round trips; every
// enumeration value maps to its name and back.
//
// Values are generated here, encoded by encoding/json and by jsoniter (the encoder goProbe itself uses),
// both through a pointer and by value, decoded by either library into a fresh zero value and compared with a
// reflection based equivalence written for this check (times by instant, nil == empty for slices/maps,
// unexported fields and interface-typed fields (Statement.Output) ignored).
package c17

import (
	"encoding/json"
	"fmt"
	"math"
	"math/rand"
	"net/netip"
	"reflect"
	"strings"
	"sync"
	"time"
	_ "time/tzdata"

	"github.com/els0r/goProbe/v4/pkg/query"
	"github.com/els0r/goProbe/v4/pkg/results"
	"github.com/els0r/goProbe/v4/pkg/types"
	"github.com/els0r/goProbe/v4/pkg/types/workload"
	jsoniter "github.com/json-iterator/go"
	"verifharness/eng"
	"verifharness/fw"
	"verifharness/gen"
	"verifharness/resgen"
)

func init() {
	fw.Register(&fw.Check{
		ID:    "C17",
		Level: "exploration",
		Rule: "case 0.. : every member of types.Direction and results.SortOrder through String/FromString and through JSON (exhaustive, repeated in every case); then N generated values each of query.Args (every field random incl. unicode/escape-heavy strings, uint64 beyond 2^53, negative durations), " +
			"query.Statement (produced by the real Args.Prepare from valid arguments: all query-type shapes, interface lists, generated conditions, in/out/sum, sort_by, time_resolution, limits; plus direct assignment of every Direction/SortOrder member) and " +
			"results.Result (0-10 rows with v4/v6/v4-mapped/absent addresses, time labels in 5 zone representations, with nanoseconds and absent, counters up to MaxUint64, all status codes, host statuses, stats present/absent, timings with monotonic clock readings), " +
			"each through {encoding/json, jsoniter} x {encode via pointer, encode by value} x {decode with encoding/json, jsoniter}. A value is non-trivial iff it is not the zero value of its type; distinct by its JSON text.",
		Assumptions: []string{
			"equivalence: time.Time by instant; nil and empty slices/maps are equivalent; unexported fields (Result.err, Statement.attributes) and the io.Writer Statement.Output are not part of the value",
			"strings are valid UTF-8 (JSON cannot carry anything else)",
			"timestamps lie in years 1..9999 (JSON/RFC 3339 cannot carry others)",
		},
		NumCases: func(tier, variant string) int {
			if tier == "thorough" {
				return 800
			}
			return 64
		},
		Run: run,
		Require: []string{"enum_members", "args_values", "statement_values", "result_values", "roundtrips", "roundtrips_by_value", "roundtrips_cross_library",
			"rows_with_time_label", "rows_time_label_other_zone", "rows_v6", "rows_v4", "rows_counter_above_2_53", "statements_direction_both", "statements_time_binned", "results_with_stats"},
	})
}

// ---- equivalence ----------------------------------------------------------------------------------

var (
	timeType  = reflect.TypeOf(time.Time{})
	addrType  = reflect.TypeOf(netip.Addr{})
	mutexType = reflect.TypeOf(sync.RWMutex{})
)

// equiv returns "" if a and b are equivalent, else the path and values of the first difference.
func equiv(a, b reflect.Value, path string) string {
	if a.Type() != b.Type() {
		return fmt.Sprintf("%s: types %s vs %s", path, a.Type(), b.Type())
	}
	switch a.Type() {
	case timeType:
		ta, tb := a.Interface().(time.Time), b.Interface().(time.Time)
		if !ta.Equal(tb) {
			return fmt.Sprintf("%s: instant %s vs %s", path, ta.Format(time.RFC3339Nano), tb.Format(time.RFC3339Nano))
		}
		return ""
	case addrType:
		if a.Interface().(netip.Addr) != b.Interface().(netip.Addr) {
			return fmt.Sprintf("%s: address %v vs %v", path, a.Interface(), b.Interface())
		}
		return ""
	case mutexType:
		return ""
	}
	switch a.Kind() {
	case reflect.Struct:
		for i := 0; i < a.NumField(); i++ {
			f := a.Type().Field(i)
			if !f.IsExported() {
				continue
			}
			if d := equiv(a.Field(i), b.Field(i), path+"."+f.Name); d != "" {
				return d
			}
		}
		return ""
	case reflect.Slice:
		if a.Len() != b.Len() {
			return fmt.Sprintf("%s: length %d vs %d", path, a.Len(), b.Len())
		}
		for i := 0; i < a.Len(); i++ {
			if d := equiv(a.Index(i), b.Index(i), fmt.Sprintf("%s[%d]", path, i)); d != "" {
				return d
			}
		}
		return ""
	case reflect.Map:
		if a.Len() != b.Len() {
			return fmt.Sprintf("%s: map size %d vs %d", path, a.Len(), b.Len())
		}
		for _, k := range a.MapKeys() {
			bv := b.MapIndex(k)
			if !bv.IsValid() {
				return fmt.Sprintf("%s[%v]: missing after round trip", path, k)
			}
			if d := equiv(a.MapIndex(k), bv, fmt.Sprintf("%s[%v]", path, k)); d != "" {
				return d
			}
		}
		return ""
	case reflect.Ptr:
		if a.IsNil() != b.IsNil() {
			return fmt.Sprintf("%s: nil %v vs nil %v", path, a.IsNil(), b.IsNil())
		}
		if a.IsNil() {
			return ""
		}
		return equiv(a.Elem(), b.Elem(), path)
	case reflect.Interface:
		return ""
	case reflect.String:
		if a.String() != b.String() {
			return fmt.Sprintf("%s: %q vs %q", path, a.String(), b.String())
		}
	case reflect.Bool:
		if a.Bool() != b.Bool() {
			return fmt.Sprintf("%s: %v vs %v", path, a.Bool(), b.Bool())
		}
	case reflect.Int, reflect.Int8, reflect.Int16, reflect.Int32, reflect.Int64:
		if a.Int() != b.Int() {
			return fmt.Sprintf("%s: %v vs %v", path, a.Interface(), b.Interface())
		}
	case reflect.Uint, reflect.Uint8, reflect.Uint16, reflect.Uint32, reflect.Uint64:
		if a.Uint() != b.Uint() {
			return fmt.Sprintf("%s: %v vs %v", path, a.Interface(), b.Interface())
		}
	default:
		return fmt.Sprintf("%s: unsupported kind %s in equivalence", path, a.Kind())
	}
	return ""
}

// pathClass strips indices from a difference path: "Rows[3].Labels.Timestamp" -> "Rows.Labels.Timestamp".
func pathClass(diff string) string {
	p, _, _ := strings.Cut(diff, ":")
	var sb strings.Builder
	depth := 0
	for _, r := range p {
		switch {
		case r == '[':
			depth++
		case r == ']':
			depth--
		case depth == 0:
			sb.WriteRune(r)
		}
	}
	return sb.String()
}

// ---- codecs -----------------------------------------------------------------------------------------

type codec struct {
	name      string
	marshal   func(any) ([]byte, error)
	unmarshal func([]byte, any) error
}

var codecs = []codec{
	{"encoding/json", json.Marshal, json.Unmarshal},
	{"jsoniter", jsoniter.Marshal, jsoniter.Unmarshal},
}

// violate records a violation once per signature and case (the framework keeps at most 20 per case).
var seenSig = map[string]bool{}

func violate(c *fw.Case, sig, format string, args ...any) {
	if seenSig[sig] {
		c.Count("violations_repeated_signature", 1)
		return
	}
	seenSig[sig] = true
	c.Violatef(sig, format, args...)
}

// roundTrips sends the value *ptr (ptr is a pointer to T) through all encoder/decoder/mode combinations.
func roundTrips[T any](c *fw.Case, kind string, ptr *T) (firstJSON string) {
	c.Note("JSON round trips of %s %+v", kind, *ptr)
	for _, enc := range codecs {
		for _, byValue := range []bool{false, true} {
			mode := "pointer"
			var b []byte
			var err error
			if byValue {
				mode = "value"
				b, err = enc.marshal(*ptr)
			} else {
				b, err = enc.marshal(ptr)
			}
			if err != nil {
				violate(c, "encode_error|"+kind+"|"+mode, "%s.Marshal(%s %s) of %+v failed: %v", enc.name, kind, mode, *ptr, err)
				continue
			}
			if firstJSON == "" {
				firstJSON = string(b)
			}
			for _, dec := range codecs {
				var got T
				c.Count("roundtrips", 1)
				if byValue {
					c.Count("roundtrips_by_value", 1)
				}
				if enc.name != dec.name {
					c.Count("roundtrips_cross_library", 1)
				}
				if err := dec.unmarshal(b, &got); err != nil {
					violate(c, "decode_error|"+kind+"|encoded_via_"+mode, "%s: encoded with %s (%s) to %s ; %s.Unmarshal failed: %v", kind, enc.name, mode, clip(string(b)), dec.name, err)
					continue
				}
				if d := equiv(reflect.ValueOf(*ptr), reflect.ValueOf(got), kind); d != "" {
					violate(c, "not_equivalent|"+pathClass(d), "%s: %s (original vs decoded); encoded with %s (%s) to %s, decoded with %s", kind, d, enc.name, mode, clip(string(b)), dec.name)
				}
			}
		}
	}
	return firstJSON
}

func clip(s string) string {
	if len(s) > 1200 {
		return s[:1200] + "…"
	}
	return s
}

// ---- enumerations -----------------------------------------------------------------------------------

func checkEnums(c *fw.Case) {
	dirs := []types.Direction{types.DirectionUnknown, types.DirectionSum, types.DirectionIn, types.DirectionOut, types.DirectionBoth}
	names := map[string]types.Direction{}
	for _, d := range dirs {
		c.Count("enum_members", 1)
		name := d.String()
		if prev, dup := names[name]; dup {
			violate(c, "enum_name_not_unique|Direction", "Direction %d and %d share the name %q", prev, d, name)
		}
		names[name] = d
		if back := types.DirectionFromString(name); back != d {
			violate(c, "enum_name_roundtrip|Direction", "Direction %d has name %q, DirectionFromString(%q) = %d (%q)", d, name, name, back, back.String())
		}
		v := d
		roundTrips(c, "Direction", &v)
		type holder struct {
			D types.Direction `json:"direction"`
		}
		h := holder{d}
		roundTrips(c, "struct{Direction}", &h)
	}
	sorts := []results.SortOrder{results.SortUnknown, results.SortPackets, results.SortTraffic, results.SortTime}
	snames := map[string]results.SortOrder{}
	for _, s := range sorts {
		c.Count("enum_members", 1)
		name := s.String()
		if prev, dup := snames[name]; dup {
			violate(c, "enum_name_not_unique|SortOrder", "SortOrder %d and %d share the name %q", prev, s, name)
		}
		snames[name] = s
		if back := results.SortOrderFromString(name); back != s {
			violate(c, "enum_name_roundtrip|SortOrder", "SortOrder %d has name %q, SortOrderFromString(%q) = %d (%q)", s, name, name, back, back.String())
		}
		v := s
		roundTrips(c, "SortOrder", &v)
		type holder struct {
			S results.SortOrder `json:"sort_by"`
		}
		h := holder{s}
		roundTrips(c, "struct{SortOrder}", &h)
	}
}

// ---- generators -------------------------------------------------------------------------------------

var stringPool = []string{"", "eth0", "eth0,eth1", "any", "hostA", "hostA,hostB", "sip,dip", "raw", "time,iface,sip", "talk_conv", "dport = 80 & proto = tcp",
	"sip = 10.0.0.1 | (dnet = 2001:db8::/32 & !(dport < 1024))", "-24h", "2020-08-12T09:47:00+02:00", "1700000000", "5m", "auto", "json", "txt", "csv", "bytes", "packets", "time",
	"goQuery", "with \"quotes\" and \\backslash\\", "<script>&amp;</script>", "tab\there\nnewline", "ünïcødé ✓ 日本語", "  ", "\x00\x01\x1f", "/eth[0-3]/", "string", " leading and trailing "}

func randString(r *rand.Rand) string {
	if r.Intn(8) == 0 {
		n := r.Intn(12)
		rs := make([]rune, n)
		alphabet := []rune("abcXYZ019 ,;:=&|!()<>\"'\\/äé✓\t")
		for i := range rs {
			rs[i] = alphabet[r.Intn(len(alphabet))]
		}
		return string(rs)
	}
	return stringPool[r.Intn(len(stringPool))]
}

func randUint64(r *rand.Rand) uint64 {
	switch r.Intn(7) {
	case 0:
		return 0
	case 1:
		return uint64(r.Intn(2000))
	case 2:
		return 1<<53 + uint64(r.Intn(1000)) // beyond float64 integer precision
	case 3:
		return math.MaxUint64 - uint64(r.Intn(3))
	case 4:
		return math.MaxInt64 + uint64(r.Intn(3))
	default:
		return r.Uint64() >> uint(r.Intn(64))
	}
}

func randDuration(r *rand.Rand) time.Duration {
	switch r.Intn(5) {
	case 0:
		return 0
	case 1:
		return time.Duration(r.Intn(5000)) * time.Millisecond
	case 2:
		return -time.Duration(r.Int63n(int64(time.Hour)))
	case 3:
		return time.Duration(math.MaxInt64 - r.Int63n(5))
	default:
		return time.Duration(r.Int63n(int64(400 * 24 * time.Hour)))
	}
}

func randArgs(r *rand.Rand) *query.Args {
	var a *query.Args
	if r.Intn(3) == 0 {
		a = query.NewArgs(randString(r), randString(r)) // defaults set
	} else {
		a = &query.Args{Query: randString(r), Ifaces: randString(r)}
	}
	rs := func(dst *string) {
		if r.Intn(2) == 0 {
			*dst = randString(r)
		}
	}
	rb := func(dst *bool) { *dst = r.Intn(2) == 0 }
	rs(&a.QueryHosts)
	rs(&a.QueryHostsResolverType)
	rs(&a.Hostname)
	if r.Intn(2) == 0 {
		a.HostID = uint(randUint64(r))
	}
	rs(&a.Condition)
	rb(&a.In)
	rb(&a.Out)
	rb(&a.Sum)
	rs(&a.First)
	rs(&a.Last)
	rs(&a.TimeResolution)
	rs(&a.Format)
	rs(&a.SortBy)
	if r.Intn(2) == 0 {
		a.NumResults = randUint64(r)
	}
	rb(&a.SortAscending)
	rb(&a.List)
	rb(&a.Version)
	if r.Intn(2) == 0 {
		a.DNSResolution = query.DNSResolution{Enabled: r.Intn(2) == 0, Timeout: randDuration(r), MaxRows: r.Intn(100) - 10}
	}
	if r.Intn(2) == 0 {
		a.MaxMemPct = r.Intn(300) - 100
	}
	rb(&a.LowMem)
	if r.Intn(2) == 0 {
		a.KeepAlive = randDuration(r)
	}
	rs(&a.Caller)
	rb(&a.Live)
	return a
}

var queryTypes = []string{"sip", "dip", "sip,dip", "sip,dip,dport,proto", "dport,proto", "proto", "raw", "talk_conv", "talk_src", "talk_dst", "apps_port", "agg_talk_port",
	"time", "time,sip", "time,iface,dport", "iface,sip", "hostname,sip", "hostid,dip", "time,iface,hostname,hostid,sip,dip,dport,proto"}

// randStatement prepares a statement through the real Args.Prepare from valid arguments.
func randStatement(c *fw.Case, r *rand.Rand) *query.Statement {
	a := query.NewArgs(queryTypes[r.Intn(len(queryTypes))], []string{"eth0", "eth0,eth1", "any", "eth1,wan0,lo", "/eth[0-3]/", "eth0,!eth1"}[r.Intn(6)])
	first := 1_000_080_000 + r.Int63n(700_000_000)
	a.First = fmt.Sprint(first)
	if r.Intn(4) != 0 {
		a.Last = fmt.Sprint(first + r.Int63n(400*86400))
	}
	a.Format = []string{"json", "txt", "csv"}[r.Intn(3)]
	a.SortBy = []string{"bytes", "packets", "time"}[r.Intn(3)]
	a.SortAscending = r.Intn(2) == 0
	a.In, a.Out, a.Sum = r.Intn(2) == 0, r.Intn(2) == 0, r.Intn(4) == 0
	a.NumResults = 1 + randUint64(r)%math.MaxUint32
	a.TimeResolution = []string{"", "", "auto", "5m", "10m", "1h", "24h", "900s"}[r.Intn(8)]
	if r.Intn(2) == 0 {
		a.Condition = gen.RandCond(r, gen.CondOpts{MaxDepth: 1 + r.Intn(3), Sugar: true}).Render(gen.PlainStyle)
	}
	a.LowMem = r.Intn(2) == 0
	a.MaxMemPct = 1 + r.Intn(100)
	if r.Intn(2) == 0 {
		a.KeepAlive = time.Duration(1+r.Intn(5000)) * time.Millisecond
	}
	a.Caller = randString(r)
	a.Live = a.Last == "" && r.Intn(2) == 0
	if a.Last == "" {
		a.Last = fmt.Sprint(types.MaxTime.Unix())
	}
	c.Note("Args.Prepare(%s)", a.ToJSONString())
	stmt, err := a.Prepare()
	if err != nil {
		// generated conditions may hit parser limitations that belong to other properties (C10)
		c.Count("prepare_rejected", 1)
		return nil
	}
	// fields Prepare leaves alone / the remaining enumeration members
	if r.Intn(3) == 0 {
		stmt.Direction = []types.Direction{types.DirectionUnknown, types.DirectionSum, types.DirectionIn, types.DirectionOut, types.DirectionBoth}[r.Intn(5)]
	}
	if r.Intn(3) == 0 {
		stmt.SortBy = []results.SortOrder{results.SortUnknown, results.SortPackets, results.SortTraffic, results.SortTime}[r.Intn(4)]
	}
	if r.Intn(3) == 0 {
		stmt.DNSResolution = query.DNSResolution{Enabled: r.Intn(2) == 0, Timeout: randDuration(r), MaxRows: r.Intn(100)}
	}
	if r.Intn(4) == 0 {
		stmt.LabelSelector = types.LabelSelector{Timestamp: r.Intn(2) == 0, Iface: r.Intn(2) == 0, Hostname: r.Intn(2) == 0, HostID: r.Intn(2) == 0}
	}
	return stmt
}

func randTime(r *rand.Rand) time.Time {
	switch r.Intn(10) {
	case 0:
		return time.Time{}
	case 1:
		return time.Now() // carries a monotonic clock reading and nanoseconds
	case 2:
		return time.Unix(r.Int63n(4_000_000_000), r.Int63n(1_000_000_000)).In(resgenZone(r))
	case 3:
		return time.Date(1+r.Intn(9999), time.Month(1+r.Intn(12)), 1+r.Intn(28), r.Intn(24), r.Intn(60), r.Intn(60), 0, time.UTC)
	default:
		return time.Unix(1_000_080_000+300*r.Int63n(3_000_000), 0).In(resgenZone(r))
	}
}

func resgenZone(r *rand.Rand) *time.Location {
	z := resgen.Zones[r.Intn(len(resgen.Zones))]
	if z == nil {
		return time.Local
	}
	return z
}

func validJSONTime(t time.Time) time.Time {
	if y := t.Year(); y < 1 || y > 9999 {
		return time.Date(9999, 12, 31, 23, 59, 59, 0, time.UTC)
	}
	return t
}

var statusCodes = []types.Status{types.StatusOK, types.StatusEmpty, types.StatusError, types.StatusMissingData, types.StatusTooManyRequests}

func randResult(c *fw.Case, r *rand.Rand) *results.Result {
	var res *results.Result
	switch r.Intn(3) {
	case 0:
		res = &results.Result{}
	case 1:
		res = results.New()
	default:
		res = results.New()
		res.Start()
	}
	if r.Intn(2) == 0 {
		res.Hostname = randString(r)
	}
	res.Status = results.Status{Code: statusCodes[r.Intn(len(statusCodes))]}
	if r.Intn(2) == 0 {
		res.Status.Message = randString(r)
	}
	nh := r.Intn(4)
	for i := 0; i < nh; i++ {
		if res.HostsStatuses == nil {
			res.HostsStatuses = results.HostsStatuses{}
		}
		res.HostsStatuses[[]string{"hostA", "hostB", "", "höst ✓"}[r.Intn(4)]] = results.Status{Code: statusCodes[r.Intn(len(statusCodes))], Message: randString(r)}
	}
	if r.Intn(8) == 0 {
		res.SetErr(fmt.Errorf("some error: %s", randString(r)))
	}
	ni := r.Intn(4)
	for i := 0; i < ni; i++ {
		res.Summary.Interfaces = append(res.Summary.Interfaces, resgen.Ifaces[r.Intn(len(resgen.Ifaces))])
	}
	if r.Intn(6) == 0 {
		res.Summary.Interfaces = results.Interfaces{}
	}
	res.Summary.First = validJSONTime(randTime(r))
	res.Summary.Last = validJSONTime(randTime(r))
	res.Summary.Totals = randCounters(r)
	if r.Intn(2) == 0 {
		res.Summary.Timings = results.Timings{QueryStart: validJSONTime(randTime(r)), QueryDuration: randDuration(r), ResolutionDuration: randDuration(r)}
	}
	res.Summary.Hits = results.Hits{Displayed: r.Intn(1000), Total: r.Intn(1 << 30)}
	res.Summary.DataAvailable = r.Intn(2) == 0
	switch r.Intn(3) {
	case 0:
		res.Summary.Stats = nil
	case 1:
		res.Summary.Stats = &workload.Stats{BytesLoaded: randUint64(r), BytesDecompressed: randUint64(r), BlocksProcessed: randUint64(r), BlocksCorrupted: randUint64(r), DirectoriesProcessed: randUint64(r), Workloads: randUint64(r)}
	}
	if res.Summary.Stats != nil {
		c.Count("results_with_stats", 1)
	}
	na := r.Intn(5)
	for i := 0; i < na; i++ {
		res.Query.Attributes = append(res.Query.Attributes, []string{"sip", "dip", "dport", "proto", "time", "iface"}[r.Intn(6)])
	}
	if r.Intn(2) == 0 {
		res.Query.Condition = randString(r)
	}
	nr := r.Intn(11)
	ao := resgen.RandAttrOpts(r)
	for i := 0; i < nr; i++ {
		h := resgen.Hosts[r.Intn(len(resgen.Hosts))]
		row := results.Row{Labels: results.Labels{Iface: resgen.Ifaces[r.Intn(len(resgen.Ifaces))], Hostname: h, HostID: resgen.HostID(h)}, Attributes: resgen.RandAttrs(r, ao), Counters: randCounters(r)}
		if r.Intn(4) != 0 {
			row.Labels.Timestamp = validJSONTime(randTime(r))
		}
		if !row.Labels.Timestamp.IsZero() {
			c.Count("rows_with_time_label", 1)
			if row.Labels.Timestamp.Location() != time.Local {
				c.Count("rows_time_label_other_zone", 1)
			}
		}
		for _, a := range []netip.Addr{row.Attributes.SrcIP, row.Attributes.DstIP} {
			if a.IsValid() {
				if a.Is4() {
					c.Count("rows_v4", 1)
				} else {
					c.Count("rows_v6", 1)
				}
			}
		}
		if row.Counters.BytesRcvd > 1<<53 || row.Counters.BytesSent > 1<<53 || row.Counters.PacketsRcvd > 1<<53 || row.Counters.PacketsSent > 1<<53 {
			c.Count("rows_counter_above_2_53", 1)
		}
		res.Rows = append(res.Rows, row)
	}
	if r.Intn(6) == 0 && res.Rows == nil {
		res.Rows = results.Rows{}
	}
	return res
}

func randCounters(r *rand.Rand) types.Counters {
	return types.Counters{BytesRcvd: randUint64(r), BytesSent: randUint64(r), PacketsRcvd: randUint64(r), PacketsSent: randUint64(r)}
}

func run(c *fw.Case) {
	r := c.Rng
	eng.QuietLogs(nil)
	zones := []string{"UTC", "Europe/Zurich", "America/Los_Angeles", "Asia/Tehran", "Australia/Lord_Howe"}
	if loc, err := time.LoadLocation(zones[c.Idx%len(zones)]); err == nil {
		time.Local = loc
	}
	seenSig = map[string]bool{}
	t0 := time.Now()
	defer func() { c.Logf("timing (informational): %s", time.Since(t0)) }()
	checkEnums(c)
	n := 80
	if c.Tier == "thorough" {
		n = 420
	}
	for i := 0; i < n; i++ {
		a := randArgs(r)
		js := roundTrips(c, "Args", a)
		c.Count("args_values", 1)
		if !reflect.DeepEqual(*a, query.Args{}) {
			c.Nontrivial("A" + js)
		}

		if stmt := randStatement(c, r); stmt != nil {
			js := roundTrips(c, "Statement", stmt)
			c.Count("statement_values", 1)
			c.Nontrivial("S" + js)
			if stmt.Direction == types.DirectionBoth {
				c.Count("statements_direction_both", 1)
			}
			if stmt.TimeBinSize > 5*time.Minute {
				c.Count("statements_time_binned", 1)
			}
			if i == 0 {
				c.Sample(map[string]any{"statement_json": js})
			}
		}

		res := randResult(c, r)
		js = roundTrips(c, "Result", res)
		c.Count("result_values", 1)
		if len(res.Rows) > 0 {
			c.Nontrivial("R" + js)
		}
	}
}
