// Package c26: CSV import stores exactly the rows it reports as imported.
//
// The real csvimport.Import is run on generated CSV files. The oracle is an independent reference
// import: every generated row is created together with its ground truth (valid? interface, timestamp,
// flow key, counters), so the oracle never parses text and shares no code with goProbe's string
// parsers. The destination database is then read back through the real query engine
// (`time,iface,<schema attributes>`) and compared with the aggregation of the valid rows
// (counters summed over rows sharing interface, timestamp and key).
package c26

import (
	"context"
	"fmt"
	"math/rand"
	"net/netip"
	"os"
	"path/filepath"
	"sort"
	"strconv"
	"strings"

	"github.com/els0r/goProbe/v4/cmd/gpdb/pkg/csvimport"
	"github.com/els0r/goProbe/v4/pkg/goDB/encoder/encoders"
	"verifharness/eng"
	"verifharness/fw"
	"verifharness/gen"
	"verifharness/ref"
)

func init() {
	fw.Register(&fw.Check{
		ID:    "C26",
		Level: "exploration",
		Rule: "case = one seeded CSV file (schema via header row or option, with/without iface column, shuffled columns, attribute/counter subsets, junk columns; rows over 1-6 " +
			"non-decreasing timestamps spanning up to several days, small address/port/proto alphabets so keys collide, IPv4/IPv6/alternative textual forms, protocol names; " +
			"clearly malformed rows of 14 kinds; optional time regression; optional max-rows) imported by the real csvimport.Import and read back through the real query engine. " +
			"Oracle = ground truth carried by the generator. A case is non-trivial iff at least one row is imported and the file contains a duplicate key, a malformed row, both IP families or a regression; distinct by file content.",
		Assumptions: []string{
			"timestamps >= 1000080000 (10-digit day directories)",
			"rows are either clearly valid or clearly malformed (no '+5', no zero/negative times, no IPv4-mapped IPv6 text, no padded fields)",
			"on a rejected (time-regressing) input only the rejection itself is checked, not what was stored before it",
			"the query engine is trusted for unconditioned full-range queries (checked by C08)",
		},
		NumCases: func(tier, variant string) int {
			if tier == "thorough" {
				return 12000
			}
			return 600
		},
		Run:     run,
		Require: []string{"imports_ok", "rows_imported", "rows_malformed", "files_with_duplicate_keys", "files_rejected_regression", "files_v6", "files_maxrows", "files_iface_column", "files_iface_option", "files_header_schema", "files_option_schema", "rows_checked_by_query"},
	})
}

// column kinds
const (
	colTime  = "time"
	colIface = "iface"
	colSIP   = "sip"
	colDIP   = "dip"
	colDport = "dport"
	colProto = "proto"
	colPR    = "packets received"
	colPS    = "packets sent"
	colBR    = "data vol. received"
	colBS    = "data vol. sent"
)

// Row is one generated data row with its ground truth.
type Row struct {
	Fields []string
	Valid  bool
	Kind   string // feature class: "plain", "dup", or the malformation kind
	Iface  string
	TS     int64
	Flow   gen.Flow // only the schema's attributes/counters are set
}

// File is a generated CSV file.
type File struct {
	Cols        []string // column names in file order ("" and junk names allowed)
	HeaderText  string   // schema text (as header row or option)
	SchemaInOpt bool
	IfaceOpt    string // interface option ("" if the schema has an iface column)
	MaxRows     int
	Rows        []Row
	Text        string // complete file content
	Regression  int    // index of the first row that goes backwards in time (-1 = none)
	Attrs       []string
	Features    map[string]bool

	altV6, dottedV6 bool
}

var ifaceAlphabet = []string{"eth0", "eth1", "br-lan", "wg0.100"}

func has(list []string, s string) bool {
	for _, x := range list {
		if x == s {
			return true
		}
	}
	return false
}

// v6Text renders an IPv6 address in one of several valid textual forms. The alternative forms are
// file-level features (f.altV6: expanded / upper case; f.dottedV6: RFC 4291 section 2.2 form 3 with the low
// 32 bits in dotted-decimal notation).
func v6Text(r *rand.Rand, a netip.Addr, f *File) string {
	if f.altV6 {
		switch r.Intn(4) {
		case 0:
			f.Features["v6_expanded"] = true
			return a.StringExpanded()
		case 1:
			f.Features["v6_upper"] = true
			return strings.ToUpper(a.String())
		}
	}
	if f.dottedV6 && !a.Is4In6() && r.Intn(3) == 0 {
		b := a.As16()
		f.Features["v6_dotted_tail"] = true
		var sb strings.Builder
		for i := 0; i < 12; i += 2 {
			fmt.Fprintf(&sb, "%x:", uint16(b[i])<<8|uint16(b[i+1]))
		}
		fmt.Fprintf(&sb, "%d.%d.%d.%d", b[12], b[13], b[14], b[15])
		return sb.String()
	}
	return a.String()
}

var protoNames = map[uint8][]string{6: {"tcp", "TCP"}, 17: {"udp", "UDP"}, 1: {"icmp", "ICMP"}, 58: {"ipv6-icmp", "IPv6-ICMP"}}

// GenFile draws a CSV file.
func GenFile(r *rand.Rand, tier string) *File {
	f := &File{Regression: -1, Features: map[string]bool{}}
	// ---- schema
	cols := []string{colTime}
	withIface := r.Intn(2) == 0
	if withIface {
		cols = append(cols, colIface)
	} else {
		f.IfaceOpt = ifaceAlphabet[r.Intn(len(ifaceAlphabet))]
	}
	attrs := []string{colSIP, colDIP, colDport, colProto}
	if r.Intn(4) == 0 {
		perm := r.Perm(4)
		n := 1 + r.Intn(4)
		var sub []string
		for _, i := range perm[:n] {
			sub = append(sub, attrs[i])
		}
		attrs = sub
		f.Features["attr_subset"] = true
	}
	f.Attrs = attrs
	cols = append(cols, attrs...)
	ctrs := []string{colPR, colPS, colBR, colBS}
	if r.Intn(5) == 0 {
		perm := r.Perm(4)
		n := 1 + r.Intn(4)
		var sub []string
		for _, i := range perm[:n] {
			sub = append(sub, ctrs[i])
		}
		ctrs = sub
		f.Features["counter_subset"] = true
	}
	cols = append(cols, ctrs...)
	for j := r.Intn(3); j > 0; j-- {
		cols = append(cols, []string{"%", "host", "", "comment"}[r.Intn(4)])
		f.Features["junk_columns"] = true
	}
	if r.Intn(3) != 0 {
		r.Shuffle(len(cols), func(i, j int) { cols[i], cols[j] = cols[j], cols[i] })
		f.Features["shuffled_columns"] = true
	}
	f.Cols = cols
	hdr := make([]string, len(cols))
	copy(hdr, cols)
	if r.Intn(6) == 0 {
		for i := range hdr {
			switch r.Intn(3) {
			case 0:
				hdr[i] = strings.ToUpper(hdr[i])
			case 1:
				hdr[i] = " " + hdr[i]
			}
		}
		f.Features["header_case_space"] = true
	}
	f.HeaderText = strings.Join(hdr, ",")
	f.SchemaInOpt = r.Intn(2) == 0

	// index of the last column that carries a parsed field (rows shorter than that are malformed)
	lastParsed := 0
	for i, c := range cols {
		switch c {
		case "%", "host", "", "comment":
		default:
			lastParsed = i
		}
	}

	// ---- rows
	base := gen.DayStart(gen.MinTS) + 86400*int64(1+r.Intn(11000))
	ts := base + []int64{0, 300, 3600, 43200, 86100, 86399, int64(r.Intn(86400))}[r.Intn(7)]
	nTS := 1 + r.Intn(6)
	malformedProb := []float64{0, 0, 0.1, 0.25}[r.Intn(4)]
	fo := gen.FlowOpts{V6Prob: []float64{0, 0.4, 0.4, 1}[r.Intn(4)], ZeroProb: 0.03}
	wantRegression := r.Intn(6) == 0
	useMaxRows := !wantRegression && r.Intn(7) == 0
	f.altV6 = r.Intn(4) == 0
	f.dottedV6 = !wantRegression && r.Intn(15) == 0
	if useMaxRows {
		malformedProb = 0
	}
	maxPerTS := 8
	if tier == "thorough" && r.Intn(20) == 0 {
		maxPerTS = 60
	}
	type seenKey struct {
		iface string
		ts    int64
		key   string
	}
	seen := map[seenKey]bool{}
	var validTS []int64
	for t := 0; t < nTS; t++ {
		n := r.Intn(maxPerTS + 1)
		if t == 0 && n == 0 {
			n = 1
		}
		for i := 0; i < n; i++ {
			row := genRow(r, f, cols, lastParsed, ts, fo, malformedProb)
			if row.Valid {
				k := seenKey{row.Iface, row.TS, projKey(row.Flow, f.Attrs)}
				if seen[k] {
					row.Kind = "dup"
					f.Features["dup_keys"] = true
				}
				seen[k] = true
				validTS = append(validTS, row.TS)
			}
			f.Rows = append(f.Rows, row)
		}
		ts += []int64{1, 60, 300, 300, 300, 3600, 86400, 2 * 86400, 40 * 86400}[r.Intn(9)]
	}
	// ---- regression: insert a valid row whose time lies before an earlier valid row
	if wantRegression && len(validTS) > 0 {
		// position after at least one valid row
		pos := 1 + r.Intn(len(f.Rows))
		maxBefore := int64(-1)
		for _, rw := range f.Rows[:pos] {
			if rw.Valid && rw.TS > maxBefore {
				maxBefore = rw.TS
			}
		}
		if maxBefore >= 0 {
			back := []int64{1, 1, 300, 86400, int64(1 + r.Intn(5000))}[r.Intn(5)]
			row := genRow(r, f, cols, lastParsed, maxBefore-back, fo, 0)
			row.Kind = "regression"
			rows := append([]Row{}, f.Rows[:pos]...)
			rows = append(rows, row)
			rows = append(rows, f.Rows[pos:]...)
			f.Rows = rows
			f.Regression = pos
			f.Features["regression"] = true
		}
	}
	if useMaxRows && len(f.Rows) > 0 {
		f.MaxRows = 1 + r.Intn(len(f.Rows)+2)
		f.Features["maxrows"] = true
	}

	// ---- text
	eol := "\n"
	if r.Intn(5) == 0 {
		eol = "\r\n"
		f.Features["crlf"] = true
	}
	var sb strings.Builder
	if !f.SchemaInOpt {
		sb.WriteString(f.HeaderText + eol)
	}
	for i, rw := range f.Rows {
		if r.Intn(25) == 0 {
			sb.WriteString(eol) // blank line: not a record
			f.Features["blank_lines"] = true
		}
		sb.WriteString(strings.Join(rw.Fields, ","))
		if i < len(f.Rows)-1 || r.Intn(4) != 0 {
			sb.WriteString(eol)
		}
	}
	f.Text = sb.String()
	return f
}

func projKey(fl gen.Flow, attrs []string) string {
	var p []string
	for _, a := range attrs {
		switch a {
		case colSIP:
			p = append(p, fl.SIP.String())
		case colDIP:
			p = append(p, fl.DIP.String())
		case colDport:
			p = append(p, strconv.Itoa(int(fl.Dport)))
		case colProto:
			p = append(p, strconv.Itoa(int(fl.Proto)))
		}
	}
	return strings.Join(p, "|")
}

var malformKinds = []string{"bad_sip", "bad_dip", "mixed_family", "bad_dport", "dport_range", "bad_proto", "proto_range", "bad_time", "empty_time", "bad_counter", "negative_counter", "short_row", "empty_iface", "path_iface"}

// genRow draws one row at timestamp ts. With probability pMal it is made clearly malformed in exactly
// one way that the schema allows.
func genRow(r *rand.Rand, f *File, cols []string, lastParsed int, ts int64, fo gen.FlowOpts, pMal float64) Row {
	fl := gen.RandFlow(r, fo)
	// moderate counters so that sums over duplicates never wrap
	if r.Intn(8) == 0 {
		fl.BR = []uint64{0, 1, 255, 65536, 1 << 32, 1 << 40}[r.Intn(6)]
	}
	row := Row{Valid: true, Kind: "plain", TS: ts, Iface: f.IfaceOpt}
	if has(cols, colIface) {
		row.Iface = ifaceAlphabet[r.Intn(len(ifaceAlphabet))]
	}
	mal := ""
	if r.Float64() < pMal {
		// pick a kind applicable to this schema
		for tries := 0; tries < 20 && mal == ""; tries++ {
			k := malformKinds[r.Intn(len(malformKinds))]
			switch k {
			case "bad_sip":
				if has(cols, colSIP) {
					mal = k
				}
			case "bad_dip":
				if has(cols, colDIP) {
					mal = k
				}
			case "mixed_family":
				if has(cols, colSIP) && has(cols, colDIP) {
					mal = k
				}
			case "bad_dport", "dport_range":
				if has(cols, colDport) {
					mal = k
				}
			case "bad_proto", "proto_range":
				if has(cols, colProto) {
					mal = k
				}
			case "bad_counter", "negative_counter":
				mal = k // at least one counter column always exists
			case "empty_iface", "path_iface":
				if has(cols, colIface) {
					mal = k
				}
			case "short_row":
				if lastParsed > 0 {
					mal = k
				}
			default:
				mal = k
			}
		}
	}
	if mal == "mixed_family" {
		if fl.SIP.Is4() {
			fl.DIP = gen.V6Addrs[r.Intn(len(gen.V6Addrs))]
		} else {
			fl.DIP = gen.V4Addrs[r.Intn(len(gen.V4Addrs))]
		}
	}
	ctrCols := []string{}
	for _, c := range cols {
		switch c {
		case colPR, colPS, colBR, colBS:
			ctrCols = append(ctrCols, c)
		}
	}
	badCtr := ""
	if mal == "bad_counter" || mal == "negative_counter" {
		badCtr = ctrCols[r.Intn(len(ctrCols))]
	}
	ipText := func(a netip.Addr) string {
		if a.Is4() {
			return a.String()
		}
		return v6Text(r, a, f)
	}
	fields := make([]string, len(cols))
	for i, c := range cols {
		switch c {
		case colTime:
			fields[i] = strconv.FormatInt(ts, 10)
			switch mal {
			case "bad_time":
				fields[i] = []string{"abc", "12.5", "2024-01-01T00:00:00Z", "1e9", "0x5f5e100"}[r.Intn(5)]
			case "empty_time":
				fields[i] = ""
			}
		case colIface:
			fields[i] = row.Iface
			switch mal {
			case "empty_iface":
				fields[i] = ""
			case "path_iface":
				fields[i] = []string{"a/b", "..", ".", "../x"}[r.Intn(4)]
			}
		case colSIP:
			fields[i] = ipText(fl.SIP)
			if mal == "bad_sip" {
				fields[i] = []string{"10.0.0.256", "zz", "", "10.0.0", "2001:db8:::1", "10.0.0.1/24"}[r.Intn(6)]
			}
		case colDIP:
			fields[i] = ipText(fl.DIP)
			if mal == "bad_dip" {
				fields[i] = []string{"300.1.1.1", "host.example", "", "1.2.3.4.5", "fe80::g", "::1%eth0"}[r.Intn(6)]
			}
		case colDport:
			fields[i] = strconv.Itoa(int(fl.Dport))
			switch mal {
			case "bad_dport":
				fields[i] = []string{"http", "", "80.0", "0x50"}[r.Intn(4)]
			case "dport_range":
				fields[i] = []string{"65536", "-1", "100000"}[r.Intn(3)]
			}
		case colProto:
			fields[i] = strconv.Itoa(int(fl.Proto))
			if names, ok := protoNames[fl.Proto]; ok && r.Intn(3) == 0 {
				fields[i] = names[r.Intn(len(names))]
				f.Features["proto_names"] = true
			}
			switch mal {
			case "bad_proto":
				fields[i] = []string{"nonsense-proto", "", "6.0"}[r.Intn(3)]
			case "proto_range":
				fields[i] = []string{"256", "-1", "1000"}[r.Intn(3)]
			}
		case colPR, colPS, colBR, colBS:
			var v uint64
			switch c {
			case colPR:
				v = fl.PR
			case colPS:
				v = fl.PS
			case colBR:
				v = fl.BR
			case colBS:
				v = fl.BS
			}
			fields[i] = strconv.FormatUint(v, 10)
			if c == badCtr {
				if mal == "bad_counter" {
					fields[i] = []string{"x", "", "1.5", "1e3"}[r.Intn(4)]
				} else {
					fields[i] = []string{"-1", "-100"}[r.Intn(2)]
				}
			}
		default:
			fields[i] = []string{"", "12.50", "n/a", "x y"}[r.Intn(4)]
		}
	}
	// counters/attributes that are not in the schema are not part of the row
	if !has(cols, colSIP) {
		fl.SIP = netip.Addr{}
	}
	if !has(cols, colDIP) {
		fl.DIP = netip.Addr{}
	}
	if !has(cols, colDport) {
		fl.Dport = 0
	}
	if !has(cols, colProto) {
		fl.Proto = 0
	}
	if !has(cols, colPR) {
		fl.PR = 0
	}
	if !has(cols, colPS) {
		fl.PS = 0
	}
	if !has(cols, colBR) {
		fl.BR = 0
	}
	if !has(cols, colBS) {
		fl.BS = 0
	}
	switch {
	case mal == "short_row":
		// cut so that at least one parsed field is missing
		fields = fields[:r.Intn(lastParsed)+0]
		if len(fields) == 0 {
			fields = []string{"x"} // a record must have at least one field to be a CSV record at all
			if lastParsed == 0 {
				mal = ""
			}
		}
	case mal == "" && r.Intn(15) == 0:
		fields = append(fields, "extra", "fields")
		f.Features["long_rows"] = true
	case mal == "" && r.Intn(15) == 0:
		// valid CSV quoting of one field
		i := r.Intn(len(fields))
		fields[i] = `"` + fields[i] + `"`
		f.Features["quoted_fields"] = true
	}
	if mal != "" {
		row.Valid = false
		row.Kind = mal
		if strings.Join(fields, ",") == "" {
			fields = []string{"x"} // an empty line would not be a CSV record at all
		}
	}
	row.Fields = fields
	row.Flow = fl
	return row
}

// expected aggregates the valid rows of rows[:n].
func expected(f *File, n int) (want ref.Rows, nValid int, byKind map[string]int) {
	want = ref.Rows{}
	byKind = map[string]int{}
	for _, rw := range f.Rows[:n] {
		byKind[rw.Kind]++
		if !rw.Valid {
			continue
		}
		nValid++
		k := ref.RowKey{Iface: rw.Iface, TS: rw.TS}
		if has(f.Attrs, colSIP) {
			k.SIP = rw.Flow.SIP
		}
		if has(f.Attrs, colDIP) {
			k.DIP = rw.Flow.DIP
		}
		if has(f.Attrs, colDport) {
			k.Dport = rw.Flow.Dport
		}
		if has(f.Attrs, colProto) {
			k.Proto = rw.Flow.Proto
		}
		c := want[k]
		c.Add(ref.Ctr{BR: rw.Flow.BR, BS: rw.Flow.BS, PR: rw.Flow.PR, PS: rw.Flow.PS})
		want[k] = c
	}
	return
}

func featureList(f *File) []string {
	var out []string
	for k := range f.Features {
		out = append(out, k)
	}
	sort.Strings(out)
	return out
}

// diffFeature classifies a row difference by the property of the rows that differ.
func diffFeature(f *File, want, got ref.Rows) string {
	dupKeys := map[ref.RowKey]int{}
	for _, rw := range f.Rows {
		if !rw.Valid {
			continue
		}
		k := ref.RowKey{Iface: rw.Iface, TS: rw.TS}
		if has(f.Attrs, colSIP) {
			k.SIP = rw.Flow.SIP
		}
		if has(f.Attrs, colDIP) {
			k.DIP = rw.Flow.DIP
		}
		if has(f.Attrs, colDport) {
			k.Dport = rw.Flow.Dport
		}
		if has(f.Attrs, colProto) {
			k.Proto = rw.Flow.Proto
		}
		dupKeys[k]++
	}
	onlyDup := true
	n := 0
	for k, w := range want {
		if g, ok := got[k]; !ok || g != w {
			n++
			if dupKeys[k] < 2 {
				onlyDup = false
			}
		}
	}
	for k := range got {
		if _, ok := want[k]; !ok {
			n++
			onlyDup = false
		}
	}
	switch {
	case n > 0 && onlyDup:
		return "duplicate_keys"
	case f.Features["v6_dotted_tail"]:
		return "v6_dotted_tail"
	case f.Features["attr_subset"]:
		return "attr_subset"
	}
	return "other"
}

func run(c *fw.Case) {
	r := c.Rng
	f := GenFile(r, c.Tier)
	in := filepath.Join(c.Tmp, "in.csv")
	out := filepath.Join(c.Tmp, "db")
	if err := os.WriteFile(in, []byte(f.Text), 0o644); err != nil {
		c.Inconclusive("write csv: %v", err)
		return
	}
	enc := []encoders.Type{encoders.EncoderTypeLZ4, encoders.EncoderTypeLZ4, encoders.EncoderTypeZSTD, encoders.EncoderTypeNull}[r.Intn(4)]
	opts := csvimport.Options{InputPath: in, OutputPath: out, Interface: f.IfaceOpt, MaxRows: f.MaxRows, EncoderType: enc}
	if f.SchemaInOpt {
		opts.Schema = f.HeaderText
	}
	desc := fmt.Sprintf("schema=%q schema_in_option=%v iface_option=%q max_rows=%d rows=%d features=%v", f.HeaderText, f.SchemaInOpt, f.IfaceOpt, f.MaxRows, len(f.Rows), featureList(f))
	c.Note("import %s", desc)
	c.Sample(map[string]any{"options": desc, "csv": clip(f.Text, 1500)})
	sum, err := csvimport.Import(context.Background(), opts)
	c.Count("imports", 1)
	witness := func() string { return desc + "\n--- csv ---\n" + clip(f.Text, 2500) }

	// how many data rows are in play
	total := len(f.Rows)
	limit := total
	if f.MaxRows > 0 && f.MaxRows < total {
		limit = f.MaxRows
	}
	if f.MaxRows > 0 {
		c.Count("files_maxrows", 1)
	}
	if f.IfaceOpt == "" {
		c.Count("files_iface_column", 1)
	} else {
		c.Count("files_iface_option", 1)
	}
	if f.SchemaInOpt {
		c.Count("files_option_schema", 1)
	} else {
		c.Count("files_header_schema", 1)
	}
	for k := range f.Features {
		c.Count("feature_"+k, 1)
	}

	// ---- time regression must be rejected
	if f.Regression >= 0 && f.Regression < limit {
		if err == nil {
			rw := f.Rows[f.Regression]
			c.Violatef("regression_accepted", "row %d (%s) goes backwards in time but Import returned no error (summary %+v)\n%s", f.Regression+1, strings.Join(rw.Fields, ","), sum, witness())
			return
		}
		c.Count("files_rejected_regression", 1)
		c.Nontrivial("regression|" + f.Text + desc)
		return
	}
	if err != nil {
		c.Violatef("unexpected_error|"+errClass(err), "Import failed on an input that is ordered by time and syntactically valid CSV: %v\n%s", err, witness())
		return
	}
	c.Count("imports_ok", 1)

	want, nValid, byKind := expected(f, limit)
	nMal := limit - nValid
	c.Count("rows_read", sum.RowsRead)
	c.Count("rows_imported", sum.RowsImported)
	c.Count("rows_malformed", nMal)
	for k, n := range byKind {
		c.Count("rowkind_"+k, n)
	}

	// ---- accounting
	if sum.RowsRead != sum.RowsImported+sum.RowsSkipped {
		c.Violatef("counts_equation", "rows read %d != imported %d + skipped %d\n%s", sum.RowsRead, sum.RowsImported, sum.RowsSkipped, witness())
	}
	if sum.RowsRead != limit {
		c.Violatef("rows_read", "rows read %d, but the file has %d data rows (max rows %d)\n%s", sum.RowsRead, total, f.MaxRows, witness())
		return
	}
	if sum.RowsImported != nValid {
		// signature: direction of the mismatch; a malformed row that was imported is attributed to the
		// malformation kind when the file holds only one kind
		var kinds []string
		for k := range byKind {
			if k != "plain" && k != "dup" {
				kinds = append(kinds, k)
			}
		}
		cls := "valid_row_skipped"
		switch {
		case sum.RowsImported > nValid && len(kinds) == 1:
			cls = "malformed_row_imported|" + kinds[0]
		case sum.RowsImported > nValid:
			cls = "malformed_row_imported|several_kinds"
		case f.Features["v6_dotted_tail"]:
			cls = "valid_row_skipped|v6_dotted_tail"
		}
		c.Violatef("imported_count|"+cls, "imported %d rows, but %d of the %d rows read are valid (skipped %d)\n%s", sum.RowsImported, nValid, limit, sum.RowsSkipped, witness())
		return
	}

	// ---- stored content
	if len(want) == 0 {
		// nothing valid: nothing may have been stored
		if ents, _ := os.ReadDir(out); len(ents) > 0 {
			c.Violatef("stored_without_import", "no row was imported but the destination contains %d entries\n%s", len(ents), witness())
		}
		c.Count("files_nothing_valid", 1)
		return
	}
	first, last := int64(1<<62), int64(0)
	ifaces := map[string]bool{}
	for k := range want {
		if k.TS < first {
			first = k.TS
		}
		if k.TS > last {
			last = k.TS
		}
		ifaces[k.Iface] = true
	}
	var ifl []string
	for n := range ifaces {
		ifl = append(ifl, n)
	}
	sort.Strings(ifl)
	spec := ref.QuerySpec{Attrs: f.Attrs, Time: true, Ifaces: ifl, First: first - 1, Last: last + 1}
	qt := eng.QueryType(f.Attrs, true, true)
	ifArg := "any"
	if r.Intn(2) == 0 {
		ifArg = strings.Join(ifl, ",")
	}
	a := eng.Args(qt, ifArg, "", spec.First, spec.Last)
	c.Note("query %s ifaces=%s [%d,%d] after import %s", qt, ifArg, spec.First, spec.Last, desc)
	res, qerr, pmsg := eng.Run(out, a)
	if pmsg != "" {
		c.Violatef("query_panic", "query on the imported DB panicked: %s\n%s", pmsg, witness())
		return
	}
	if qerr != nil {
		c.Violatef("query_error", "query %q on the imported DB failed: %v\n%s", qt, qerr, witness())
		return
	}
	got, dup := ref.FromResult(res.Rows, spec)
	if dup != "" {
		c.Violatef("group_split", "two stored rows share the key %s\n%s", dup, witness())
	}
	if d := ref.Diff(want, got); d != "" {
		c.Violatef("rows|"+ref.DiffClass(want, got)+"|"+diffFeature(f, want, got), "stored rows differ from the accepted rows: %s\n%s", d, witness())
		return
	}
	c.Count("rows_checked_by_query", len(want))
	if f.Features["dup_keys"] {
		c.Count("files_with_duplicate_keys", 1)
	}
	v4, v6 := false, false
	for _, rw := range f.Rows[:limit] {
		if rw.Valid && (rw.Flow.SIP.IsValid() || rw.Flow.DIP.IsValid()) {
			if rw.Flow.SIP.Is4() || rw.Flow.DIP.Is4() {
				v4 = true
			} else {
				v6 = true
			}
		}
	}
	if v6 {
		c.Count("files_v6", 1)
	}
	if f.Features["dup_keys"] || nMal > 0 || (v4 && v6) {
		c.Nontrivial(f.Text + desc)
	}
}

func errClass(err error) string {
	s := err.Error()
	switch {
	case strings.Contains(s, "non-decreasing"):
		return "ordering"
	case strings.Contains(s, "failed to read CSV row"):
		return "csv_syntax"
	case strings.Contains(s, "schema"):
		return "schema"
	case strings.Contains(s, "failed to write block"):
		return "write_block"
	}
	return "other"
}

func clip(s string, n int) string {
	if len(s) > n {
		return s[:n] + "…"
	}
	return s
}
