package c24

import (
	"sort"
	"strconv"
	"strings"

	"verifharness/gen"
)

// Action is what the documented per-day plan does with one (interface, source day).
type Action string

const (
	ActCopy    Action = "copy"
	ActRebuild Action = "rebuild"
	ActSkip    Action = "skip"
)

// Counts are the reported summary counters.
type Counts struct {
	Interfaces, Copied, Rebuilt, Skipped, ConflictsDst, ConflictsSrc int
}

// Plan is the oracle's expectation for one merge.
type Plan struct {
	Counts  Counts
	After   Side              // expected destination content
	Actions map[string]Action // "iface/day" -> action
	Classes map[string]string // "iface/day" -> e.g. "src_complete,dst_partial"
	Sel     []string          // interfaces selected (present in the source)
	Unknown []string          // requested names that are not in the source
	SrcC    map[string]bool   // completeness of source days
}

// Complete is the completeness rule (DESIGN C24): a day is complete iff its first block lies within the
// tolerance of the day start and its last block plus one block interval reaches the day end minus the
// tolerance. The block interval is the distance of the last two blocks (300 s for a single block).
func Complete(blocks []gen.Block, day, tol int64) bool {
	n := len(blocks)
	if n == 0 {
		return false
	}
	first, last := blocks[0].TS, blocks[n-1].TS
	delta := int64(300)
	if n > 1 {
		delta = last - blocks[n-2].TS
	}
	dayEnd := day + 86400 - 1
	return first <= day+tol && last+delta >= dayEnd-tol
}

func key(iface string, day int64) string { return iface + "/" + strconv.FormatInt(day, 10) }

// MakePlan applies the documented rule:
//   - complete source day, destination lacks the day or overwrite requested -> copied
//   - complete vs. complete without overwrite                              -> kept (skipped)
//   - otherwise rebuilt block by block; on equal block timestamps the destination wins
//     (the source with overwrite)
//
// Days and interfaces the source does not hold, and interfaces that are not selected, stay as they are.
func MakePlan(src, dst Side, requested []string, overwrite bool, tol int64) Plan {
	pl := Plan{After: dst.Clone(), Actions: map[string]Action{}, Classes: map[string]string{}, SrcC: map[string]bool{}}
	if len(requested) == 0 {
		pl.Sel = src.Ifaces()
	} else {
		seen := map[string]bool{}
		for _, n := range requested {
			n = strings.TrimSpace(n)
			if n == "" || seen[n] {
				continue
			}
			seen[n] = true
			if _, ok := src[n]; ok {
				pl.Sel = append(pl.Sel, n)
			} else {
				pl.Unknown = append(pl.Unknown, n)
			}
		}
		sort.Strings(pl.Sel)
	}
	for _, ifc := range pl.Sel {
		days := src.Days(ifc)
		if len(days) == 0 {
			continue
		}
		pl.Counts.Interfaces++
		for _, day := range days {
			sb := src[ifc][day]
			db, hasDst := dst[ifc][day]
			sc := Complete(sb, day, tol)
			dc := hasDst && Complete(db, day, tol)
			k := key(ifc, day)
			pl.SrcC[k] = sc
			cls := "src_partial"
			if sc {
				cls = "src_complete"
			}
			switch {
			case !hasDst:
				cls += ",dst_missing"
			case dc:
				cls += ",dst_complete"
			default:
				cls += ",dst_partial"
			}
			if overwrite {
				cls += ",overwrite"
			}
			pl.Classes[k] = cls
			switch {
			case sc && (!hasDst || overwrite):
				pl.Actions[k] = ActCopy
				pl.Counts.Copied++
				if pl.After[ifc] == nil {
					pl.After[ifc] = map[int64][]gen.Block{}
				}
				pl.After[ifc][day] = append([]gen.Block(nil), sb...)
			case sc && dc:
				pl.Actions[k] = ActSkip
				pl.Counts.Skipped++
			default:
				pl.Actions[k] = ActRebuild
				pl.Counts.Rebuilt++
				merged := map[int64]gen.Block{}
				for _, b := range db {
					merged[b.TS] = b
				}
				for _, b := range sb {
					if _, conflict := merged[b.TS]; conflict {
						if overwrite {
							pl.Counts.ConflictsSrc++
							merged[b.TS] = b
						} else {
							pl.Counts.ConflictsDst++
						}
						continue
					}
					merged[b.TS] = b
				}
				var out []gen.Block
				for _, b := range merged {
					out = append(out, b)
				}
				sort.Slice(out, func(i, j int) bool { return out[i].TS < out[j].TS })
				if pl.After[ifc] == nil {
					pl.After[ifc] = map[int64][]gen.Block{}
				}
				pl.After[ifc][day] = out
			}
		}
	}
	return pl
}

// blockEqual compares two ground-truth blocks (flows as sets).
func blockEqual(a, b gen.Block) bool {
	if a.TS != b.TS || a.Drops != b.Drops || len(a.Flows) != len(b.Flows) {
		return false
	}
	m := map[string]gen.Flow{}
	for _, f := range a.Flows {
		m[f.KeyString()] = f
	}
	for _, f := range b.Flows {
		if g, ok := m[f.KeyString()]; !ok || g != f {
			return false
		}
	}
	return true
}

// SideEqual compares two sides logically.
func SideEqual(a, b Side) bool {
	if len(a) != len(b) {
		return false
	}
	for ifc, days := range a {
		bd, ok := b[ifc]
		if !ok || len(bd) != len(days) {
			return false
		}
		for d, bl := range days {
			bb, ok := bd[d]
			if !ok || len(bb) != len(bl) {
				return false
			}
			for i := range bl {
				if !blockEqual(bl[i], bb[i]) {
					return false
				}
			}
		}
	}
	return true
}
