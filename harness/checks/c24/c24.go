// Package c24: merging databases follows the documented per-day plan.
//
// Source and destination databases are generated as ground truth (Side), materialised by the production
// DBWriter, merged by the real goDB.MergeDatabases (directly or through the real `gpdb merge` command
// line), and the destination is then observed in two independent ways: through the real query engine
// (flow rows per interface / block timestamp) and through the day metadata (block timestamps, per-block
// flow/drop counters, day totals). Both are compared with the oracle's merge plan, which is computed on
// the ground truth only. Source tree, dry-run destination tree and the second (identical) merge are
// compared by content hashes / logical content.
package c24

import (
	"bytes"
	"context"
	"crypto/sha256"
	"encoding/hex"
	"fmt"
	"io/fs"
	"os"
	"os/exec"
	"path/filepath"
	"regexp"
	"sort"
	"strconv"
	"strings"

	"github.com/els0r/goProbe/v4/pkg/goDB"
	"github.com/els0r/goProbe/v4/pkg/goDB/encoder/encoders"
	"github.com/els0r/goProbe/v4/pkg/goDB/storage/gpfile"
	"verifharness/eng"
	"verifharness/fw"
	"verifharness/gen"
	"verifharness/ref"
)

func init() {
	fw.Register(&fw.Check{
		ID:    "C24",
		Level: "exploration",
		Rule: "case = one seeded (source, destination, options) triple: 1-3 source interfaces x up to 3 days (incl. a month change), day shapes {288-block, coarse complete grids with holes, " +
			"first/last block within +-1 s of the completeness boundary, partial head/tail/middle, single block, random off-grid}, destination absent/empty/populated with overlapping " +
			"block timestamps (different or identical content), interface selections (all, subsets, duplicates, unknown), overwrite, tolerance {default,1s,150s,300s,600s,1h,12h}, optional dry run first, " +
			"API or real `gpdb merge` command line; every merge is run twice. Oracle = merge plan computed on the generator's ground truth. " +
			"A (case, source day) is non-trivial iff the destination already holds that day (plan decided by completeness/overwrite); distinct by scenario description.",
		Assumptions: []string{
			"block timestamps >= 1000080000 (10-digit day directories)",
			"a day is complete iff first <= dayStart+tol and last+interval >= dayEnd-tol (interval = distance of the last two blocks, 300 s for one block); tolerance defaults: API 300 s, command line 150 s",
			"the destination is compared logically (flows per block via the query engine; block timestamps, per-block v4/v6/drop counts and day totals via the day metadata), not byte-wise",
			"most blocks are tiny; one case in eight carries a 300-600 flow block with random addresses (columns > 4 KiB, incompressible)",
			"dry-run reports the planned copy/rebuild/skip counts; its conflict counters are not checked",
		},
		NumCases: func(tier, variant string) int {
			if tier == "thorough" {
				return 2400
			}
			return 200
		},
		Run: run,
		Require: []string{"merges", "days_copied", "days_rebuilt", "days_skipped", "days_copy_over_existing", "conflicts_dst_wins", "conflicts_src_wins",
			"dry_runs", "dry_runs_dst_absent", "second_merges", "cli_merges", "days_boundary_shape", "days_full288", "unknown_iface_cases", "iface_subset_cases", "days_untouched_checked", "rows_compared", "big_blocks"},
	})
}

// ---------------------------------------------------------------------------------------------
// observation of a database on disk

// treeHash hashes names, modes, sizes and contents below root ("absent" if root does not exist).
func treeHash(root string) (string, error) {
	if _, err := os.Lstat(root); err != nil {
		if os.IsNotExist(err) {
			return "absent", nil
		}
		return "", err
	}
	h := sha256.New()
	err := filepath.WalkDir(root, func(path string, d fs.DirEntry, err error) error {
		if err != nil {
			return err
		}
		rel, _ := filepath.Rel(root, path)
		info, err := d.Info()
		if err != nil {
			return err
		}
		fmt.Fprintf(h, "%s|%v|", rel, info.Mode())
		if info.Mode().IsRegular() {
			b, err := os.ReadFile(path)
			if err != nil {
				return err
			}
			s := sha256.Sum256(b)
			fmt.Fprintf(h, "%d|%x", len(b), s)
		}
		h.Write([]byte{'\n'})
		return nil
	})
	if err != nil {
		return "", err
	}
	return hex.EncodeToString(h.Sum(nil)), nil
}

// listTree lists relative paths (for witnesses).
func listTree(root string) string {
	var out []string
	filepath.WalkDir(root, func(path string, d fs.DirEntry, err error) error {
		if err != nil {
			return nil
		}
		rel, _ := filepath.Rel(root, path)
		if d.IsDir() {
			out = append(out, rel+"/")
		}
		return nil
	})
	if len(out) > 40 {
		out = append(out[:40], "…")
	}
	return strings.Join(out, " ")
}

// DayMeta is the metadata of one stored day.
type DayMeta struct {
	Dir     string
	TS      []int64
	Traffic []gpfile.TrafficMetadata
	Totals  gpfile.Stats
}

// readMeta walks <db>/<iface>/<year>/<month>/<day>[_suffix] and reads every day's metadata through
// goProbe's directory reader. Entries in the DB root or interface directories that do not look like
// database content are returned as strays.
func readMeta(db string) (map[string]map[int64]DayMeta, []string, error) {
	out := map[string]map[int64]DayMeta{}
	var strays []string
	ifaces, err := os.ReadDir(db)
	if err != nil {
		if os.IsNotExist(err) {
			return out, nil, nil
		}
		return nil, nil, err
	}
	num := regexp.MustCompile(`^[0-9]+$`)
	for _, ie := range ifaces {
		if !ie.IsDir() || strings.HasPrefix(ie.Name(), ".") {
			strays = append(strays, ie.Name())
			continue
		}
		ifPath := filepath.Join(db, ie.Name())
		years, err := os.ReadDir(ifPath)
		if err != nil {
			return nil, nil, err
		}
		for _, ye := range years {
			if !ye.IsDir() || !num.MatchString(ye.Name()) {
				strays = append(strays, filepath.Join(ie.Name(), ye.Name()))
				continue
			}
			months, err := os.ReadDir(filepath.Join(ifPath, ye.Name()))
			if err != nil {
				return nil, nil, err
			}
			for _, me := range months {
				if !me.IsDir() || !num.MatchString(me.Name()) {
					strays = append(strays, filepath.Join(ie.Name(), ye.Name(), me.Name()))
					continue
				}
				days, err := os.ReadDir(filepath.Join(ifPath, ye.Name(), me.Name()))
				if err != nil {
					return nil, nil, err
				}
				for _, de := range days {
					rel := filepath.Join(ie.Name(), ye.Name(), me.Name(), de.Name())
					name, suffix, _ := strings.Cut(de.Name(), "_")
					dayTS, perr := strconv.ParseInt(name, 10, 64)
					if !de.IsDir() || perr != nil || strings.Contains(de.Name(), ".gpdb-merge") {
						strays = append(strays, rel)
						continue
					}
					rd := gpfile.NewDirReader(ifPath, dayTS, suffix)
					if err := rd.Open(); err != nil {
						return nil, nil, fmt.Errorf("%s: %w", rel, err)
					}
					dm := DayMeta{Dir: rel, Totals: rd.Metadata.Stats}
					for _, b := range rd.BlockMetadata[0].Blocks() {
						dm.TS = append(dm.TS, b.Timestamp)
					}
					dm.Traffic = append(dm.Traffic, rd.BlockTraffic...)
					rd.Close()
					if out[ie.Name()] == nil {
						out[ie.Name()] = map[int64]DayMeta{}
					}
					if prev, dup := out[ie.Name()][dayTS]; dup {
						strays = append(strays, rel+" (second directory of day "+prev.Dir+")")
						continue
					}
					out[ie.Name()][dayTS] = dm
				}
			}
		}
	}
	return out, strays, nil
}

// wantMeta derives the expected metadata of one day from the ground truth.
func wantMeta(blocks []gen.Block) DayMeta {
	var dm DayMeta
	for _, b := range blocks {
		tm := gpfile.TrafficMetadata{NumDrops: b.Drops}
		for _, f := range b.Flows {
			if f.IsV4() {
				tm.NumV4Entries++
			} else {
				tm.NumV6Entries++
			}
			dm.Totals.Counts.BytesRcvd += f.BR
			dm.Totals.Counts.BytesSent += f.BS
			dm.Totals.Counts.PacketsRcvd += f.PR
			dm.Totals.Counts.PacketsSent += f.PS
		}
		dm.TS = append(dm.TS, b.TS)
		dm.Traffic = append(dm.Traffic, tm)
		dm.Totals.Traffic = dm.Totals.Traffic.Add(tm)
	}
	return dm
}

// ---------------------------------------------------------------------------------------------
// running the merge

type outcome struct {
	counts Counts
	err    error
	raw    string
}

func runMerge(c *fw.Case, p *Pair, src, dst string, dry bool) outcome {
	if !p.ViaCLI {
		sum, err := goDB.MergeDatabases(context.Background(), goDB.MergeOptions{
			SourcePath: src, DestinationPath: dst, Interfaces: p.Interfaces,
			Overwrite: p.Overwrite, DryRun: dry, CompleteTolerance: p.Tolerance,
		})
		o := outcome{err: err, raw: fmt.Sprintf("%+v", sum)}
		o.counts = Counts{sum.InterfacesProcessed, sum.DaysCopied, sum.DaysRebuilt, sum.DaysSkipped, sum.ConflictsResolvedByDestination, sum.ConflictsResolvedBySource}
		if err == nil && sum.DryRun != dry {
			o.err = fmt.Errorf("summary.DryRun=%v for a merge with DryRun=%v", sum.DryRun, dry)
		}
		return o
	}
	self, err := os.Executable()
	if err != nil {
		return outcome{err: err}
	}
	args := []string{"-role", "gpdb", "merge", src, dst}
	// interfaces: repeated flags or one comma separated flag
	if len(p.Interfaces) > 0 {
		if c.Idx%2 == 0 {
			for _, n := range p.Interfaces {
				args = append(args, "--iface", n)
			}
		} else {
			args = append(args, "--iface="+strings.Join(p.Interfaces, ","))
		}
	}
	if p.Overwrite {
		args = append(args, "--overwrite")
	}
	if dry {
		args = append(args, "--dry-run")
	}
	if !p.TolUnset {
		args = append(args, "--complete-tolerance", p.Tolerance.String())
	}
	cmd := exec.Command(self, args...)
	var stdout, stderr bytes.Buffer
	cmd.Stdout, cmd.Stderr = &stdout, &stderr
	rerr := cmd.Run()
	o := outcome{raw: "gpdb " + strings.Join(args[2:], " ") + "\n" + stdout.String() + stderr.String()}
	if rerr != nil {
		o.err = fmt.Errorf("gpdb merge: %v: %s", rerr, strings.TrimSpace(stderr.String()+stdout.String()))
		return o
	}
	get := func(label string) int {
		m := regexp.MustCompile(`(?m)^` + regexp.QuoteMeta(label) + `: (\d+)$`).FindStringSubmatch(stdout.String())
		if m == nil {
			o.err = fmt.Errorf("gpdb merge output lacks %q: %s", label, stdout.String())
			return -1
		}
		v, _ := strconv.Atoi(m[1])
		return v
	}
	o.counts = Counts{get("Interfaces processed"), get("Days copied"), get("Days rebuilt"), get("Days skipped"),
		get("Conflicts resolved by destination"), get("Conflicts resolved by source")}
	if !strings.Contains(stdout.String(), fmt.Sprintf("dry-run=%t", dry)) && o.err == nil {
		o.err = fmt.Errorf("gpdb merge output does not report dry-run=%t: %s", dry, stdout.String())
	}
	return o
}

// ---------------------------------------------------------------------------------------------
// comparison of the destination with the plan

// dayOf returns the day start of a timestamp.
func dayOf(ts int64) int64 { return gen.DayStart(ts) }

// checkContent compares the destination at path with the expected side. It returns false if a
// violation was reported. actions / classes attribute differences to plan decisions.
func checkContent(c *fw.Case, phase, path string, want Side, pl Plan, witness func() string) bool {
	ok := true
	// signature part: the plan's action for the day; the class (completeness / overwrite) goes into the detail
	actionOf := func(ifc string, day int64) string {
		if a, found := pl.Actions[key(ifc, day)]; found {
			return string(a)
		}
		return "untouched"
	}
	classOf := func(ifc string, day int64) string {
		if cls, found := pl.Classes[key(ifc, day)]; found {
			return " [" + cls + "]"
		}
		return ""
	}
	// ---- metadata view
	got, strays, err := readMeta(path)
	if err != nil {
		c.Violatef(phase+"|dst_unreadable", "reading the destination metadata failed: %v\n%s", err, witness())
		return false
	}
	if len(strays) > 0 {
		c.Violatef(phase+"|artifacts_left", "destination contains entries that are not database content: %v\n%s", strays, witness())
		ok = false
	}
	for ifc, days := range want {
		for day, blocks := range days {
			act := actionOf(ifc, day)
			g, found := got[ifc][day]
			if !found {
				c.Violatef(phase+"|day_missing|"+act, "expected day %s/%d%s (%d blocks) is not in the destination\n%s", ifc, day, classOf(ifc, day), len(blocks), witness())
				ok = false
				continue
			}
			w := wantMeta(blocks)
			if fmt.Sprint(g.TS) != fmt.Sprint(w.TS) {
				c.Violatef(phase+"|block_timestamps|"+act, "day %s/%d%s: block timestamps %v, expected %v\n%s", ifc, day, classOf(ifc, day), rel(g.TS, day), rel(w.TS, day), witness())
				ok = false
				continue
			}
			if fmt.Sprint(g.Traffic) != fmt.Sprint(w.Traffic) {
				c.Violatef(phase+"|block_traffic_metadata|"+act, "day %s/%d%s: per-block {v4,v6,drops} %v, expected %v\n%s", ifc, day, classOf(ifc, day), g.Traffic, w.Traffic, witness())
				ok = false
			}
			if g.Totals != w.Totals {
				c.Violatef(phase+"|day_totals|"+act, "day %s/%d%s: day totals %+v, expected %+v\n%s", ifc, day, classOf(ifc, day), g.Totals, w.Totals, witness())
				ok = false
			}
			if act == "untouched" {
				c.Count("days_untouched_checked", 1)
			}
		}
	}
	for ifc, days := range got {
		for day, g := range days {
			if _, found := want[ifc][day]; !found {
				c.Violatef(phase+"|day_unexpected", "destination holds day %s/%d (%s, %d blocks) that the plan does not produce\n%s", ifc, day, g.Dir, len(g.TS), witness())
				ok = false
			}
		}
	}
	if !ok {
		return false
	}
	// ---- query view
	db := want.RefDB()
	if len(db.Ifaces) == 0 {
		return true
	}
	tss := db.AllTimestamps()
	spec := ref.QuerySpec{Attrs: []string{"sip", "dip", "dport", "proto"}, Time: true, Ifaces: db.IfaceNames(), First: tss[0] - 1, Last: tss[len(tss)-1] + 1}
	wantRows := ref.Query(db, spec)
	a := eng.Args("time,iface,sip,dip,dport,proto", "any", "", spec.First, spec.Last)
	c.Note("%s: query of the merged destination; %s", phase, witness())
	res, qerr, pmsg := eng.Run(path, a)
	if pmsg != "" {
		c.Violatef(phase+"|query_panic", "query on the merged destination panicked: %s\n%s", pmsg, witness())
		return false
	}
	if qerr != nil {
		if len(wantRows) == 0 && strings.Contains(qerr.Error(), "no data") {
			return true
		}
		c.Violatef(phase+"|query_error", "query on the merged destination failed: %v\n%s", qerr, witness())
		return false
	}
	gotRows, dup := ref.FromResult(res.Rows, spec)
	if dup != "" {
		c.Violatef(phase+"|row_split", "two result rows share the key %s\n%s", dup, witness())
		ok = false
	}
	if d := ref.Diff(wantRows, gotRows); d != "" {
		// attribute to the action of the first differing day
		act := "untouched"
		var keys []ref.RowKey
		for k, w := range wantRows {
			if g, found := gotRows[k]; !found || g != w {
				keys = append(keys, k)
			}
		}
		for k := range gotRows {
			if _, found := wantRows[k]; !found {
				keys = append(keys, k)
			}
		}
		sort.Slice(keys, func(i, j int) bool { return keys[i].String() < keys[j].String() })
		if len(keys) > 0 {
			act = actionOf(keys[0].Iface, dayOf(keys[0].TS))
		}
		c.Violatef(phase+"|flows|"+ref.DiffClass(wantRows, gotRows)+"|"+act, "flows stored in the destination differ from the plan: %s\n%s", d, witness())
		return false
	}
	c.Count("rows_compared", len(wantRows))
	return ok
}

func rel(tss []int64, day int64) []int64 {
	out := make([]int64, len(tss))
	for i, t := range tss {
		out[i] = t - day
	}
	return out
}

func checkCounts(c *fw.Case, phase string, got, want Counts, dry bool, witness func() string) {
	if dry {
		got.ConflictsDst, got.ConflictsSrc = 0, 0
		want.ConflictsDst, want.ConflictsSrc = 0, 0
	}
	if got == want {
		return
	}
	cls := "conflicts"
	if got.Interfaces != want.Interfaces || got.Copied != want.Copied || got.Rebuilt != want.Rebuilt || got.Skipped != want.Skipped {
		cls = "days"
	}
	c.Violatef(phase+"|counts|"+cls, "reported {interfaces copied rebuilt skipped conflicts_by_dst conflicts_by_src} = %+v, actions of the plan = %+v\n%s", got, want, witness())
}

// ---------------------------------------------------------------------------------------------

func run(c *fw.Case) {
	r := c.Rng
	p := GenPair(r, c.Tier)
	src := filepath.Join(c.Tmp, "src")
	dst := filepath.Join(c.Tmp, "dst")
	encs := []encoders.Type{encoders.EncoderTypeLZ4, encoders.EncoderTypeLZ4, encoders.EncoderTypeZSTD, encoders.EncoderTypeNull}
	if err := p.Src.RefDB().Write(src, encs[r.Intn(len(encs))], 0); err != nil {
		c.Violatef("setup_write_error", "writing the generated source failed: %v", err)
		return
	}
	if !p.DstAbsent {
		if err := os.MkdirAll(dst, 0o755); err != nil {
			c.Inconclusive("mkdir: %v", err)
			return
		}
		if err := p.Dst.RefDB().Write(dst, encs[r.Intn(len(encs))], 0); err != nil {
			c.Violatef("setup_write_error", "writing the generated destination failed: %v", err)
			return
		}
	}
	tol := p.EffectiveTolerance()
	pl := MakePlan(p.Src, p.Dst, p.Interfaces, p.Overwrite, tol)
	describe := func() string {
		s := p.Describe() + "\n  plan:"
		var ks []string
		for k := range pl.Actions {
			ks = append(ks, k)
		}
		sort.Strings(ks)
		for _, k := range ks {
			s += fmt.Sprintf(" %s=%s(%s)", k, pl.Actions[k], pl.Classes[k])
		}
		return s
	}
	c.Sample(map[string]any{"scenario": describe(), "expected_counts": pl.Counts})
	if c.Verbose {
		c.Logf("%s", describe())
	}
	eng.QuietLogs(nil)

	srcHash0, err := treeHash(src)
	if err != nil {
		c.Inconclusive("hash: %v", err)
		return
	}
	srcUnchanged := func(phase string, w func() string) bool {
		h, err := treeHash(src)
		if err != nil || h != srcHash0 {
			c.Violatef(phase+"|source_modified", "the source tree changed during the merge (%v): %s\n%s", err, listTree(src), w())
			return false
		}
		return true
	}

	// coverage of the scenario
	for k, s := range p.Shapes {
		if strings.HasPrefix(s, "boundary") {
			c.Count("days_boundary_shape", 1)
		}
		if strings.HasPrefix(s, "full288") {
			c.Count("days_full288", 1)
		}
		_ = k
	}
	if p.Unknown {
		c.Count("unknown_iface_cases", 1)
	}
	c.Count("big_blocks", p.BigBlocks)
	if len(p.Interfaces) > 0 && len(pl.Sel) < len(p.Src) {
		c.Count("iface_subset_cases", 1)
	}

	// ---- optional dry run
	if p.DryFirst {
		dstHash0, err := treeHash(dst)
		if err != nil {
			c.Inconclusive("hash: %v", err)
			return
		}
		c.Note("dry run: %s", describe())
		o := runMerge(c, p, src, dst, true)
		w := func() string { return describe() + "\n  dry run result: " + o.raw }
		c.Count("dry_runs", 1)
		if p.DstAbsent {
			c.Count("dry_runs_dst_absent", 1)
		}
		srcUnchanged("dry_run", w)
		h, herr := treeHash(dst)
		if herr != nil || h != dstHash0 {
			cls := "dst_present"
			if p.DstAbsent {
				cls = "dst_absent"
			}
			c.Violatef("dry_run|destination_changed|"+cls, "a dry run changed the destination (before: %s, after: %s; %v); destination now: %s\n%s", short(dstHash0), short(h), herr, listTree(dst), w())
		}
		if o.err != nil {
			if len(pl.Unknown) == 0 {
				c.Violatef("dry_run|merge_error", "dry run failed: %v\n%s", o.err, w())
				return
			}
		} else {
			checkCounts(c, "dry_run", o.counts, pl.Counts, true, w)
		}
		if p.DstAbsent {
			// bring the destination back to the generated state for the real merge
			os.RemoveAll(dst)
		}
	}

	// ---- the merge
	dstHashBefore, _ := treeHash(dst)
	c.Note("merge: %s", describe())
	o := runMerge(c, p, src, dst, false)
	w := func() string { return describe() + "\n  merge result: " + o.raw }
	c.Count("merges", 1)
	if p.ViaCLI {
		c.Count("cli_merges", 1)
	}
	srcUnchanged("merge", w)
	if o.err != nil {
		if len(pl.Unknown) > 0 {
			// a request for an interface the source does not hold may be refused, but then nothing may change
			h, _ := treeHash(dst)
			if h != dstHashBefore && !(dstHashBefore == "absent" && isEmptyDir(dst)) {
				c.Violatef("merge|refused_but_destination_changed", "merge refused (%v) but the destination changed: %s\n%s", o.err, listTree(dst), w())
			}
			c.Count("unknown_iface_refused", 1)
			return
		}
		c.Violatef("merge|merge_error", "merge failed: %v\n%s", o.err, w())
		return
	}
	checkCounts(c, "merge", o.counts, pl.Counts, false, w)
	if !checkContent(c, "merge", dst, pl.After, pl, w) {
		return
	}
	c.Count("days_copied", pl.Counts.Copied)
	c.Count("days_rebuilt", pl.Counts.Rebuilt)
	c.Count("days_skipped", pl.Counts.Skipped)
	c.Count("conflicts_dst_wins", pl.Counts.ConflictsDst)
	c.Count("conflicts_src_wins", pl.Counts.ConflictsSrc)
	for k, a := range pl.Actions {
		cls := pl.Classes[k]
		c.Count("plan_"+string(a)+"_"+strings.ReplaceAll(cls, ",", "_"), 1)
		if a == ActCopy && !strings.Contains(cls, "dst_missing") {
			c.Count("days_copy_over_existing", 1)
		}
		if !strings.Contains(cls, "dst_missing") {
			c.Nontrivial(describe() + k)
		}
	}

	// ---- the same merge again changes nothing further
	pl2 := MakePlan(p.Src, pl.After, p.Interfaces, p.Overwrite, tol)
	if !SideEqual(pl2.After, pl.After) {
		c.Inconclusive("harness: the oracle's plan is not idempotent for %s", describe())
		return
	}
	c.Note("second merge: %s", describe())
	o2 := runMerge(c, p, src, dst, false)
	w2 := func() string {
		return describe() + "\n  first merge result: " + o.raw + "\n  second merge result: " + o2.raw
	}
	c.Count("second_merges", 1)
	srcUnchanged("second_merge", w2)
	if o2.err != nil {
		c.Violatef("second_merge|merge_error", "merging the same source again failed: %v\n%s", o2.err, w2())
		return
	}
	checkCounts(c, "second_merge", o2.counts, pl2.Counts, false, w2)
	checkContent(c, "second_merge", dst, pl.After, pl2, w2)
}

func isEmptyDir(p string) bool {
	ents, err := os.ReadDir(p)
	return err == nil && len(ents) == 0
}

func short(h string) string {
	if len(h) > 12 {
		return h[:12]
	}
	return h
}
