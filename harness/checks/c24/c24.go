package c24
