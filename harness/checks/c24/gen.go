package c24

import (
	"fmt"
	"math/rand"
	"sort"
	"time"

	"verifharness/gen"
)

// Side is the ground truth of one database: iface -> day start -> blocks (strictly increasing TS).
type Side map[string]map[int64][]gen.Block

// Clone makes a deep copy (blocks are immutable values; their Flows slices are shared read-only).
func (s Side) Clone() Side {
	out := Side{}
	for ifc, days := range s {
		out[ifc] = map[int64][]gen.Block{}
		for d, bl := range days {
			out[ifc][d] = append([]gen.Block(nil), bl...)
		}
	}
	return out
}

// Ifaces lists the interface names, sorted.
func (s Side) Ifaces() []string {
	var out []string
	for n := range s {
		out = append(out, n)
	}
	sort.Strings(out)
	return out
}

// Days lists the day starts of one interface, sorted.
func (s Side) Days(iface string) []int64 {
	var out []int64
	for d := range s[iface] {
		out = append(out, d)
	}
	sort.Slice(out, func(i, j int) bool { return out[i] < out[j] })
	return out
}

// RefDB converts the side into the shared ground-truth type (for the production writer and the
// query oracle).
func (s Side) RefDB() *gen.RefDB {
	db := &gen.RefDB{}
	for _, n := range s.Ifaces() {
		id := gen.IfaceData{Name: n}
		for _, d := range s.Days(n) {
			id.Blocks = append(id.Blocks, s[n][d]...)
		}
		db.Ifaces = append(db.Ifaces, id)
	}
	return db
}

// NumBlocks counts all blocks.
func (s Side) NumBlocks() int {
	n := 0
	for _, days := range s {
		for _, bl := range days {
			n += len(bl)
		}
	}
	return n
}

// Pair is a generated merge scenario.
type Pair struct {
	Src, Dst  Side
	DstAbsent bool // destination path does not exist before the merge
	Shapes    map[string]string
	BigBlocks int

	// options
	Interfaces []string // nil = all
	Unknown    bool     // Interfaces contains a name that is not in the source
	Overwrite  bool
	Tolerance  time.Duration // as passed (0 = default)
	TolUnset   bool          // CLI only: flag omitted (CLI default 150s)
	DryFirst   bool          // run a dry run before the real merge
	ViaCLI     bool          // drive the merge through the gpdb command line
}

// EffectiveTolerance returns the tolerance in seconds that the documented defaults imply.
func (p *Pair) EffectiveTolerance() int64 {
	if p.ViaCLI && p.TolUnset {
		return 150 // default of `gpdb merge --complete-tolerance`
	}
	if p.Tolerance <= 0 {
		return 300 // library default
	}
	return int64(p.Tolerance / time.Second)
}

var ifaceUniverse = []string{"eth0", "eth1", "lo", "wan0"}

var flowOpts = gen.FlowOpts{V6Prob: 0.4, ZeroProb: 0.03, BigCounters: true}

func randBlock(r *rand.Rand, ts int64) gen.Block {
	b := gen.Block{TS: ts}
	if r.Intn(3) == 0 {
		b.Drops = uint64(1 + r.Intn(100))
	}
	nf := r.Intn(6)
	seen := map[string]bool{}
	for i := 0; i < nf; i++ {
		f := gen.RandFlow(r, flowOpts)
		if seen[f.KeyString()] {
			continue
		}
		seen[f.KeyString()] = true
		b.Flows = append(b.Flows, f)
	}
	return b
}

// bigBlock draws a block whose address columns exceed the writer's 4 KiB buffers and do not compress
// (random addresses), so that re-encoding during a rebuild takes the large-block / fallback paths.
func bigBlock(r *rand.Rand, ts int64) gen.Block {
	b := gen.Block{TS: ts, Drops: uint64(r.Intn(5))}
	seen := map[string]bool{}
	n := 300 + r.Intn(300)
	for i := 0; i < n; i++ {
		f := gen.RandFlow(r, gen.FlowOpts{V6Prob: 0.5, WideAlphabet: true})
		if seen[f.KeyString()] {
			continue
		}
		seen[f.KeyString()] = true
		b.Flows = append(b.Flows, f)
	}
	return b
}

func blocksAt(r *rand.Rand, tss []int64) []gen.Block {
	sort.Slice(tss, func(i, j int) bool { return tss[i] < tss[j] })
	var out []gen.Block
	last := int64(-1)
	for _, t := range tss {
		if t == last {
			continue
		}
		last = t
		out = append(out, randBlock(r, t))
	}
	return out
}

// genDay draws the block timestamps of one day with a given shape. It returns the shape actually
// produced (some shapes fall back when the tolerance leaves no room).
func genDay(r *rand.Rand, day, tol int64, allowFull bool) (string, []int64) {
	shapes := []string{"coarse_complete", "coarse_complete", "boundary", "boundary", "partial_head", "partial_tail", "partial_middle", "single", "random", "random", "full288"}
	shape := shapes[r.Intn(len(shapes))]
	if shape == "full288" && !allowFull {
		shape = "coarse_complete"
	}
	var tss []int64
	switch shape {
	case "full288":
		for i := int64(0); i < 288; i++ {
			tss = append(tss, day+i*300)
		}
		if r.Intn(2) == 0 { // some holes in the middle do not matter for completeness
			for k := r.Intn(10); k > 0; k-- {
				i := 1 + r.Intn(280)
				tss = append(tss[:i], tss[i+1:]...)
			}
		}
	case "coarse_complete":
		delta := []int64{1800, 3600, 3600, 7200, 7200, 21600, 21600, 43200}[r.Intn(8)]
		off := int64(0)
		if r.Intn(3) == 0 && tol > 0 {
			off = tol
			if off >= delta {
				off = delta - 1
			}
		}
		n := 86400 / delta
		for i := int64(0); i < n; i++ {
			tss = append(tss, day+off+i*delta)
		}
		if len(tss) > 4 && r.Intn(2) == 0 { // holes between the first and the last two blocks
			for k := r.Intn(3); k > 0 && len(tss) > 4; k-- {
				i := 1 + r.Intn(len(tss)-3)
				tss = append(tss[:i], tss[i+1:]...)
			}
		}
	case "boundary":
		e1 := int64(r.Intn(3) - 1)
		e2 := int64(r.Intn(3) - 1)
		delta := []int64{300, 300, 3600, 60}[r.Intn(4)]
		first := day + tol + e1
		if first < day {
			first = day
		}
		last := day + 86399 - tol + e2 - delta
		pen := last - delta
		if last > day+86399 {
			last = day + 86399
			pen = last - delta
		}
		if pen > first {
			tss = []int64{first, pen, last}
			for k := r.Intn(4); k > 0; k-- {
				tss = append(tss, first+1+r.Int63n(pen-first-1+1))
			}
			// middle blocks must stay strictly between first and pen
			var keep []int64
			for _, t := range tss {
				if t == first || t == pen || t == last || (t > first && t < pen) {
					keep = append(keep, t)
				}
			}
			tss = keep
		} else {
			// no room for two blocks: single block at the edge of the window
			// complete iff t <= day+tol and t+300 >= day+86399-tol
			shape = "boundary_single"
			cands := []int64{day + tol + e1, day + 86399 - tol - 300 + e2}
			t := cands[r.Intn(2)]
			if t < day {
				t = day
			}
			if t > day+86399 {
				t = day + 86399
			}
			tss = []int64{t}
		}
	case "partial_head":
		n := 1 + r.Intn(6)
		for i := 0; i < n; i++ {
			tss = append(tss, day+int64(i)*300)
		}
	case "partial_tail":
		n := 1 + r.Intn(6)
		for i := 0; i < n; i++ {
			tss = append(tss, day+86100-int64(i)*300)
		}
	case "partial_middle":
		n := 1 + r.Intn(6)
		start := day + 300*int64(20+r.Intn(200))
		for i := 0; i < n; i++ {
			tss = append(tss, start+int64(i)*300)
		}
	case "single":
		tss = []int64{day + []int64{0, 300, 43200, 86100, 86399, int64(r.Intn(86400))}[r.Intn(6)]}
	default: // random
		n := 1 + r.Intn(6)
		for i := 0; i < n; i++ {
			t := day + 300*int64(r.Intn(288))
			if r.Intn(3) == 0 {
				t += int64(r.Intn(300))
			}
			tss = append(tss, t)
		}
	}
	return shape, tss
}

// GenPair draws a merge scenario.
func GenPair(r *rand.Rand, tier string) *Pair {
	p := &Pair{Src: Side{}, Dst: Side{}, Shapes: map[string]string{}}
	p.ViaCLI = r.Intn(4) == 0
	tols := []time.Duration{0, time.Second, 150 * time.Second, 300 * time.Second, 300 * time.Second, 600 * time.Second, time.Hour, 12 * time.Hour}
	p.Tolerance = tols[r.Intn(len(tols))]
	if p.ViaCLI && r.Intn(3) == 0 {
		p.TolUnset = true
		p.Tolerance = 0
	}
	tol := p.EffectiveTolerance()
	p.Overwrite = r.Intn(2) == 0
	p.DryFirst = r.Intn(3) == 0

	base := gen.DayStart(gen.MinTS) + 86400*int64(1+r.Intn(11000))
	dayOffsets := []int64{0, 1, 2}
	if r.Intn(4) == 0 {
		dayOffsets = []int64{0, 1, 31 + int64(r.Intn(3))} // crosses a month directory
	}
	fullBudget := 0
	if r.Intn(8) == 0 || (tier == "thorough" && r.Intn(4) == 0) {
		fullBudget = 1 + r.Intn(2)
	}

	perm := r.Perm(len(ifaceUniverse))
	nSrc := 1 + r.Intn(3)
	srcIfaces := map[string]bool{}
	for _, i := range perm[:nSrc] {
		srcIfaces[ifaceUniverse[i]] = true
	}
	p.DstAbsent = r.Intn(8) == 0
	dstEmpty := !p.DstAbsent && r.Intn(10) == 0

	for _, name := range ifaceUniverse {
		inSrc := srcIfaces[name]
		inDst := !p.DstAbsent && !dstEmpty && ((inSrc && r.Intn(4) != 0) || (!inSrc && r.Intn(3) == 0))
		for _, off := range dayOffsets {
			day := base + off*86400
			var srcBlocks []gen.Block
			if inSrc && r.Intn(4) != 0 {
				shape, tss := genDay(r, day, tol, fullBudget > 0)
				if shape == "full288" {
					fullBudget--
				}
				srcBlocks = blocksAt(r, tss)
				p.Shapes[fmt.Sprintf("src/%s/%d", name, day)] = shape
			}
			var dstBlocks []gen.Block
			if inDst && r.Intn(5) < 3 {
				shape, tss := genDay(r, day, tol, fullBudget > 0)
				if shape == "full288" {
					fullBudget--
				}
				dstBlocks = blocksAt(r, tss)
				// overlapping block timestamps with the source day
				if len(srcBlocks) > 0 && r.Intn(5) < 3 {
					shape += "+overlap"
					have := map[int64]int{}
					for i, b := range dstBlocks {
						have[b.TS] = i
					}
					for k := 1 + r.Intn(3); k > 0; k-- {
						sb := srcBlocks[r.Intn(len(srcBlocks))]
						nb := randBlock(r, sb.TS)
						if r.Intn(4) == 0 {
							nb = sb // identical content on both sides
						}
						if i, ok := have[sb.TS]; ok {
							dstBlocks[i] = nb
						} else {
							have[sb.TS] = len(dstBlocks)
							dstBlocks = append(dstBlocks, nb)
						}
					}
					sort.Slice(dstBlocks, func(i, j int) bool { return dstBlocks[i].TS < dstBlocks[j].TS })
				}
				p.Shapes[fmt.Sprintf("dst/%s/%d", name, day)] = shape
			}
			if len(srcBlocks) > 0 {
				if p.Src[name] == nil {
					p.Src[name] = map[int64][]gen.Block{}
				}
				p.Src[name][day] = srcBlocks
			}
			if len(dstBlocks) > 0 {
				if p.Dst[name] == nil {
					p.Dst[name] = map[int64][]gen.Block{}
				}
				p.Dst[name][day] = dstBlocks
			}
		}
	}
	// occasionally one large, incompressible block on either side
	if r.Intn(8) == 0 {
		sd := p.Src
		if r.Intn(3) == 0 && len(p.Dst) > 0 {
			sd = p.Dst
		}
		if names := sd.Ifaces(); len(names) > 0 {
			ifc := names[r.Intn(len(names))]
			days := sd.Days(ifc)
			d := days[r.Intn(len(days))]
			i := r.Intn(len(sd[ifc][d]))
			sd[ifc][d][i] = bigBlock(r, sd[ifc][d][i].TS)
			p.BigBlocks++
		}
	}
	// the source must hold at least one day
	if len(p.Src) == 0 {
		name := ifaceUniverse[perm[0]]
		_, tss := genDay(r, base, tol, false)
		p.Src[name] = map[int64][]gen.Block{base: blocksAt(r, tss)}
		p.Shapes[fmt.Sprintf("src/%s/%d", name, base)] = "forced"
	}

	// interface selection
	names := p.Src.Ifaces()
	switch r.Intn(10) {
	case 0, 1, 2, 3, 4:
		p.Interfaces = nil
	case 5, 6, 7:
		n := 1 + r.Intn(len(names))
		for _, i := range r.Perm(len(names))[:n] {
			p.Interfaces = append(p.Interfaces, names[i])
		}
		if r.Intn(3) == 0 {
			p.Interfaces = append(p.Interfaces, p.Interfaces[0]) // duplicate
		}
	case 8:
		p.Interfaces = append([]string(nil), names...)
		r.Shuffle(len(p.Interfaces), func(i, j int) { p.Interfaces[i], p.Interfaces[j] = p.Interfaces[j], p.Interfaces[i] })
	default:
		p.Interfaces = append([]string(nil), names[:r.Intn(len(names)+1)]...)
		// a name that exists nowhere, or only in the destination
		unk := "nope0"
		for _, n := range ifaceUniverse {
			if !srcIfaces[n] && r.Intn(2) == 0 {
				unk = n
				break
			}
		}
		if _, ok := p.Src[unk]; !ok {
			p.Interfaces = append(p.Interfaces, unk)
			p.Unknown = true
		}
	}
	return p
}

// Describe renders the scenario for witnesses.
func (p *Pair) Describe() string {
	s := fmt.Sprintf("options{ifaces=%v overwrite=%v tolerance=%v", p.Interfaces, p.Overwrite, p.Tolerance)
	if p.TolUnset {
		s += "(flag omitted)"
	}
	s += fmt.Sprintf(" via_cli=%v dry_first=%v dst_absent=%v}", p.ViaCLI, p.DryFirst, p.DstAbsent)
	side := func(name string, sd Side) string {
		out := ""
		for _, ifc := range sd.Ifaces() {
			for _, d := range sd.Days(ifc) {
				bl := sd[ifc][d]
				out += fmt.Sprintf("\n  %s/%s/day %d (%s): %d blocks", name, ifc, d, p.Shapes[fmt.Sprintf("%s/%s/%d", name, ifc, d)], len(bl))
				if len(bl) <= 8 {
					out += " at"
					for _, b := range bl {
						out += fmt.Sprintf(" +%d", b.TS-d)
					}
				} else {
					out += fmt.Sprintf(" first +%d, last two +%d +%d", bl[0].TS-d, bl[len(bl)-2].TS-d, bl[len(bl)-1].TS-d)
				}
			}
		}
		return out
	}
	return s + side("src", p.Src) + side("dst", p.Dst)
}
