package c24

import (
	"os"

	gpdbcmd "github.com/els0r/goProbe/v4/cmd/gpdb/cmd"
	"verifharness/fw"
)

// The real gpdb command line (cobra command tree of cmd/gpdb/cmd) is reachable as a helper role of
// the harness binary: `vcheck -role gpdb merge SRC DST --overwrite ...` behaves like `gpdb merge ...`.
func init() {
	fw.RegisterRole("gpdb", func(args []string) int {
		os.Args = append([]string{"gpdb"}, args...)
		gpdbcmd.Execute() // exits non-zero by itself on error
		return 0
	})
}
