// Package c30: queries running during write-outs see a consistent snapshot per day.
//
// Part A (schedules): the real writer (role dbwrite) and the real reader (role dbread: engine query,
// ReadMetadata listing, interface list) run as two separate traced processes, exactly as goProbe and
// goQuery do in production. Each is held at the entry of every file-system call touching the database
// until a scheduler grants it, so interleavings are chosen at FS-call granularity:
//   - reader runs atomically at a writer FS-call boundary (writer frozen mid write-out),
//   - reader is frozen at one of its own FS calls while the writer performs 1-2 whole write-outs,
//   - seeded random multi-switch schedules.
//
// Part B (stress): writer and concurrent readers free-running in one process (the topology of
// goProbe's embedded query API); recorded histories are checked with porcupine per (iface, day).
//
// Every write-out stores a marker flow with dport = write-out index, so a result identifies exactly
// which blocks it saw. Oracle: no reader error; per (iface, day) the blocks seen are a prefix
// {1..k} of that day's write-outs with completed-before-read-start <= k <= started-before-read-end;
// rows equal the oracle for that prefix.
package c30

import (
	"fmt"
	"math/rand"
	"net/netip"
	"os"
	"sort"
	"strconv"
	"strings"
	"sync"
	"sync/atomic"
	"time"

	"github.com/anishathalye/porcupine"
	"github.com/els0r/goProbe/v4/pkg/goDB/encoder/encoders"
	"verifharness/dbx"
	"verifharness/fw"
	"verifharness/gen"
	"verifharness/ptr"
	"verifharness/ref"
	"verifharness/roles"
)

func init() {
	fw.Register(&fw.Check{
		ID:    "C30",
		Level: "exploration",
		Rule: "case kinds (by index mod 4): 0 = reader atomically at writer FS-call boundary k (all k of one history, sliced over cases), 1 = reader frozen at its FS call k while the writer performs 1-2 whole write-outs (all k), 2 = seeded random multi-switch schedule of both processes, 3 = in-process free-running stress (1 writer, 3 readers) checked with porcupine, 4 = reader frozen at its j-th column/metadata open for one whole write-out and again at the next or next-but-one such open for another one (all j). " +
			"History = 4-8 write-outs over 1-2 interfaces crossing a day boundary, each carrying a marker flow; every other history has fat write-outs (700 random-address flows: incompressible columns > 4 KiB that are rewritten raw and leave a tail behind the committed end of the column file). Non-trivial/distinct = (kind, history, reader-event, writer-event) adjacency at which the other process ran.",
		Assumptions: []string{"interleavings are explored at file-system-call granularity (not every memory interleaving)", "page cache semantics of one host (both processes on the same machine)"},
		NumCases: func(tier, variant string) int {
			if variant == "race" {
				if tier == "thorough" {
					return 200
				}
				return 8
			}
			if tier == "thorough" {
				return 640 // 16 histories x 8 slots per schedule kind (40 planned; ~2.5 min per history and kind measured)
			}
			return 40 // 1 history x 8 slots for kinds 0, 1 and 4, 8 random schedules, 8 stress histories
		},
		Variants:    func(tier string) []string { return []string{"default", "race"} },
		Run:         run,
		Require:     []string{"sched_reader_atomic", "sched_reader_frozen", "sched_reader_frozen_twice", "sched_random", "stress_histories", "reads_concurrent_with_writeout", "reads_seeing_partial_history"},
		CaseTimeout: 300e9,
	})
}

// genHistory: write-outs with marker flows (dport = index+1) on top of random flows.
// fatMode: 1 = with fat write-outs, 0 = without, -1 = drawn.
func genHistory(r *rand.Rand, fatMode int) *roles.History {
	base := gen.DayStart(gen.MinTS) + 86400*int64(1+r.Intn(11000))
	nIf := 1 + r.Intn(2)
	n := 4 + r.Intn(5)
	if fatMode >= 0 {
		n = 6 + r.Intn(4) // the frozen-reader kinds need several write-outs into the day the reader works on
	}
	ts := base + 86400 - 300*int64(1+r.Intn(3))
	h := &roles.History{Encoder: int(encoders.EncoderTypeLZ4)}
	fat := fatMode == 1 || fatMode < 0 && r.Intn(2) == 0 // every other history has write-outs with incompressible columns > 4 KiB
	fatInLastDay := false                                // ... among them the first write-out of the second day, which most later write-outs append to
	for k := 0; len(h.Outs) < n; k++ {
		for i := 0; i < nIf && len(h.Outs) < n; i++ {
			idx := len(h.Outs)
			b := gen.Block{TS: ts}
			b.Flows = append(b.Flows, gen.Flow{SIP: mustAddr("10.9.9.9"), DIP: mustAddr("10.9.9.8"), Dport: uint16(idx + 1), Proto: 6, BR: 100, PR: 1, BS: uint64(idx + 1), PS: 1})
			for j := r.Intn(5); j > 0; j-- {
				f := gen.RandFlow(r, gen.FlowOpts{V6Prob: 0.4})
				if f.Dport > 0 && f.Dport <= 64 {
					f.Dport += 1000
				}
				dup := false
				for _, g := range b.Flows {
					if g.KeyString() == f.KeyString() {
						dup = true
					}
				}
				if !dup {
					b.Flows = append(b.Flows, f)
				}
			}
			if fat && (r.Intn(3) == 0 || gen.DayStart(ts) > gen.DayStart(base+86400-1) && !fatInLastDay) {
				fatInLastDay = fatInLastDay || gen.DayStart(ts) > gen.DayStart(base+86400-1)
				// a fat write-out: ~10 KiB of random addresses per IP column, which do not compress. The
				// writer first emits the (larger) compressed form and then rewrites the block raw, which
				// leaves bytes behind the committed end of the column file
				seen := map[string]bool{}
				for _, g := range b.Flows {
					seen[g.KeyString()] = true
				}
				for j := 0; j < 700; j++ {
					f := gen.RandFlow(r, gen.FlowOpts{V6Prob: 0.9, WideAlphabet: true})
					if f.Dport > 0 && f.Dport <= 64 {
						f.Dport += 1000
					}
					if !seen[f.KeyString()] {
						seen[f.KeyString()] = true
						b.Flows = append(b.Flows, f)
					}
				}
			}
			h.Outs = append(h.Outs, roles.WriteOut{Iface: []string{"eth0", "eth1"}[i], Block: b})
		}
		ts += 300
	}
	return h
}

func mustAddr(s string) netip.Addr { return netip.MustParseAddr(s) }

type dayKey struct {
	iface string
	day   int64
}

// checkView verifies a reader's view against the history: lo[k]/hi[k] are the numbers of write-outs
// (global indices < lo completed before the read started; < hi started before it ended).
func checkView(h *roles.History, v dbx.View, lo, hi int) (clause, detail string, partial bool) {
	if len(v.Errs) > 0 {
		return "reader_error", v.Errs[0], false
	}
	// group write-outs per (iface, day)
	per := map[dayKey][]int{}
	for k, o := range h.Outs {
		dk := dayKey{o.Iface, gen.DayStart(o.Block.TS)}
		per[dk] = append(per[dk], k)
	}
	seen := map[int]bool{}
	for rk := range v.Rows {
		if rk.SIP == mustAddr("10.9.9.9") && rk.DIP == mustAddr("10.9.9.8") && rk.Dport >= 1 && int(rk.Dport) <= len(h.Outs) {
			seen[int(rk.Dport)-1] = true
		}
	}
	visible := map[int]bool{}
	for dk, ks := range per {
		// prefix check
		cnt := 0
		for i, k := range ks {
			if seen[k] {
				if i != cnt {
					return "not_a_prefix", fmt.Sprintf("%s day %d: write-out %d visible although an earlier write-out of that day is not (visible markers %v)", dk.iface, dk.day, k, keys(seen)), false
				}
				cnt++
			}
		}
		minK, maxK := 0, 0
		for _, k := range ks {
			if k < lo {
				minK++
			}
			if k < hi {
				maxK++
			}
		}
		if cnt < minK {
			return "completed_writeout_invisible", fmt.Sprintf("%s day %d: only %d of its write-outs visible although %d had completed before the read started (visible markers %v, completed<%d, started<%d)", dk.iface, dk.day, cnt, minK, keys(seen), lo, hi), false
		}
		if cnt > maxK {
			return "future_writeout_visible", fmt.Sprintf("%s day %d: %d write-outs visible although only %d had started before the read ended", dk.iface, dk.day, cnt, maxK), false
		}
		for _, k := range ks[:cnt] {
			visible[k] = true
		}
		if cnt > 0 && cnt < len(ks) {
			partial = true
		}
	}
	want := dbx.Expect(h.RefDBOf(func(k int) bool { return visible[k] }))
	if d := ref.Diff(want.Rows, v.Rows); d != "" {
		return "rows_damaged|" + ref.DiffClass(want.Rows, v.Rows), fmt.Sprintf("rows differ from the oracle for the visible write-outs %v: %s", keys(visible), d), partial
	}
	// listing: per interface, totals must equal the totals of some admissible prefix combination
	for _, iface := range v.Ifaces {
		got, ok := v.Listing[iface]
		if !ok {
			continue
		}
		var days []dayKey
		for dk := range per {
			if dk.iface == iface {
				days = append(days, dk)
			}
		}
		sort.Slice(days, func(i, j int) bool { return days[i].day < days[j].day })
		if !listingAdmissible(h, per, days, 0, map[int]bool{}, lo, hi, iface, got) {
			return "listing_inconsistent", fmt.Sprintf("iface %s: listing %+v equals no admissible per-day prefix combination (completed<%d, started<%d)", iface, got, lo, hi), partial
		}
	}
	return "", "", partial
}

func listingAdmissible(h *roles.History, per map[dayKey][]int, days []dayKey, di int, vis map[int]bool, lo, hi int, iface string, got dbx.Meta) bool {
	if di == len(days) {
		want := dbx.Expect(h.RefDBOf(func(k int) bool { return vis[k] }))
		return want.Listing[iface] == got
	}
	ks := per[days[di]]
	minK, maxK := 0, 0
	for _, k := range ks {
		if k < lo {
			minK++
		}
		if k < hi {
			maxK++
		}
	}
	for cnt := minK; cnt <= maxK; cnt++ {
		for _, k := range ks {
			delete(vis, k)
		}
		for _, k := range ks[:cnt] {
			vis[k] = true
		}
		if listingAdmissible(h, per, days, di+1, vis, lo, hi, iface, got) {
			return true
		}
	}
	for _, k := range ks {
		delete(vis, k)
	}
	return false
}

func keys(m map[int]bool) []int {
	var out []int
	for k := range m {
		out = append(out, k)
	}
	sort.Ints(out)
	return out
}

// ---------------------------------------------------------------------------------------------
// two-process scheduler

type tracee struct {
	name  string
	req   chan *ptr.Event // policy -> scheduler: stopped at this event
	grant chan struct{}   // scheduler -> policy: proceed
	done  chan *ptr.Result
	cur   *ptr.Event // event the tracee is currently held at (nil: running / finished)
	fin   bool
	res   *ptr.Result
	nEv   int // FS events granted so far
}

func startTracee(name string, argv []string, root string) *tracee {
	t := &tracee{name: name, req: make(chan *ptr.Event), grant: make(chan struct{}), done: make(chan *ptr.Result, 1)}
	go func() {
		t.done <- ptr.Run(argv, ptr.Options{Roots: []string{root}, Timeout: 120 * time.Second, Policy: func(e *ptr.Event) ptr.Decision {
			t.req <- e
			<-t.grant
			return ptr.Decision{}
		}})
	}()
	return t
}

// await blocks until the tracee is held at an event or has finished.
func (t *tracee) await() {
	if t.fin || t.cur != nil {
		return
	}
	select {
	case e := <-t.req:
		t.cur = e
	case r := <-t.done:
		t.fin, t.res = true, r
	}
}

// step lets the tracee execute the event it is held at and run to its next event (or the end).
func (t *tracee) step() {
	t.await()
	if t.fin {
		return
	}
	t.cur = nil
	t.grant <- struct{}{}
	t.await()
}

type sched struct {
	w, r      *tracee
	wStarted  int // write-outs started (B seen)
	wDone     int // write-outs completed (E ok seen)
	readLo    int // completed write-outs when the read began
	readHi    int // started write-outs when the read ended
	readBegan bool
	readEnded bool
	adj       map[string]bool // (reader event kind, writer event kind) adjacencies exercised
}

func (s *sched) note(t *tracee) {
	// account markers of the event the tracee is about to execute
	if t.cur == nil || t.cur.Sys != "marker" {
		return
	}
	f := strings.Fields(t.cur.Marker)
	if len(f) < 2 {
		return
	}
	if t == s.w {
		switch f[0] {
		case "B":
			s.wStarted++
		case "E":
			s.wDone++
		}
		return
	}
	switch f[0] {
	case "B":
		s.readBegan = true
		s.readLo = s.wDone
	case "E":
		s.readEnded = true
		s.readHi = s.wStarted
	}
}

// advance lets t execute n events (markers included), keeping the bookkeeping.
func (s *sched) advance(t *tracee, n int) {
	for i := 0; i < n; i++ {
		t.await()
		if t.fin {
			return
		}
		other := s.w
		if t == s.w {
			other = s.r
		}
		if other != nil && other.cur != nil && t.cur != nil && t.cur.Sys != "marker" && other.cur.Sys != "marker" {
			re, we := t.cur, other.cur
			if t == s.w {
				re, we = other.cur, t.cur
			}
			s.adj[re.Kind()+"|"+we.Kind()] = true
		}
		s.note(t)
		t.step()
	}
}

// finish runs t to completion.
func (s *sched) finish(t *tracee) {
	for !t.fin {
		s.advance(t, 1)
	}
}

func run(c *fw.Case) {
	kind := c.Idx % nKinds
	group := c.Idx / nKinds
	if c.Variant == "race" {
		kind = 3 // the schedules run separate (uninstrumented-equivalent) processes; only the in-process stress profits from -race
	}
	if kind == 3 {
		stress(c)
		return
	}
	// several cases share one history and enumerate its events: history index = group / slots
	const slots = 8
	hidx, slot := group/slots, group%slots
	hr := rand.New(rand.NewSource(c.Seed*7919 + int64(hidx)*104729 + 30 + int64(kind)))
	fatMode := -1
	if kind == 1 || kind == 4 {
		fatMode = 1 - hidx%2 // the frozen-reader kinds alternate; the first history (quick tier) is a fat one
	}
	h := genHistory(hr, fatMode)
	histFile := c.Tmp + "/history.json"
	h.Save(histFile)
	self, _ := os.Executable()
	n := len(h.Outs)

	runSchedule := func(name string, script func(s *sched)) {
		db := c.Tmp + "/db-" + name
		os.MkdirAll(db, 0o755)
		defer os.RemoveAll(db)
		out := c.Tmp + "/view-" + name
		c.Note("history %d schedule %s", hidx, name)
		s := &sched{adj: map[string]bool{}}
		s.w = startTracee("writer", []string{self, "-role", "dbwrite", db, histFile, "0", strconv.Itoa(n)}, db)
		s.r = startTracee("reader", []string{self, "-role", "dbread", db, out}, db)
		s.w.await()
		s.r.await()
		script(s)
		s.finish(s.r)
		s.finish(s.w)
		if s.w.res == nil || s.r.res == nil || s.w.res.Err != nil || s.r.res.Err != nil || s.w.res.TimedOut || s.r.res.TimedOut {
			c.Inconclusive("schedule %s: traced run failed (writer %+v reader %+v)", name, s.w.res, s.r.res)
			return
		}
		if s.r.res.ExitCode != 0 {
			c.Violatef("reader_crashed|"+kindName(kind), "history %d schedule %s: reader exited with %d", hidx, name, s.r.res.ExitCode)
			return
		}
		if !s.readEnded {
			s.readHi = s.wStarted
		}
		v, err := roles.LoadView(out)
		if err != nil {
			c.Inconclusive("schedule %s: cannot load reader view: %v", name, err)
			return
		}
		for a := range s.adj {
			c.Nontrivial(fmt.Sprintf("%d|%s", kind, a))
		}
		c.Count("schedules", 1)
		if s.readLo < s.readHi || s.readHi < n && s.readLo > 0 {
			c.Count("reads_concurrent_with_writeout", 1)
		}
		clause, detail, partial := checkView(h, v, s.readLo, s.readHi)
		if partial {
			c.Count("reads_seeing_partial_history", 1)
		}
		if clause != "" && c.Verbose {
			for _, e := range s.r.res.Events {
				c.Logf("  reader %s -> %d", e.String(), e.Ret)
			}
		}
		if clause != "" {
			c.Violatef(clause+"|"+kindName(kind), "history %d (%d write-outs), schedule %s: read began after %d completed write-outs and ended after %d started: %s", hidx, n, name, s.readLo, s.readHi, detail)
		}
	}

	switch kind {
	case 0:
		// reader atomically at writer event boundary k
		// first learn the number of writer events with a dry schedule (writer alone, reader last)
		total := countEvents(c, self, histFile, n)
		for k := slot; k < total; k += slots {
			k := k
			runSchedule(fmt.Sprintf("reader-atomic-at-w%d", k), func(s *sched) {
				s.advance(s.w, k)
				s.w.await()
				s.finish(s.r)
			})
			c.Count("sched_reader_atomic", 1)
		}
	case 1:
		// reader frozen at its own event k while the writer does 1-2 whole write-outs; the writer has
		// completed `pre` write-outs before the reader starts
		pre := 1 + hr.Intn(n-2)
		extra := 1 + hr.Intn(2)
		rTotal := countReaderEvents(c, self, histFile, pre)
		for k := slot; k < rTotal; k += slots {
			k := k
			runSchedule(fmt.Sprintf("reader-frozen-at-r%d-after-%d-plus-%d", k, pre, extra), func(s *sched) {
				advanceWriteouts(s, pre)
				s.advance(s.r, k)
				s.r.await()
				// the write-outs performed while the reader is frozen go (also) into the very day
				// directory the reader is working on
				advanceWriteoutsInto(s, h, extra)
			})
			c.Count("sched_reader_frozen", 1)
		}
	case 4:
		// reader frozen at its j-th column/metadata open while the writer performs one whole write-out,
		// then frozen again at the next (or next-but-one) such open while the writer performs another
		// one: two directory renames within one pass of the reader over a day, each landing before
		// some lazily opened column file has been opened
		if n < 4 {
			return
		}
		// start the reader when the last day of the history already holds committed blocks and at least
		// three more write-outs are still to come (two of them rename the directory under the reader)
		firstDay := gen.DayStart(h.Outs[0].Block.TS)
		pre := 0
		for pre < n && gen.DayStart(h.Outs[pre].Block.TS) == firstDay {
			pre++
		}
		pre += 1 + hr.Intn(2)
		if pre > n-3 {
			pre = n - 3
		}
		opens := 0
		for _, e := range readerEvents(c, self, histFile, pre) {
			e := e
			if isColumnOpen(&e) {
				opens++
			}
		}
		for j := slot; j < 2*opens; j += slots {
			first, gap := 1+j/2, 1+j%2
			runSchedule(fmt.Sprintf("reader-frozen-at-open%d-and-%d-later-after-%d", first, gap, pre), func(s *sched) {
				advanceWriteouts(s, pre)
				if !advanceToColumnOpen(s, first) {
					return
				}
				advanceWriteoutsInto(s, h, 1)
				s.advance(s.r, 1)
				if !advanceToColumnOpen(s, gap) {
					return
				}
				advanceWriteoutsInto(s, h, 1)
			})
			c.Count("sched_reader_frozen_twice", 1)
		}
	default:
		// random multi-switch schedule
		sr := c.Rng
		runSchedule(fmt.Sprintf("random-%d", c.Idx), func(s *sched) {
			advanceWriteouts(s, sr.Intn(n))
			for !s.r.fin && !s.w.fin {
				if sr.Intn(2) == 0 {
					s.advance(s.w, 1+sr.Intn(12))
				} else {
					s.advance(s.r, 1+sr.Intn(6))
				}
			}
		})
		c.Count("sched_random", 1)
	}
	c.Sample(map[string]any{"kind": kindName(kind), "history": hidx, "writeouts": n})
}

const nKinds = 5

func kindName(k int) string {
	return []string{"reader_atomic", "reader_frozen", "random", "stress", "reader_frozen_twice"}[k]
}

// isColumnOpen: the reader is about to open a column file or the metadata of a day directory (the
// lazily opened files whose first open may fall before or after a directory rename).
func isColumnOpen(e *ptr.Event) bool {
	return e != nil && e.Sys == "openat" && (strings.HasSuffix(e.Path, ".gpf") || strings.HasSuffix(e.Path, ".blockmeta"))
}

// advanceToColumnOpen lets the reader run until it is held at its n-th next column / metadata open
// (not yet executed); false if the reader finished first.
func advanceToColumnOpen(s *sched, n int) bool {
	for seen := 0; ; {
		s.r.await()
		if s.r.fin {
			return false
		}
		if isColumnOpen(s.r.cur) {
			seen++
			if seen == n {
				return true
			}
		}
		s.advance(s.r, 1)
	}
}

// dayDirOf extracts (iface, day) from the root-relative path of a file inside a day directory
// ("eth0/2020/07/1595980800_<suffix>/sip.gpf"); ok is false for any other path.
func dayDirOf(path string) (iface string, day int64, ok bool) {
	f := strings.Split(path, "/")
	if len(f) < 5 {
		return "", 0, false
	}
	pre, _, _ := strings.Cut(f[3], "_")
	d, err := strconv.ParseInt(pre, 10, 64)
	if err != nil {
		return "", 0, false
	}
	return f[0], d, true
}

// advanceWriteoutsInto lets the writer run until k more write-outs into the day directory the reader
// is currently held in (by the path of its pending event) have completed; write-outs to other
// directories that come first are performed as well. Without such a directory (or once the history
// is exhausted) it falls back to k write-outs of any kind.
func advanceWriteoutsInto(s *sched, h *roles.History, k int) {
	s.r.await()
	if s.r.fin || s.r.cur == nil {
		advanceWriteouts(s, k)
		return
	}
	iface, day, ok := dayDirOf(s.r.cur.Path)
	if !ok {
		advanceWriteouts(s, k)
		return
	}
	for hit := 0; hit < k && !s.w.fin && s.wDone < len(h.Outs); {
		o := h.Outs[s.wDone]
		advanceWriteouts(s, 1)
		if o.Iface == iface && gen.DayStart(o.Block.TS) == day {
			hit++
		}
	}
}

// advanceWriteouts lets the writer run until k more write-outs have completed.
func advanceWriteouts(s *sched, k int) {
	target := s.wDone + k
	for !s.w.fin && s.wDone < target {
		s.advance(s.w, 1)
	}
}

func countEvents(c *fw.Case, self, histFile string, n int) int {
	db := c.Tmp + "/db-count"
	os.MkdirAll(db, 0o755)
	defer os.RemoveAll(db)
	res := ptr.Run([]string{self, "-role", "dbwrite", db, histFile, "0", strconv.Itoa(n)}, ptr.Options{Roots: []string{db}})
	return len(res.Events)
}

func readerEvents(c *fw.Case, self, histFile string, pre int) []ptr.Event {
	db := c.Tmp + "/db-count"
	os.MkdirAll(db, 0o755)
	defer os.RemoveAll(db)
	ptr.Run([]string{self, "-role", "dbwrite", db, histFile, "0", strconv.Itoa(pre)}, ptr.Options{Roots: []string{db}})
	res := ptr.Run([]string{self, "-role", "dbread", db, c.Tmp + "/view-count"}, ptr.Options{Roots: []string{db}})
	return res.Events
}

func countReaderEvents(c *fw.Case, self, histFile string, pre int) int {
	db := c.Tmp + "/db-count"
	os.MkdirAll(db, 0o755)
	defer os.RemoveAll(db)
	ptr.Run([]string{self, "-role", "dbwrite", db, histFile, "0", strconv.Itoa(pre)}, ptr.Options{Roots: []string{db}})
	res := ptr.Run([]string{self, "-role", "dbread", db, c.Tmp + "/view-count"}, ptr.Options{Roots: []string{db}})
	return len(res.Events)
}

// ---------------------------------------------------------------------------------------------
// in-process stress + porcupine

type opIn struct {
	Write bool
	Part  dayKey
	K     int // write: ordinal within the partition (1-based)
}

func stress(c *fw.Case) {
	r := c.Rng
	h := genHistory(r, -1)
	db := c.Tmp + "/db"
	os.MkdirAll(db, 0o755)
	per := map[dayKey][]int{}
	ord := map[int]int{}
	for k, o := range h.Outs {
		dk := dayKey{o.Iface, gen.DayStart(o.Block.TS)}
		per[dk] = append(per[dk], k)
		ord[k] = len(per[dk])
	}
	var clock int64
	tick := func() int64 { return atomic.AddInt64(&clock, 1) }
	var mu sync.Mutex
	var ops []porcupine.Operation
	var started, completed int64
	var wg sync.WaitGroup
	stop := make(chan struct{})
	var firstViol atomic.Value
	nReaders := 3
	reads := int64(0)
	for g := 0; g < nReaders; g++ {
		g := g
		wg.Add(1)
		go func() {
			defer wg.Done()
			for {
				select {
				case <-stop:
					return
				default:
				}
				lo := int(atomic.LoadInt64(&completed))
				t0 := tick()
				v := dbx.Observe(db)
				t1 := tick()
				hi := int(atomic.LoadInt64(&started))
				atomic.AddInt64(&reads, 1)
				clause, detail, partial := checkView(h, v, lo, hi)
				if partial {
					c.Count("reads_seeing_partial_history", 1)
				}
				if lo < hi {
					c.Count("reads_concurrent_with_writeout", 1)
				}
				if clause != "" && firstViol.Load() == nil {
					firstViol.Store(clause + "\x00" + fmt.Sprintf("reader %d, read between %d completed and %d started write-outs: %s", g, lo, hi, detail))
				}
				if len(v.Errs) > 0 {
					continue
				}
				// one read operation per partition: number of visible blocks of that day
				seen := map[int]bool{}
				for rk := range v.Rows {
					if rk.SIP == mustAddr("10.9.9.9") && rk.Dport >= 1 && int(rk.Dport) <= len(h.Outs) {
						seen[int(rk.Dport)-1] = true
					}
				}
				mu.Lock()
				for dk, ks := range per {
					cnt := 0
					for _, k := range ks {
						if seen[k] {
							cnt++
						}
					}
					ops = append(ops, porcupine.Operation{ClientId: g + 1, Input: opIn{Part: dk}, Call: t0, Output: cnt, Return: t1})
				}
				mu.Unlock()
			}
		}()
	}
	for k, o := range h.Outs {
		dk := dayKey{o.Iface, gen.DayStart(o.Block.TS)}
		atomic.AddInt64(&started, 1)
		t0 := tick()
		err := gen.WriteBlock(db, o.Iface, o.Block, encoders.Type(h.Encoder), 0)
		t1 := tick()
		atomic.AddInt64(&completed, 1)
		if err != nil {
			c.Violatef("write_failed_under_concurrent_reads", "write-out %d failed: %v", k, err)
			break
		}
		mu.Lock()
		ops = append(ops, porcupine.Operation{ClientId: 0, Input: opIn{Write: true, Part: dk, K: ord[k]}, Call: t0, Output: 0, Return: t1})
		mu.Unlock()
		// let readers interleave
		for spin := int64(0); spin < 1+int64(r.Intn(3)); spin++ {
			target := atomic.LoadInt64(&reads) + 1
			for i := 0; i < 2000 && atomic.LoadInt64(&reads) < target; i++ {
				time.Sleep(100 * time.Microsecond)
			}
		}
	}
	close(stop)
	wg.Wait()
	c.Count("stress_histories", 1)
	c.Count("stress_reads", int(reads))
	if v := firstViol.Load(); v != nil {
		parts := strings.SplitN(v.(string), "\x00", 2)
		c.Violatef(parts[0]+"|stress", "%s", parts[1])
	}
	model := porcupine.Model{
		Partition: func(history []porcupine.Operation) [][]porcupine.Operation {
			m := map[dayKey][]porcupine.Operation{}
			for _, o := range history {
				in := o.Input.(opIn)
				m[in.Part] = append(m[in.Part], o)
			}
			var out [][]porcupine.Operation
			for _, v := range m {
				out = append(out, v)
			}
			return out
		},
		Init: func() any { return 0 },
		Step: func(st, in, out any) (bool, any) {
			i := in.(opIn)
			if i.Write {
				return i.K == st.(int)+1, i.K
			}
			return out.(int) == st.(int), st
		},
		DescribeOperation: func(in, out any) string {
			i := in.(opIn)
			if i.Write {
				return fmt.Sprintf("write #%d to %s/%d", i.K, i.Part.iface, i.Part.day)
			}
			return fmt.Sprintf("read %s/%d -> %v blocks", i.Part.iface, i.Part.day, out)
		},
	}
	res, _ := porcupine.CheckOperationsVerbose(model, ops, 60*time.Second)
	switch res {
	case porcupine.Illegal:
		c.Violatef("history_not_linearizable|stress", "porcupine: the recorded history of %d operations (%d reads) is not linearizable w.r.t. the per-day block-count model", len(ops), reads)
	case porcupine.Unknown:
		c.Inconclusive("porcupine timed out on %d operations", len(ops))
	default:
		c.Count("porcupine_ok", 1)
		c.Count("porcupine_operations", len(ops))
	}
	c.Nontrivial(fmt.Sprintf("stress|%d|%d", c.Idx, len(ops)))
	c.Sample(map[string]any{"kind": "stress", "writeouts": len(h.Outs), "reads": reads, "operations": len(ops)})
}
