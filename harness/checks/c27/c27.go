// Package c27: capture reconfiguration converges to the configured interfaces without data loss.
//
// A real capture.Manager (real GoDBHandler, scripted sources, host links replaced through the
// verif hook) is driven through a seeded history of configuration updates over a small interface
// universe: explicit names, regular expressions (disjoint, overlapping with equal and with different
// parameters, shadowed by explicit names), auto-detection with exclusions and parameter changes, with
// scripted traffic between the updates. Monitors after every update:
//   - the running set (Status, Config, captures with a live source) equals the set selected by the
//     latest configuration (independent selection model below);
//   - every running interface runs with the configuration the latest config assigns to it (exactly
//     where that is unambiguous; for interfaces matched by several regular expressions with different
//     parameters only membership and stability are demanded);
//   - re-applying the identical configuration restarts nothing and changes no capture's parameters;
//   - conservation: after the final shutdown the database holds, per interface, exactly the
//     aggregation of all packets that were delivered and consumed before the update that removed or
//     reconfigured the interface (or before shutdown).
package c27

import (
	"context"
	"errors"
	"fmt"
	"os"
	"regexp"
	"sort"
	"strings"
	"sync"
	"time"

	"github.com/els0r/goProbe/v4/cmd/goProbe/config"
	"golang.org/x/net/bpf"
	"verifharness/capx"
	"verifharness/fw"
	"verifharness/gen"
	"verifharness/src"
)

var universe = []string{"eth0", "eth1", "eth2", "wlan0", "tun0", "tun1"}

// patterns with deliberately overlapping match sets over the universe
var patterns = []string{"eth[0-9]", "eth[01]", "tun.*", ".*0", "(eth|wlan).*", "wlan0|tun1", "e.*2", "zzz.*"}

func init() {
	fw.Register(&fw.Check{
		ID:    "C27",
		Level: "exploration",
		Rule: "case = history of 3-12 configuration updates over the universe {eth0,eth1,eth2,wlan0,tun0,tun1} (+ names outside it): explicit lists, regexp configs (disjoint / overlapping with equal parameters / overlapping with different parameters / shadowed by an explicit entry), auto-detection with name and regexp exclusions, pure parameter changes (promisc, ring buffer, ignore_vlans, extra BPF filters); each configuration is applied 1-4 times in a row; seeded scripted IPv4/IPv6 traffic is delivered and consumed on the running interfaces between updates; final shutdown. " +
			"Oracle: independent selection model for the running set and the per-interface configuration, idempotence of re-application (no restart, no parameter change), and flow-log conservation of the database after shutdown. Distinct = (case, update index) where the update removed or reconfigured an interface that had consumed traffic.",
		Assumptions: []string{
			"`Disable: true` entries are not generated (semantics undocumented)",
			"for an interface matched by several regular expressions with different parameters the statement only fixes that the choice is deterministic: the oracle demands a parameter set of one of the matching expressions and stability under re-application",
			"no traffic is delivered while an update is in progress (packets arriving between the final write-out and the close of a capture are outside the statement)",
			"faults are injected only where nothing can be lost: a source initialisation failing once (the interface may stay down until the next update that selects it), and a capture error on a capture that has consumed nothing since it started (goProbe tears the interface down; the next update has to start it again)",
		},
		NumCases: func(tier, variant string) int {
			if variant == "race" {
				if tier == "thorough" {
					return 200
				}
				return 12
			}
			if tier == "thorough" {
				return 1500
			}
			return 80
		},
		Variants: func(tier string) []string { return []string{"default", "race"} },
		Run:      run,
		Require:  []string{"updates", "reapplications", "regexp_configs", "overlap_same_params", "overlap_diff_params", "autodetect_configs", "param_change_updates", "ifaces_removed_with_traffic", "ifaces_reconfigured_with_traffic", "db_ifaces_compared", "source_init_failures_injected", "capture_errors_injected"},
	})
}

type params struct {
	Promisc     bool
	IgnoreVLANs bool
	Block, Num  int
	BPF         int // number of extra BPF instructions (each `ret #k` with k = BPF)
}

func (p params) cfg() config.CaptureConfig {
	cc := config.CaptureConfig{Promisc: p.Promisc, IgnoreVLANs: p.IgnoreVLANs, RingBuffer: &config.RingBufferConfig{BlockSize: p.Block, NumBlocks: p.Num}}
	for i := 0; i < p.BPF; i++ {
		cc.ExtraBPFFilters = append(cc.ExtraBPFFilters, bpf.RawInstruction{Op: 0x06, K: uint32(p.BPF)})
	}
	return cc
}

func paramsOf(c config.CaptureConfig) params {
	p := params{Promisc: c.Promisc, IgnoreVLANs: c.IgnoreVLANs, BPF: len(c.ExtraBPFFilters)}
	for _, ins := range c.ExtraBPFFilters {
		if ins.Op != 0x06 || int(ins.K) != len(c.ExtraBPFFilters) {
			p.BPF = -1 // not a filter this harness generated
		}
	}
	if c.RingBuffer != nil {
		p.Block, p.Num = c.RingBuffer.BlockSize, c.RingBuffer.NumBlocks
	}
	return p
}

var defaultParams = paramsOf(config.DefaultCaptureConfig())

// spec is a generated configuration in harness terms (the oracle works on this, not on config.Config).
type spec struct {
	Auto    bool
	Exclude []string          // auto-detection exclusions (names or /regexp/)
	Entries map[string]params // explicit names and /regexp/ keys
	Kind    string
}

func (s *spec) config(dbPath string) *config.Config {
	cfg := &config.Config{DB: config.DBConfig{Path: dbPath, EncoderType: "lz4"}, Interfaces: config.Ifaces{}}
	if s.Auto {
		cfg.AutoDetection = config.AutoDetectionConfig{Enabled: true, Exclude: append([]string(nil), s.Exclude...)}
		return cfg
	}
	for k, p := range s.Entries {
		cfg.Interfaces[k] = p.cfg()
	}
	return cfg
}

func isRe(k string) bool {
	return len(k) >= 2 && strings.HasPrefix(k, "/") && strings.HasSuffix(k, "/")
}

// selection is the independent model of what a configuration selects: per interface the admissible
// parameter sets (exactly one unless several regular expressions with different parameters match).
func (s *spec) selection() map[string][]params {
	out := map[string][]params{}
	if s.Auto {
		var names []string
		var res []*regexp.Regexp
		for _, e := range s.Exclude {
			if isRe(e) {
				res = append(res, regexp.MustCompile(e[1:len(e)-1]))
			} else {
				names = append(names, e)
			}
		}
	links:
		for _, l := range universe {
			for _, n := range names {
				if n == l {
					continue links
				}
			}
			for _, re := range res {
				if re.MatchString(l) {
					continue links
				}
			}
			out[l] = []params{defaultParams}
		}
		return out
	}
	hasRe := false
	for k := range s.Entries {
		if isRe(k) {
			hasRe = true
		}
	}
	if !hasRe {
		for k, p := range s.Entries {
			out[k] = []params{p}
		}
		return out
	}
	// with regular expressions present only host links are candidates: an explicit entry wins,
	// otherwise any matching expression
	for _, l := range universe {
		if p, ok := s.Entries[l]; ok {
			out[l] = []params{p}
			continue
		}
		var adm []params
		for k, p := range s.Entries {
			if !isRe(k) {
				continue
			}
			if regexp.MustCompile(k[1 : len(k)-1]).MatchString(l) {
				dup := false
				for _, a := range adm {
					if a == p {
						dup = true
					}
				}
				if !dup {
					adm = append(adm, p)
				}
			}
		}
		if len(adm) > 0 {
			out[l] = adm
		}
	}
	return out
}

func names(m map[string][]params) []string {
	var out []string
	for k := range m {
		out = append(out, k)
	}
	sort.Strings(out)
	return out
}

func run(c *fw.Case) {
	r := c.Rng
	dbPath := c.Tmp + "/db"
	randParams := func() params {
		p := defaultParams
		switch r.Intn(6) {
		case 0:
			p.Promisc = true
		case 1:
			p.Block = []int{4096, 65536, 1 << 20}[r.Intn(3)]
		case 2:
			p.Num = 1 + r.Intn(8)
		case 3:
			p.IgnoreVLANs = true
		case 4:
			p.BPF = 1 + r.Intn(3)
		}
		return p
	}
	subset := func(pool []string, min int) []string {
		var out []string
		for _, n := range pool {
			if r.Intn(2) == 0 {
				out = append(out, n)
			}
		}
		for len(out) < min {
			out = append(out, pool[r.Intn(len(pool))])
		}
		return out
	}
	genSpec := func(prev *spec) *spec {
		s := &spec{Entries: map[string]params{}}
		switch k := r.Intn(10); {
		case k < 3: // explicit names
			s.Kind = "explicit"
			pool := universe
			if r.Intn(4) == 0 {
				pool = append(append([]string(nil), universe...), "dummy9")
			}
			for _, n := range subset(pool, 1) {
				s.Entries[n] = randParams()
			}
		case k < 4 && prev != nil && !prev.Auto: // pure parameter change of the previous configuration
			s.Kind = "param_change"
			for n, p := range prev.Entries {
				s.Entries[n] = p
			}
			ks := make([]string, 0, len(s.Entries))
			for n := range s.Entries {
				ks = append(ks, n)
			}
			sort.Strings(ks)
			n := ks[r.Intn(len(ks))]
			p := s.Entries[n]
			switch r.Intn(5) {
			case 0:
				p.Promisc = !p.Promisc
			case 1:
				p.Num++
			case 2:
				p.Block *= 2
			case 3:
				p.BPF = (p.BPF + 1) % 4
			default:
				p.IgnoreVLANs = !p.IgnoreVLANs
			}
			s.Entries[n] = p
		case k < 8: // regular expressions
			s.Kind = "regexp"
			same := r.Intn(2) == 0
			shared := randParams()
			nRe := 1 + r.Intn(3)
			perm := r.Perm(len(patterns))
			for i := 0; i < nRe; i++ {
				p := shared
				if !same {
					p = randParams()
				}
				s.Entries["/"+patterns[perm[i]]+"/"] = p
			}
			if r.Intn(2) == 0 { // explicit entries next to them (some shadow an expression, some are no host links)
				for _, n := range subset(append(append([]string(nil), universe...), "dummy9"), 0) {
					if r.Intn(2) == 0 {
						s.Entries[n] = randParams()
					}
				}
			}
		default: // auto-detection
			s.Kind = "auto"
			s.Auto = true
			for _, n := range subset(append(append([]string(nil), universe...), "lo"), 0) {
				if r.Intn(2) == 0 {
					s.Exclude = append(s.Exclude, n)
				}
			}
			if r.Intn(2) == 0 {
				s.Exclude = append(s.Exclude, "/"+patterns[r.Intn(len(patterns))]+"/")
			}
			if len(s.selection()) == 0 {
				s.Exclude = nil
			}
		}
		if !s.Auto && len(s.Entries) == 0 {
			s.Entries["eth0"] = defaultParams
		}
		return s
	}

	first := genSpec(nil)
	for first.Auto || len(first.selection()) == 0 { // the rig needs an initial configuration that starts something
		first = genSpec(nil)
	}
	rig, err := capx.NewRig(first.config(dbPath), capx.Options{Universe: universe})
	if err != nil {
		c.Inconclusive("rig: %v (config %+v)", err, first)
		return
	}
	closed := false
	defer func() {
		if !closed {
			rig.Close()
		}
	}()
	ctx := context.Background()

	// traffic bookkeeping: one script per interface name, consumed across all its capture instances
	scripts := map[string]*capx.Script{}
	pos := map[string]int{}
	all := map[string]*capx.Interval{}
	sinceStart := map[string]int{} // packets consumed by the current capture instance
	feed := func(iface string, n int) {
		s := rig.Source(iface)
		if s == nil || s.IsClosed() {
			return
		}
		if scripts[iface] == nil {
			scripts[iface] = capx.GenScript(c.SubRng("script-"+iface), capx.ScriptOpts{NConvs: 4 + r.Intn(12), NPkts: 3000, V6Prob: 0.45})
			all[iface] = capx.NewInterval()
		}
		sc := scripts[iface]
		var pk []src.Packet
		for k := 0; k < n && pos[iface] < len(sc.Pkts); k++ {
			p := sc.Pkts[pos[iface]]
			pos[iface]++
			all[iface].Add(p)
			pk = append(pk, p.Spec.Packet())
		}
		s.Feed(pk...)
		if !s.WaitIdleOr(20 * time.Second) {
			c.Inconclusive("source of %s did not consume its packets", iface)
		}
		sinceStart[iface] += len(pk)
	}

	// observation of the manager
	type obs struct {
		running []string
		cfg     map[string]params
		nSrc    map[string]int
	}
	observe := func(where string) obs {
		o := obs{cfg: map[string]params{}, nSrc: map[string]int{}}
		st := rig.Mgr.Status(ctx)
		for i := range st {
			o.running = append(o.running, i)
		}
		sort.Strings(o.running)
		var cfgNames []string
		for i := range rig.Mgr.Config() {
			cfgNames = append(cfgNames, i)
		}
		sort.Strings(cfgNames)
		if fmt.Sprint(cfgNames) != fmt.Sprint(o.running) {
			c.Violatef("status_vs_config_disagree", "%s: Status lists %v, Config lists %v", where, o.running, cfgNames)
		}
		for _, i := range o.running {
			cc, ok := rig.Mgr.VerifCaptureConfig(i)
			if !ok {
				c.Violatef("running_without_capture", "%s: %s is listed by Status but has no capture", where, i)
				continue
			}
			o.cfg[i] = paramsOf(cc)
			if s := rig.Source(i); s == nil || s.IsClosed() {
				c.Violatef("running_with_closed_source", "%s: %s is listed as running but its packet source is closed", where, i)
			}
		}
		for _, i := range append(append([]string(nil), universe...), "dummy9") {
			o.nSrc[i] = len(rig.AllSources(i))
			if s := rig.Source(i); s != nil && !s.IsClosed() {
				found := false
				for _, x := range o.running {
					if x == i {
						found = true
					}
				}
				if !found {
					c.Violatef("source_open_but_not_running", "%s: the packet source of %s is open although the interface is not reported as running", where, i)
				}
			}
		}
		return o
	}
	checkAgainst := func(where string, s *spec, o obs, failed map[string]bool) {
		sel := s.selection()
		for i := range failed {
			delete(sel, i) // its source could not be initialised during this update: it cannot run yet
		}
		if want := names(sel); fmt.Sprint(want) != fmt.Sprint(o.running) {
			c.Violatef("running_set|"+s.Kind, "%s: configuration %s selects %v but %v are running", where, describe(s), want, o.running)
			return
		}
		for _, i := range o.running {
			adm := sel[i]
			okp := false
			for _, a := range adm {
				if a == o.cfg[i] {
					okp = true
				}
			}
			if !okp {
				cls := "unambiguous"
				if len(adm) > 1 {
					cls = "several_regexps"
				}
				c.Violatef("iface_config|"+s.Kind+"|"+cls, "%s: configuration %s assigns %s the parameters %+v but its capture runs with %+v", where, describe(s), i, adm, o.cfg[i])
			}
		}
	}

	cur := first
	o := observe("after start")
	checkAgainst("after start", cur, o, nil)
	nUpd := 3 + r.Intn(10)
	for u := 0; u < nUpd; u++ {
		// fault: a capture error on a running interface that has not consumed anything since it was
		// started (so nothing can be lost): goProbe tears the interface down; the next update that still
		// selects it has to start it again
		tornDown := map[string]bool{}
		if r.Intn(8) == 0 && len(o.running) > 0 {
			i := o.running[r.Intn(len(o.running))]
			if s := rig.Source(i); s != nil && sinceStart[i] == 0 {
				c.Note("capture error injected on %s", i)
				s.Fail(errors.New("scripted capture error"))
				gone := false
				for w := 0; w < 30000 && !gone; w++ { // state-based wait, generous safety net
					if _, running := rig.Mgr.VerifCaptureConfig(i); !running {
						gone = true
					} else {
						time.Sleep(time.Millisecond)
					}
				}
				if !gone {
					if os.Getenv("VERIF_DEBUG") != "" {
						fmt.Fprintln(os.Stderr, rig.Log.String())
					}
					c.Inconclusive("interface %s was not taken down within 30 s after a capture error", i)
					return
				}
				tornDown[i] = true
				c.Count("capture_errors_injected", 1)
			}
		}
		// traffic on the running interfaces
		o = observe(fmt.Sprintf("before update %d", u))
		for _, i := range o.running {
			if r.Intn(4) != 0 {
				feed(i, 1+r.Intn(120))
			}
		}
		next := genSpec(cur)
		reps := 1 + r.Intn(4)
		selNext := next.selection()
		// fault: the source initialisation of one interface this update has to start fails once
		failInit := ""
		if r.Intn(6) == 0 {
			var cand []string
			for _, i := range names(selNext) {
				running := false
				for _, x := range o.running {
					if x == i {
						running = true
					}
				}
				if !running || len(selNext[i]) == 1 && selNext[i][0] != o.cfg[i] {
					cand = append(cand, i)
				}
			}
			if len(cand) > 0 {
				failInit = cand[r.Intn(len(cand))]
				if reps < 2 {
					reps = 2 // the configuration is applied again after the fault has cleared
				}
			}
		}
		failedPrev := map[string]bool{}
		for rep := 0; rep < reps; rep++ {
			where := fmt.Sprintf("update %d (application %d of %d)", u, rep+1, reps)
			c.Note("%s: %s", where, describe(next))
			before := o
			failedNow := map[string]bool{}
			if rep == 0 && failInit != "" {
				once := true
				var hookMu sync.Mutex // captures are started on separate goroutines
				rig.SetInitErr(func(iface string) error {
					hookMu.Lock()
					defer hookMu.Unlock()
					if iface == failInit && once {
						once = false
						failedNow[iface] = true
						return errors.New("scripted source initialisation failure")
					}
					return nil
				})
				where += fmt.Sprintf(" [source init of %s fails once]", failInit)
			}
			_, _, _, err := rig.Mgr.Update(ctx, next.config(dbPath))
			rig.SetInitErr(nil)
			if err != nil {
				c.Violatef("update_error|"+next.Kind, "%s: Update(%s) failed: %v", where, describe(next), err)
				return
			}
			if len(failedNow) > 0 {
				c.Count("source_init_failures_injected", 1)
			}
			if len(failedPrev) > 0 || len(tornDown) > 0 {
				where += fmt.Sprintf(" [after a fault on %v%v has cleared]", names2(failedPrev), names2(tornDown))
			}
			o = observe(where)
			checkAgainst(where, next, o, failedNow)
			if rep == 0 {
				c.Count("updates", 1)
				switch next.Kind {
				case "regexp":
					c.Count("regexp_configs", 1)
					same, diff := false, false
					for _, adm := range selNext {
						if len(adm) > 1 {
							diff = true
						}
					}
					nMatch := map[string]int{}
					for k := range next.Entries {
						if isRe(k) {
							for _, l := range universe {
								if regexp.MustCompile(k[1 : len(k)-1]).MatchString(l) {
									nMatch[l]++
								}
							}
						}
					}
					for l, n := range nMatch {
						if n > 1 && len(selNext[l]) == 1 {
							same = true
						}
					}
					if same {
						c.Count("overlap_same_params", 1)
					}
					if diff {
						c.Count("overlap_diff_params", 1)
					}
				case "auto":
					c.Count("autodetect_configs", 1)
				case "param_change":
					c.Count("param_change_updates", 1)
				}
				// which interfaces with consumed traffic were removed / reconfigured by this update
				for _, i := range before.running {
					if sinceStart[i] == 0 {
						continue
					}
					if _, still := selNext[i]; !still {
						c.Count("ifaces_removed_with_traffic", 1)
						c.Nontrivial(fmt.Sprintf("%d/%d/%s", c.Idx, u, i))
					} else if o.nSrc[i] > before.nSrc[i] {
						c.Count("ifaces_reconfigured_with_traffic", 1)
						c.Nontrivial(fmt.Sprintf("%d/%d/%s", c.Idx, u, i))
					}
				}
				for i := range sinceStart {
					if o.nSrc[i] > before.nSrc[i] || selNext[i] == nil {
						sinceStart[i] = 0
					}
				}
			} else {
				c.Count("reapplications", 1)
				// identical configuration: nothing may restart, no parameters may change
				for _, i := range o.running {
					if failedPrev[i] {
						continue // could not be started by the previous application: starting it now is the point
					}
					if o.nSrc[i] != before.nSrc[i] {
						c.Violatef("reapply_restarts_capture|"+next.Kind, "%s: re-applying the identical configuration %s restarted the capture of %s (parameters before %+v, after %+v)", where, describe(next), i, before.cfg[i], o.cfg[i])
					} else if o.cfg[i] != before.cfg[i] {
						c.Violatef("reapply_changes_config|"+next.Kind, "%s: re-applying the identical configuration %s changed the parameters of %s from %+v to %+v", where, describe(next), i, before.cfg[i], o.cfg[i])
					}
				}
			}
			for i := range failedNow {
				sinceStart[i] = 0
			}
			failedPrev = failedNow
			tornDown = map[string]bool{}
		}
		cur = next
	}
	// last traffic, then shutdown (final write-out of everything still in memory)
	for _, i := range o.running {
		feed(i, 1+r.Intn(60))
	}
	rig.Close()
	closed = true
	if os.Getenv("VERIF_DEBUG") != "" {
		fmt.Fprintln(os.Stderr, rig.Log.String())
	}

	var ifs []string
	for i := range all {
		ifs = append(ifs, i)
	}
	sort.Strings(ifs)
	for _, i := range ifs {
		c.Count("db_ifaces_compared", 1)
		stored, err := capx.ReadDB(dbPath, i)
		if err != nil && pos[i] > 0 {
			c.Violatef("db_read_error", "iface %s (%d packets consumed): %v", i, pos[i], err)
			continue
		}
		merged := map[string]gen.Flow{}
		for _, fl := range stored {
			for _, f := range fl {
				k := f.KeyString()
				m, ok := merged[k]
				if !ok {
					merged[k] = f
					continue
				}
				m.BR += f.BR
				m.BS += f.BS
				m.PR += f.PR
				m.PS += f.PS
				merged[k] = m
			}
		}
		var flows []gen.Flow
		for _, f := range merged {
			flows = append(flows, f)
		}
		// orientation restarts with every capture instance, so only conservation per unordered pair is
		// demanded here (orientation is C22's business)
		for _, m := range capx.CompareInterval(all[i], flows, scripts[i].Convs, map[capx.PairKey]bool{}) {
			if strings.HasPrefix(m.Clause, "decisive") {
				continue
			}
			c.Violatef("db|"+m.Clause, "iface %s after %d consumed packets over %d capture instances: %s", i, pos[i], len(rig.AllSources(i)), m.Detail)
		}
	}
	c.Sample(map[string]any{"first": describe(first), "last": describe(cur), "updates": nUpd, "consumed": pos})
}

func describe(s *spec) string {
	if s.Auto {
		return fmt.Sprintf("{auto-detection, exclude %v}", s.Exclude)
	}
	var ks []string
	for k := range s.Entries {
		ks = append(ks, k)
	}
	sort.Strings(ks)
	var parts []string
	for _, k := range ks {
		p := s.Entries[k]
		parts = append(parts, fmt.Sprintf("%s:%s", k, pstr(p)))
	}
	return "{" + s.Kind + " " + strings.Join(parts, " ") + "}"
}

func pstr(p params) string {
	return fmt.Sprintf("(promisc=%v,vlan=%v,rb=%dx%d,bpf=%d)", p.Promisc, p.IgnoreVLANs, p.Block, p.Num, p.BPF)
}

func names2(m map[string]bool) []string {
	var out []string
	for k := range m {
		out = append(out, k)
	}
	sort.Strings(out)
	return out
}
