// Package c25: an interrupted merge never duplicates or hides data.
//
// goDB.MergeDatabases runs in a child process under the ptrace tracer and is SIGKILLed at the entry
// of the N-th file-system call touching the destination. Afterwards every destination day must hold
// either its pre-merge or its merged content (as seen by the real query engine, listing and
// interface list), and an identical fault-free merge must converge to the fully merged state.
package c25

import (
	"fmt"
	"math/rand"
	"os"
	"os/exec"
	"strings"

	"github.com/els0r/goProbe/v4/pkg/goDB/encoder/encoders"
	"verifharness/dbx"
	"verifharness/fw"
	"verifharness/gen"
	"verifharness/ptr"
	"verifharness/ref"
)

const tol = 43200 // completeness tolerance handed to the merge: days with blocks around noon are "complete"

func slots(tier string) int {
	if tier == "thorough" {
		return 64
	}
	return 32
}

func merges(tier string) int {
	if tier == "thorough" {
		return 6 // measured: ~4 min per merge on 16 idle cores (every FS call touching the destination)
	}
	return 2
}

func init() {
	fw.Register(&fw.Check{
		ID:    "C25",
		Level: "fault_enumeration",
		Rule: "merge scenario = seeded source and destination databases over 1-2 interfaces x 2-3 days, each (iface, day) drawn from {source-only complete (copy), source-only partial (rebuild), both complete (skip / overwrite-copy with backup), both partial with overlapping block timestamps (rebuild with existing), destination-only}; overwrite on/off. " +
			"One traced run per crash point = entry of every file-system call touching the destination during the merge. Oracle: per (iface, day) the rows returned by the real query engine equal the pre-merge or the merged day (merge-plan oracle), never a mix, both or neither; listing totals equal the sum for a consistent choice; the interface list equals the real interfaces; a subsequent identical fault-free merge succeeds and yields the fully merged database. Distinct = (scenario, event index).",
		Assumptions: []string{"SIGKILL at a syscall boundary models the crash", "completeness tolerance 12 h so that small days can be 'complete'"},
		NumCases:    func(tier, variant string) int { return merges(tier) * slots(tier) },
		Run:         run,
		Require:     []string{"crash_runs", "crash_in_commit_rename", "crash_with_backup_present", "remerge_ok", "days_copy", "days_rebuild"},
		CaseTimeout: 300e9,
	})
}

// Scenario is a generated merge scenario.
type Scenario struct {
	Src, Dst  *gen.RefDB
	Overwrite bool
}

func smallBlock(r *rand.Rand, ts int64, tag uint16) gen.Block {
	b := gen.Block{TS: ts, Drops: uint64(r.Intn(3))}
	n := 1 + r.Intn(4)
	seen := map[string]bool{}
	for i := 0; i < n; i++ {
		f := gen.RandFlow(r, gen.FlowOpts{V6Prob: 0.4})
		f.Dport = tag // marks the origin (source / destination) of the block
		if !seen[f.KeyString()] {
			seen[f.KeyString()] = true
			b.Flows = append(b.Flows, f)
		}
	}
	return b
}

// GenScenario draws a merge scenario.
func GenScenario(r *rand.Rand) *Scenario {
	sc := &Scenario{Src: &gen.RefDB{}, Dst: &gen.RefDB{}, Overwrite: r.Intn(2) == 0}
	base := gen.DayStart(gen.MinTS) + 86400*int64(1+r.Intn(11000))
	nIf := 1 + r.Intn(2)
	nDays := 2 + r.Intn(2)
	complete := func(day int64) []int64 { return []int64{day + 42600, day + 43200} }
	partialHead := func(day int64) []int64 { return []int64{day + 3600, day + 7200, day + 7500} }
	partialMid := func(day int64) []int64 { return []int64{day + 7200, day + 7500, day + 9000} } // overlaps partialHead at 7200, 7500
	for i := 0; i < nIf; i++ {
		name := []string{"eth0", "eth1"}[i]
		var s, d gen.IfaceData
		s.Name, d.Name = name, name
		for k := 0; k < nDays; k++ {
			day := base + int64(k)*86400
			add := func(id *gen.IfaceData, tss []int64, tag uint16) {
				for _, t := range tss {
					id.Blocks = append(id.Blocks, smallBlock(r, t, tag))
				}
			}
			switch r.Intn(7) {
			case 0: // copy
				add(&s, complete(day), 1000)
			case 1: // rebuild from source only
				add(&s, partialHead(day), 1000)
			case 2: // both complete: skip or overwrite-copy (backup path)
				add(&s, complete(day), 1000)
				add(&d, complete(day), 2000)
			case 3: // rebuild with existing destination, overlapping timestamps
				add(&s, partialHead(day), 1000)
				add(&d, partialMid(day), 2000)
			case 4: // source complete, destination partial
				add(&s, complete(day), 1000)
				add(&d, partialHead(day), 2000)
			case 5: // destination only
				add(&d, partialMid(day), 2000)
			default: // source partial, destination complete
				add(&s, partialMid(day), 1000)
				add(&d, complete(day), 2000)
			}
		}
		if len(s.Blocks) > 0 {
			sc.Src.Ifaces = append(sc.Src.Ifaces, s)
		}
		if len(d.Blocks) > 0 {
			sc.Dst.Ifaces = append(sc.Dst.Ifaces, d)
		}
	}
	if len(sc.Src.Ifaces) == 0 {
		sc.Src.Ifaces = append(sc.Src.Ifaces, gen.IfaceData{Name: "eth0", Blocks: []gen.Block{smallBlock(r, base+42600, 1000), smallBlock(r, base+43200, 1000)}})
	}
	return sc
}

// dayAlt holds the two admissible contents of one destination day.
type dayAlt struct {
	iface         string
	day           int64
	before, after []gen.Block
	act           ref.MergeAction
}

// Plan computes per (iface, day) the pre-merge and merged content.
func (sc *Scenario) Plan() []dayAlt {
	var out []dayAlt
	names := map[string]bool{}
	for _, n := range sc.Src.IfaceNames() {
		names[n] = true
	}
	for _, n := range sc.Dst.IfaceNames() {
		names[n] = true
	}
	for _, n := range []string{"eth0", "eth1"} {
		if !names[n] {
			continue
		}
		s, d := sc.Src.Iface(n), sc.Dst.Iface(n)
		for _, day := range ref.Days(s, d) {
			sb, db := ref.DayBlocks(s, day), ref.DayBlocks(d, day)
			res, act, _, _ := ref.MergeDay(sb, db, day, tol, sc.Overwrite)
			out = append(out, dayAlt{iface: n, day: day, before: db, after: res, act: act})
		}
	}
	return out
}

func refDBOf(plan []dayAlt, pick func(i int) []gen.Block) *gen.RefDB {
	db := &gen.RefDB{}
	for i, p := range plan {
		bl := pick(i)
		if len(bl) == 0 {
			continue
		}
		id := db.Iface(p.iface)
		if id == nil {
			db.Ifaces = append(db.Ifaces, gen.IfaceData{Name: p.iface})
			id = &db.Ifaces[len(db.Ifaces)-1]
		}
		id.Blocks = append(id.Blocks, bl...)
	}
	return db
}

func runMergePlain(self, srcP, dstP string, overwrite bool) ([]string, error) {
	pr, pw, err := os.Pipe()
	if err != nil {
		return nil, err
	}
	ow := "0"
	if overwrite {
		ow = "1"
	}
	cmd := exec.Command(self, "-role", "dbmerge", srcP, dstP, ow, fmt.Sprint(tol), "-")
	cmd.ExtraFiles = []*os.File{pw}
	if err := cmd.Start(); err != nil {
		pw.Close()
		pr.Close()
		return nil, err
	}
	pw.Close()
	var sb strings.Builder
	buf := make([]byte, 65536)
	for {
		n, rerr := pr.Read(buf)
		sb.Write(buf[:n])
		if rerr != nil {
			break
		}
	}
	pr.Close()
	werr := cmd.Wait()
	var lines []string
	for _, l := range strings.Split(sb.String(), "\n") {
		if l != "" {
			lines = append(lines, l)
		}
	}
	return lines, werr
}

func copyTree(src, dst string) error {
	return exec.Command("cp", "-a", src, dst).Run()
}

func run(c *fw.Case) {
	P := slots(c.Tier)
	midx, slot := c.Idx/P, c.Idx%P
	sr := rand.New(rand.NewSource(c.Seed*7919 + int64(midx)*104729 + 25))
	sc := GenScenario(sr)
	plan := sc.Plan()
	srcP, dst0 := c.Tmp+"/src", c.Tmp+"/dst0"
	enc := encoders.EncoderTypeLZ4
	if err := sc.Src.Write(srcP, enc, 0); err != nil {
		c.Inconclusive("write src: %v", err)
		return
	}
	os.MkdirAll(dst0, 0o755)
	if err := sc.Dst.Write(dst0, enc, 0); err != nil {
		c.Inconclusive("write dst: %v", err)
		return
	}
	self, _ := os.Executable()
	ow := "0"
	if sc.Overwrite {
		ow = "1"
	}
	argv := func(dst string) []string {
		return []string{self, "-role", "dbmerge", srcP, dst, ow, fmt.Sprint(tol), "-"}
	}
	// fault-free traced run: enumerate the events and validate the merge oracle itself
	dstC := c.Tmp + "/dst-count"
	copyTree(dst0, dstC)
	cnt := ptr.Run(argv(dstC), ptr.Options{Roots: []string{dstC}})
	if cnt.Err != nil || cnt.TimedOut || cnt.ExitCode != 0 {
		c.Inconclusive("count run failed: err=%v timeout=%v exit=%d", cnt.Err, cnt.TimedOut, cnt.ExitCode)
		return
	}
	if len(cnt.MarkerLog) < 2 || !strings.HasPrefix(cnt.MarkerLog[len(cnt.MarkerLog)-1], "E 0 ok") {
		c.Violatef("fault_free_merge_failed", "scenario %d: fault-free merge reported %v", midx, cnt.MarkerLog)
		return
	}
	merged := dbx.Expect(refDBOf(plan, func(i int) []gen.Block { return plan[i].after }))
	if mm := dbx.Compare(merged, dbx.Observe(dstC), true); len(mm) > 0 {
		c.Violatef("fault_free_merge_result|"+mm[0].Clause, "scenario %d (overwrite=%v): after an uninterrupted merge: %s", midx, sc.Overwrite, mm[0].Detail)
		return
	}
	os.RemoveAll(dstC)
	var acts []string
	for _, p := range plan {
		acts = append(acts, fmt.Sprintf("%s/%d:%s", p.iface, p.day, p.act))
		c.Count("days_"+string(p.act), 0)
	}
	// crash points: every file-system event; in the quick tier the bulk of look-alike events (data
	// I/O on files inside the staging directory, which no reader can see) is thinned to every 3rd one,
	// everything that touches the visible tree (renames, backups, directories, metadata) is kept
	var points []int
	bulk := 0
	for i, e := range cnt.Events {
		if e.Sys == "marker" {
			continue
		}
		if c.Tier != "thorough" && classOf(e) == "stage" {
			switch e.Sys {
			case "write", "lseek", "read", "pread64", "pwrite64", "fstat", "close", "openat":
				bulk++
				if bulk%3 != 0 {
					continue
				}
			}
		}
		points = append(points, i)
	}
	if slot == 0 {
		for _, p := range plan {
			c.Count("days_"+string(p.act), 1)
		}
		var tr []string
		for i, e := range cnt.Events {
			if i > 40 {
				break
			}
			tr = append(tr, e.String())
		}
		c.Sample(map[string]any{"scenario": midx, "overwrite": sc.Overwrite, "plan": acts, "crash_points": len(points), "trace_prefix": tr})
	}
	for j, at := range points {
		if j%P != slot {
			continue
		}
		crashAt(c, sc, plan, midx, cnt.Events, at, srcP, dst0, argv)
	}
}

func crashAt(c *fw.Case, sc *Scenario, plan []dayAlt, midx int, ref0 []ptr.Event, at int, srcP, dst0 string, argv func(string) []string) {
	ev := ref0[at]
	dst := fmt.Sprintf("%s/dst-%d", c.Tmp, at)
	copyTree(dst0, dst)
	defer os.RemoveAll(dst)
	desc := fmt.Sprintf("scenario %d (overwrite=%v), merge killed at event %s", midx, sc.Overwrite, normEv(ev))
	c.Note("%s", desc)
	res := ptr.Run(argv(dst), ptr.Options{Roots: []string{dst}, Policy: func(e *ptr.Event) ptr.Decision {
		if e.Idx == at {
			return ptr.Decision{Act: ptr.Kill}
		}
		return ptr.Decision{}
	}})
	if res.Err != nil || res.TimedOut {
		c.Inconclusive("traced run failed: %v timeout=%v", res.Err, res.TimedOut)
		return
	}
	if !res.Killed || len(res.Events) <= at || res.Events[at].Sys != ev.Sys {
		c.Count("trace_diverged", 1)
		return
	}
	c.Count("crash_runs", 1)
	kind := ev.Sys + ":" + classOf(ev)
	c.Count("crash_at_"+kind, 1)
	if strings.HasPrefix(ev.Sys, "rename") {
		c.Count("crash_in_commit_rename", 1)
	}
	c.Nontrivial(fmt.Sprintf("%d/%d", midx, at))
	backupPresent := false
	filepathWalk(dst, func(p string) {
		if strings.Contains(p, "gpdb-merge-backup") {
			backupPresent = true
		}
	})
	if backupPresent {
		c.Count("crash_with_backup_present", 1)
	}

	got := dbx.Observe(dst)
	// per-day decision on the query rows
	type choice struct{ a, b bool }
	choices := make([]choice, len(plan))
	viol := false
	for i, p := range plan {
		dayRows := ref.Rows{}
		for k, v := range got.Rows {
			if k.Iface == p.iface && gen.DayStart(k.TS) == p.day {
				dayRows[k] = v
			}
		}
		one := func(bl []gen.Block) ref.Rows {
			return dbx.Expect(&gen.RefDB{Ifaces: []gen.IfaceData{{Name: p.iface, Blocks: bl}}}).Rows
		}
		a, b := one(p.before), one(p.after)
		choices[i] = choice{ref.Diff(a, dayRows) == "", ref.Diff(b, dayRows) == ""}
		if !choices[i].a && !choices[i].b {
			state := classify(a, b, dayRows)
			c.Violatef("day_state|"+state+"|"+kind, "%s: day %d of %s (plan %s) is neither its pre-merge nor its merged content (%s): vs pre-merge: %s ;; vs merged: %s", desc, p.day, p.iface, p.act, state, ref.Diff(a, dayRows), ref.Diff(b, dayRows))
			viol = true
		}
	}
	for _, e := range got.Errs {
		c.Violatef("reader_error|"+kind, "%s: %s", desc, e)
		viol = true
	}
	// interface list: exactly the real interfaces (those of destination before or after)
	real := map[string]bool{}
	for _, p := range plan {
		real[p.iface] = true
	}
	for _, i := range got.Ifaces {
		if !real[i] {
			c.Violatef("artifact_listed_as_interface|"+kind, "%s: %q is reported as an interface (interfaces: %v)", desc, i, got.Ifaces)
			viol = true
		}
	}
	if !viol {
		// listing totals must match some consistent assignment
		okListing := false
		var amb []int
		for i, ch := range choices {
			if ch.a && ch.b {
				amb = append(amb, i)
			}
		}
		if len(amb) > 10 {
			amb = amb[:10]
		}
		for mask := 0; mask < 1<<len(amb) && !okListing; mask++ {
			pick := func(i int) []gen.Block {
				for bi, ai := range amb {
					if ai == i {
						if mask&(1<<bi) != 0 {
							return plan[i].after
						}
						return plan[i].before
					}
				}
				if choices[i].a {
					return plan[i].before
				}
				return plan[i].after
			}
			want := dbx.Expect(refDBOf(plan, pick))
			okListing = true
			for ifc, g := range got.Listing {
				if w := want.Listing[ifc]; w != g {
					okListing = false
				}
			}
		}
		if !okListing {
			c.Violatef("listing_inconsistent|"+kind, "%s: interface listing %+v matches no combination of pre-merge / merged days", desc, got.Listing)
			viol = true
		}
	}
	if viol {
		return
	}
	// identical fault-free merge must converge
	self, _ := os.Executable()
	lines, err := runMergePlain(self, srcP, dst, sc.Overwrite)
	if err != nil || len(lines) == 0 || !strings.HasPrefix(lines[len(lines)-1], "E 0 ok") {
		c.Violatef("remerge_failed|"+kind, "%s: the identical merge run afterwards failed: %v %v", desc, err, lines)
		return
	}
	merged := dbx.Expect(refDBOf(plan, func(i int) []gen.Block { return plan[i].after }))
	if mm := dbx.Compare(merged, dbx.Observe(dst), true); len(mm) > 0 {
		c.Violatef("remerge_result|"+mm[0].Clause+"|"+kind, "%s: after the identical merge run afterwards: %s", desc, mm[0].Detail)
		return
	}
	left := ""
	filepathWalk(dst, func(p string) {
		if strings.Contains(p, "gpdb-merge-") && left == "" {
			left = p
		}
	})
	if left != "" {
		c.Count("artifacts_left_after_remerge", 1)
	}
	c.Count("remerge_ok", 1)
}

func classify(a, b, got ref.Rows) string {
	if len(got) == 0 && (len(a) > 0 || len(b) > 0) {
		return "neither(day hidden)"
	}
	// both: every row of a and b present
	both := true
	for k := range a {
		if _, ok := got[k]; !ok {
			both = false
		}
	}
	for k := range b {
		if _, ok := got[k]; !ok {
			both = false
		}
	}
	if both && len(got) > 0 {
		return "both(doubled)"
	}
	return "mixed"
}

func classOf(e ptr.Event) string {
	p := e.Path
	if e.Path2 != "" {
		p = e.Path + " " + e.Path2
	}
	switch {
	case strings.Contains(p, "gpdb-merge-backup"):
		return "backup"
	case strings.Contains(p, "gpdb-merge-stage"):
		return "stage"
	default:
		return ptr.FileClass(e.Path)
	}
}

func normEv(e ptr.Event) string { return e.String() }

func filepathWalk(root string, fn func(p string)) {
	entries, err := os.ReadDir(root)
	if err != nil {
		return
	}
	for _, e := range entries {
		p := root + "/" + e.Name()
		fn(p)
		if e.IsDir() {
			filepathWalk(p, fn)
		}
	}
}
