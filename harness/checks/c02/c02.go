// Package c02: databases are interchangeable between cgo and native compression builds — a database
// written by any build configuration (cgo, CGO_ENABLED=0, goprobe_noliblz4, goprobe_nolibzstd) holds
// the same flows and is read back unchanged by every other build configuration.
package c02

import (
	"bytes"
	"crypto/sha256"
	"encoding/hex"
	"encoding/json"
	"fmt"
	"math/rand"
	"net/netip"
	"os"
	"os/exec"
	"path/filepath"
	"sort"
	"strings"
	"time"

	"github.com/els0r/goProbe/v4/pkg/goDB/encoder/encoders"
	"github.com/els0r/goProbe/v4/pkg/goDB/storage/gpfile"
	"github.com/els0r/goProbe/v4/pkg/types"
	"verifharness/eng"
	"verifharness/fw"
	"verifharness/gen"
	"verifharness/ref"
	"verifharness/stor"
)

// Builds lists the writer / reader build configurations (fw variant names).
var Builds = []string{"default", "nocgo", "nolz4", "nozstd"}

func init() {
	fw.Register(&fw.Check{
		ID:    "C02",
		Level: "exploration",
		Rule: "case = one seeded workload = (i) a RefDB (1-3 ifaces, 1-3 days, both IP families, small and wide address alphabets, blocks of up to 4000 (quick) / 30000 (thorough) flows so that columns exceed 4 KiB / 64 KiB and some are incompressible) " +
			"written through goDB.DBWriter with one encoder from {lz4, zstd, null} and a level from {default, 1, mid, max}, and (ii) a raw gpfile column history (2-5 sessions, encoder and level per session, payload classes and sizes as in C01). " +
			"The workload is written by a helper process of each of the 4 build configurations (cgo, CGO_ENABLED=0, goprobe_noliblz4, goprobe_nolibzstd) and each of the 4 databases is dumped by a helper process of each of the 4 configurations (16 writer x reader pairs): " +
			"flows via the real query engine (time,iface,sip,dip,dport,proto over the whole range), raw columns as SHA-256 per (day, block, column) plus block/day metadata. " +
			"Oracle: every dump equals the independent aggregation of the RefDB (ref.Query) / the hashes of the generated payloads; equality of flows, not of file bytes. " +
			"A pair is non-trivial iff writer and reader use different implementations of the case's compressor and the workload holds a compressed block; distinct by (encoder, level, writer build, reader build, workload seed).",
		Assumptions: []string{
			"the four helper binaries are built from the same source tree as the check (fw.VariantBinary)",
			"block timestamps >= 1000080000; strictly increasing per day",
			"the query engine is used without conditions (its own correctness is C08)",
		},
		NumCases: func(tier, variant string) int {
			if tier == "thorough" {
				return stor.DevCases(320)
			}
			return stor.DevCases(24)
		},
		Prepare: prepare,
		Run:     run,
		Env:     func(tier, variant string) []string { return []string{"GOMAXPROCS=2"} },
		Require: []string{"pairs_checked", "pairs_cross_impl_lz4", "pairs_cross_impl_zstd", "pairs_w_native_r_cgo", "pairs_w_cgo_r_native",
			"flow_rows_compared", "raw_blocks_compared", "raw_blocks_compressed", "raw_blocks_fallback_expected", "raw_blocks_gt_64k", "flows_columns_gt_4k"},
		CaseTimeout: 900 * time.Second, // generous: 64 helper processes per case, starved on a loaded machine
	})
	fw.RegisterRole("c02-write", roleWrite)
	fw.RegisterRole("c02-dump", roleDump)
}

func envName(build string) string { return "C02_BIN_" + build }

func prepare(p *fw.Parent) error {
	for _, b := range Builds {
		bin, err := p.VariantBinary(b)
		if err != nil {
			return err
		}
		p.ChildEnv = append(p.ChildEnv, envName(b)+"="+bin)
	}
	return nil
}

func binaryFor(build string) (string, error) {
	if b := os.Getenv(envName(build)); b != "" {
		return b, nil
	}
	// single-case replay: Prepare did not run
	return (&fw.Parent{}).VariantBinary(build)
}

// implOf names the implementation of a compressor in a build configuration.
func implOf(build, enc string) string {
	native := map[string]map[string]bool{
		"lz4":  {"nocgo": true, "nolz4": true},
		"zstd": {"nocgo": true, "nozstd": true},
	}
	if m, ok := native[enc]; ok {
		if m[build] {
			return "native"
		}
		return "cgo"
	}
	return "go"
}

// ---------------------------------------------------------------------------------------------
// workload (pure function of seed, idx, tier — regenerated identically in every helper process)

type rawCol struct {
	Class string
	Size  int
	Seed  int64
}

type rawBlock struct {
	TS   int64
	Cols [stor.NCols]rawCol
	Sum  stor.Summary
	Ctr  stor.Ctr
}

type rawSession struct {
	Day    int64
	Enc    encoders.Type
	Level  int
	Blocks []rawBlock
}

type workload struct {
	DB       *gen.RefDB
	Enc      encoders.Type
	Level    int
	Sessions []rawSession
	Days     []int64
}

func (c rawCol) bytes() []byte {
	return stor.Gen(rand.New(rand.NewSource(c.Seed)), c.Class, c.Size)
}

func pickLevel(r *rand.Rand, t encoders.Type) int {
	max := map[encoders.Type]int{encoders.EncoderTypeLZ4: 12, encoders.EncoderTypeZSTD: 19}[t]
	if max == 0 {
		return 0
	}
	switch r.Intn(4) {
	case 0:
		return 0
	case 1:
		return 1
	case 2:
		return max
	default:
		return 1 + r.Intn(max)
	}
}

func pickEnc(r *rand.Rand) encoders.Type {
	switch r.Intn(9) {
	case 0:
		return encoders.EncoderTypeNull
	case 1, 2, 3, 4:
		return encoders.EncoderTypeLZ4
	default:
		return encoders.EncoderTypeZSTD
	}
}

func genWorkload(seed int64, idx int, tier string) *workload {
	r := rand.New(rand.NewSource(seed*1_000_003 + int64(idx)*7919 + 12345))
	w := &workload{}
	w.Enc = pickEnc(r)
	w.Level = pickLevel(r, w.Enc)
	// (i) flows
	w.DB = gen.RandRefDB(r, gen.DBOpts{MaxIfaces: 2, MaxDays: 2, MaxBlocksDay: 4, MaxFlows: 20, Flow: gen.FlowOpts{V6Prob: 0.4, BigCounters: true}, OffGrid: r.Intn(2) == 0})
	maxBig := 4000
	if tier == "thorough" {
		maxBig = 30000
	}
	nBig := 1 + r.Intn(2)
	for i := 0; i < nBig; i++ {
		id := &w.DB.Ifaces[r.Intn(len(w.DB.Ifaces))]
		if len(id.Blocks) == 0 {
			continue
		}
		b := &id.Blocks[r.Intn(len(id.Blocks))]
		n := []int{300, 1100, 1100, 2500, maxBig}[r.Intn(5)]
		seen := map[string]bool{}
		for _, f := range b.Flows {
			seen[f.KeyString()] = true
		}
		wide := r.Intn(3) != 0
		for j := 0; j < n; j++ {
			f := gen.RandFlow(r, gen.FlowOpts{V6Prob: 0.3, BigCounters: r.Intn(2) == 0, WideAlphabet: wide})
			if seen[f.KeyString()] {
				continue
			}
			seen[f.KeyString()] = true
			b.Flows = append(b.Flows, f)
		}
	}
	// (ii) raw columns
	base := gen.DayStart(gen.MinTS) + 86400*int64(1+r.Intn(11000))
	nDays := 1 + r.Intn(2)
	last := map[int64]int64{}
	for d := 0; d < nDays; d++ {
		w.Days = append(w.Days, base+int64(d)*86400*int64(1+r.Intn(5)))
	}
	if nDays == 2 && w.Days[1] == w.Days[0] {
		w.Days[1] += 86400
	}
	hot := r.Intn(stor.NCols)
	large := 3
	nSess := 2 + r.Intn(4)
	for s := 0; s < nSess; s++ {
		se := rawSession{Day: w.Days[r.Intn(nDays)]}
		se.Enc = pickEnc(r)
		if r.Intn(2) == 0 {
			se.Enc = w.Enc
		}
		se.Level = pickLevel(r, se.Enc)
		nb := 1 + r.Intn(3)
		for b := 0; b < nb; b++ {
			ts := last[se.Day]
			if ts == 0 {
				ts = se.Day + int64(r.Intn(3000))
			} else {
				ts += int64(1 + r.Intn(900))
			}
			last[se.Day] = ts
			blk := rawBlock{TS: ts}
			for col := 0; col < stor.NCols; col++ {
				rc := rawCol{Seed: r.Int63(), Class: stor.PickClass(r)}
				if col == hot {
					rc.Size = stor.PickSize(r, tier == "thorough", 0)
					if rc.Size > 65536 {
						if large == 0 {
							rc.Size = 20000
						} else {
							large--
						}
					}
				} else {
					rc.Size = []int{0, r.Intn(300), r.Intn(300), stor.SizesBoundary[r.Intn(len(stor.SizesBoundary))]}[r.Intn(4)]
				}
				blk.Cols[col] = rc
			}
			blk.Sum = stor.Summary{V4: uint64(r.Intn(1 << 20)), V6: uint64(r.Intn(1 << 20)), Drops: uint64(r.Intn(100))}
			blk.Ctr = stor.Ctr{BR: r.Uint64() >> 10, BS: r.Uint64() >> 10, PR: r.Uint64() >> 12, PS: r.Uint64() >> 12}
			se.Blocks = append(se.Blocks, blk)
		}
		w.Sessions = append(w.Sessions, se)
	}
	// only days that received at least one session exist on disk (a day no session picked is never
	// created by any build, so readers must not be asked to open it)
	used := w.Days[:0]
	for _, d := range w.Days {
		if last[d] != 0 {
			used = append(used, d)
		}
	}
	w.Days = used
	return w
}

// ---------------------------------------------------------------------------------------------
// helper roles (run in the build configuration under test)

func parseRoleArgs(args []string) (dir string, seed int64, idx int, tier string, err error) {
	if len(args) != 4 {
		return "", 0, 0, "", fmt.Errorf("usage: <dir> <seed> <idx> <tier>")
	}
	dir, tier = args[0], args[3]
	if _, err = fmt.Sscan(args[1], &seed); err != nil {
		return
	}
	_, err = fmt.Sscan(args[2], &idx)
	return
}

// roleWrite materialises the workload below dir with the production writers of this build.
func roleWrite(args []string) int {
	dir, seed, idx, tier, err := parseRoleArgs(args)
	if err != nil {
		fmt.Fprintln(os.Stderr, err)
		return 3
	}
	eng.QuietLogs(nil)
	w := genWorkload(seed, idx, tier)
	if err := w.DB.Write(filepath.Join(dir, "flows"), w.Enc, w.Level); err != nil {
		fmt.Fprintln(os.Stderr, "DBWriter:", err)
		return 1
	}
	iface := filepath.Join(dir, "raw", "eth0")
	for si, s := range w.Sessions {
		d := gpfile.NewDirWriter(iface, s.Day, gpfile.WithEncoderTypeLevel(s.Enc, s.Level))
		if err := d.Open(); err != nil {
			fmt.Fprintf(os.Stderr, "raw session %d open: %v\n", si, err)
			return 1
		}
		for _, b := range s.Blocks {
			var data [types.ColIdxCount][]byte
			for col := range data {
				data[col] = b.Cols[col].bytes()
			}
			if err := d.WriteBlocks(b.TS, gpfile.TrafficMetadata{NumV4Entries: b.Sum.V4, NumV6Entries: b.Sum.V6, NumDrops: b.Sum.Drops},
				types.Counters{BytesRcvd: b.Ctr.BR, BytesSent: b.Ctr.BS, PacketsRcvd: b.Ctr.PR, PacketsSent: b.Ctr.PS}, data); err != nil {
				fmt.Fprintf(os.Stderr, "raw session %d WriteBlocks ts %d: %v\n", si, b.TS, err)
				return 1
			}
		}
		if err := d.Close(); err != nil {
			fmt.Fprintf(os.Stderr, "raw session %d close: %v\n", si, err)
			return 1
		}
	}
	return 0
}

// FlowRow is one dumped result row.
type FlowRow struct {
	Iface          string
	TS             int64
	SIP, DIP       string
	Dport          uint16
	Proto          uint8
	BR, BS, PR, PS uint64
}

// RawCol is the dump of one stored column block.
type RawCol struct {
	TS     int64
	RawLen uint32
	Len    uint32
	Enc    uint8
	Hash   string
	Err    string `json:",omitempty"`
}

// RawDay is the dump of one raw day directory.
type RawDay struct {
	Day      int64
	OpenErr  string `json:",omitempty"`
	NBlocks  int
	Cols     [stor.NCols][]RawCol
	BlockSum []stor.Summary
	DaySum   stor.Summary
	DayCtr   stor.Ctr
	DirOK    bool
	DirSum   stor.Summary
	DirCtr   stor.Ctr
}

// Dump is what a reader build reports about a database.
type Dump struct {
	QueryErr string `json:",omitempty"`
	Rows     []FlowRow
	Raw      []RawDay
}

func hashOf(b []byte) string {
	h := sha256.Sum256(b)
	return hex.EncodeToString(h[:12])
}

// roleDump reads the workload below dir back with the readers of this build and prints a Dump.
func roleDump(args []string) int {
	dir, seed, idx, tier, err := parseRoleArgs(args)
	if err != nil {
		fmt.Fprintln(os.Stderr, err)
		return 3
	}
	w := genWorkload(seed, idx, tier)
	var d Dump
	tss := w.DB.AllTimestamps()
	a := eng.Args("time,iface,sip,dip,dport,proto", "any", "", tss[0]-1, tss[len(tss)-1]+1)
	a.LowMem = idx%2 == 1
	res, err, pmsg := eng.Run(filepath.Join(dir, "flows"), a)
	switch {
	case pmsg != "":
		d.QueryErr = "panic: " + pmsg
	case err != nil:
		d.QueryErr = err.Error()
	default:
		for _, row := range res.Rows {
			d.Rows = append(d.Rows, FlowRow{Iface: row.Labels.Iface, TS: row.Labels.Timestamp.Unix(), SIP: row.Attributes.SrcIP.String(), DIP: row.Attributes.DstIP.String(),
				Dport: row.Attributes.DstPort, Proto: row.Attributes.IPProto,
				BR: row.Counters.BytesRcvd, BS: row.Counters.BytesSent, PR: row.Counters.PacketsRcvd, PS: row.Counters.PacketsSent})
		}
	}
	iface := filepath.Join(dir, "raw", "eth0")
	for di, day := range w.Days {
		rd := RawDay{Day: day}
		dump, err := stor.ReadDay(iface, day, stor.ReadOpts{UseSuffix: di%2 == 0, ReadAll: (idx+di)%2 == 0, Order: "seq"})
		if err != nil {
			rd.OpenErr = err.Error()
			d.Raw = append(d.Raw, rd)
			continue
		}
		rd.NBlocks, rd.BlockSum, rd.DaySum, rd.DayCtr = dump.NBlocks, dump.BlockSum, dump.DaySum, dump.DayCtr
		rd.DirOK, rd.DirSum, rd.DirCtr = dump.DirOK, dump.DirSum, dump.DirCtr
		for col := 0; col < stor.NCols; col++ {
			for i := range dump.TS[col] {
				rc := RawCol{TS: dump.TS[col][i], RawLen: dump.RawLen[col][i], Len: dump.Len[col][i], Enc: uint8(dump.Enc[col][i])}
				if e := dump.DataErr[col][i]; e != nil {
					rc.Err = e.Error()
				} else {
					rc.Hash = hashOf(dump.Data[col][i])
				}
				rd.Cols[col] = append(rd.Cols[col], rc)
			}
		}
		d.Raw = append(d.Raw, rd)
	}
	if err := json.NewEncoder(os.Stdout).Encode(d); err != nil {
		fmt.Fprintln(os.Stderr, err)
		return 3
	}
	return 0
}

// ---------------------------------------------------------------------------------------------
// the check

func runRole(bin, role string, args ...string) (stdout []byte, stderr string, err error) {
	cmd := exec.Command(bin, append([]string{"-role", role}, args...)...)
	var so, se bytes.Buffer
	cmd.Stdout, cmd.Stderr = &so, &se
	cmd.Env = append(os.Environ(), "GOMAXPROCS=2")
	err = cmd.Run()
	es := se.String()
	if len(es) > 3000 {
		es = es[:3000]
	}
	return so.Bytes(), es, err
}

func run(c *fw.Case) {
	w := genWorkload(c.Seed, c.Idx, c.Tier)
	encName := w.Enc.String()
	args := func(dir string) []string {
		return []string{dir, fmt.Sprint(c.Seed), fmt.Sprint(c.Idx), c.Tier}
	}
	bins := map[string]string{}
	for _, b := range Builds {
		p, err := binaryFor(b)
		if err != nil {
			c.Inconclusive("helper binary for %s: %v", b, err)
			return
		}
		bins[b] = p
	}

	// oracle side
	tss := w.DB.AllTimestamps()
	spec := ref.QuerySpec{Attrs: []string{"sip", "dip", "dport", "proto"}, Time: true, Ifaces: w.DB.IfaceNames(), First: tss[0] - 1, Last: tss[len(tss)-1] + 1}
	wantRows := ref.Query(w.DB, spec)
	type expBlock struct {
		rawBlock
		enc   encoders.Type
		level int
		hash  [stor.NCols]string
	}
	expDays := map[int64][]expBlock{}
	for _, s := range w.Sessions {
		for _, b := range s.Blocks {
			eb := expBlock{rawBlock: b, enc: s.Enc, level: s.Level}
			for col := range eb.hash {
				eb.hash[col] = hashOf(b.Cols[col].bytes())
			}
			expDays[s.Day] = append(expDays[s.Day], eb)
		}
	}
	// coverage of the workload itself
	for _, id := range w.DB.Ifaces {
		for _, b := range id.Blocks {
			if len(b.Flows) > 1100 {
				c.Count("flows_columns_gt_4k", 1)
			}
		}
	}
	compressedRaw := false
	for _, bs := range expDays {
		for _, b := range bs {
			for col := range b.Cols {
				if b.Cols[col].Size > 0 && b.enc != encoders.EncoderTypeNull {
					compressedRaw = true
				}
			}
		}
	}

	for _, wb := range Builds {
		dir := filepath.Join(c.Tmp, "w-"+wb)
		c.Note("write with build %s (encoder %s level %d)", wb, encName, w.Level)
		_, se, err := runRole(bins[wb], "c02-write", args(dir)...)
		if err != nil {
			c.Violatef("write_error|"+encName+"|w="+implOf(wb, encName), "writer build %s (encoder %s level %d) failed: %v\n%s", wb, encName, w.Level, err, se)
			continue
		}
		for _, rb := range Builds {
			pair := fmt.Sprintf("writer=%s reader=%s", wb, rb)
			c.Note("dump %s", pair)
			out, se, err := runRole(bins[rb], "c02-dump", args(dir)...)
			if err != nil {
				sig := "reader_crash"
				c.Violatef(sig+"|"+encName+"|w="+implOf(wb, encName)+",r="+implOf(rb, encName), "%s (encoder %s level %d): reader process failed: %v\n%s", pair, encName, w.Level, err, se)
				continue
			}
			var d Dump
			if err := json.Unmarshal(out, &d); err != nil {
				c.Inconclusive("%s: undecodable dump: %v", pair, err)
				continue
			}
			c.Count("pairs_checked", 1)
			cross := false
			for _, e := range []string{"lz4", "zstd"} {
				if implOf(wb, e) != implOf(rb, e) {
					c.Count("pairs_cross_impl_"+e, 1)
					if e == encName {
						cross = true
					}
				}
			}
			if implOf(wb, encName) == "native" && implOf(rb, encName) == "cgo" {
				c.Count("pairs_w_native_r_cgo", 1)
			}
			if implOf(wb, encName) == "cgo" && implOf(rb, encName) == "native" {
				c.Count("pairs_w_cgo_r_native", 1)
			}
			if cross || compressedRaw && wb != rb {
				c.Nontrivial(fmt.Sprintf("%s|%d|%s|%s|%d|%d", encName, w.Level, wb, rb, c.Seed, c.Idx))
			}

			// (i) flows
			feat := encName + "|w=" + implOf(wb, encName) + ",r=" + implOf(rb, encName)
			if d.QueryErr != "" {
				c.Violatef("flows_read_error|"+feat, "%s (encoder %s level %d, db %s): query failed: %s", pair, encName, w.Level, w.DB.Summary(), d.QueryErr)
			} else {
				got := ref.Rows{}
				dup := ""
				for _, row := range d.Rows {
					k := ref.RowKey{Iface: row.Iface, TS: row.TS, Dport: row.Dport, Proto: row.Proto}
					k.SIP, _ = parseAddr(row.SIP)
					k.DIP, _ = parseAddr(row.DIP)
					if _, ok := got[k]; ok && dup == "" {
						dup = k.String()
					}
					cur := got[k]
					cur.Add(ref.Ctr{BR: row.BR, BS: row.BS, PR: row.PR, PS: row.PS})
					got[k] = cur
				}
				c.Count("flow_rows_compared", len(wantRows))
				if diff := ref.Diff(wantRows, got); diff != "" || dup != "" {
					c.Violatef("flows_differ|"+feat, "%s (encoder %s level %d, db %s): %s %s", pair, encName, w.Level, w.DB.Summary(), diff, dup)
				}
			}

			// (ii) raw columns
			for _, rd := range d.Raw {
				exp := expDays[rd.Day]
				if rd.OpenErr != "" {
					c.Violatef("raw_open_error|"+pairImpls(wb, rb), "%s: reopening raw day %d failed: %s", pair, rd.Day, rd.OpenErr)
					continue
				}
				if rd.NBlocks != len(exp) {
					c.Violatef("raw_nblocks|"+pairImpls(wb, rb), "%s: raw day %d has %d blocks, %d written", pair, rd.Day, rd.NBlocks, len(exp))
					continue
				}
				var ws stor.Summary
				var wc stor.Ctr
				for i, eb := range exp {
					ws, wc = ws.Add(eb.Sum), wc.Add(eb.Ctr)
					if i < len(rd.BlockSum) && rd.BlockSum[i] != eb.Sum {
						c.Violatef("raw_block_summary|"+pairImpls(wb, rb), "%s: raw day %d block %d summary %+v, written %+v", pair, rd.Day, i, rd.BlockSum[i], eb.Sum)
					}
					ename := eb.enc.String()
					f := ename + "|w=" + implOf(wb, ename) + ",r=" + implOf(rb, ename)
					for col := 0; col < stor.NCols; col++ {
						if len(rd.Cols[col]) != len(exp) {
							c.Violatef("raw_nblocks|"+pairImpls(wb, rb), "%s: raw day %d column %d has %d blocks, %d written", pair, rd.Day, col, len(rd.Cols[col]), len(exp))
							break
						}
						got := rd.Cols[col][i]
						rc := eb.Cols[col]
						c.Count("raw_blocks_compared", 1)
						if rc.Size > 0 && eb.enc != encoders.EncoderTypeNull {
							c.Count("raw_blocks_compressed", 1)
							if rc.Class == stor.ClsRandom && rc.Size > 4096 {
								c.Count("raw_blocks_fallback_expected", 1)
							}
						}
						if rc.Size > 65536 {
							c.Count("raw_blocks_gt_64k", 1)
						}
						where := fmt.Sprintf("%s: raw day %d block %d (ts %d) column %d (%s/%d bytes, session encoder %s level %d; stored enc %d len %d rawlen %d)",
							pair, rd.Day, i, eb.TS, col, rc.Class, rc.Size, ename, eb.level, got.Enc, got.Len, got.RawLen)
						switch {
						case got.TS != eb.TS:
							c.Violatef("raw_timestamp|"+f, "%s: timestamp %d read back", where, got.TS)
						case got.Err != "":
							c.Violatef("raw_read_error|"+f, "%s: read error: %s", where, got.Err)
						case got.Hash != eb.hash[col] || int(got.RawLen) != rc.Size:
							c.Violatef("raw_bytes_differ|"+f, "%s: content hash %s, written %s", where, got.Hash, eb.hash[col])
						}
					}
				}
				if rd.DaySum != ws || rd.DayCtr != wc {
					c.Violatef("raw_day_summary|"+pairImpls(wb, rb), "%s: raw day %d totals %+v %+v, written %+v %+v", pair, rd.Day, rd.DaySum, rd.DayCtr, ws, wc)
				}
				if rd.DirOK && (rd.DirSum != ws || rd.DirCtr != wc) {
					c.Violatef("raw_dirname_summary|"+pairImpls(wb, rb), "%s: raw day %d directory-name totals %+v %+v, written %+v %+v", pair, rd.Day, rd.DirSum, rd.DirCtr, ws, wc)
				}
			}
			if len(d.Raw) != len(w.Days) {
				c.Violatef("raw_days_missing|"+pairImpls(wb, rb), "%s: %d of %d raw days dumped", pair, len(d.Raw), len(w.Days))
			}
		}
	}
	var sess []string
	for _, s := range w.Sessions {
		sess = append(sess, fmt.Sprintf("%s/%d x%d", s.Enc, s.Level, len(s.Blocks)))
	}
	sort.Strings(sess)
	c.Sample(map[string]any{"flows_db": w.DB.Summary(), "flows_encoder": fmt.Sprintf("%s/%d", encName, w.Level), "raw_sessions": strings.Join(sess, ", "), "pairs": 16})
}

func parseAddr(s string) (netip.Addr, error) { return netip.ParseAddr(s) }

func pairImpls(wb, rb string) string {
	if wb == rb {
		return "same_build"
	}
	return "cross_build"
}
