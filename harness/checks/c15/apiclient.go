package c15

import (
	"encoding/json"
	"fmt"
	"io"
	"net/http"
	"net/http/httptest"
	"strings"
	"sync"

	"github.com/els0r/goProbe/v4/pkg/api"
	"github.com/els0r/goProbe/v4/pkg/api/goprobe/client"
	"github.com/els0r/goProbe/v4/plugins/querier/apiclient"
)

// runAPIClient runs the query through the real API client querier. Every host is an endpoint of one
// in-process HTTP server; a handler announces its arrival and blocks until the controller releases
// it. The controller releases the endpoints in the scripted order as far as the querier's own
// concurrency bound allows (state-based: it waits until the next endpoint in the script has arrived,
// or until as many requests are parked as there are runners, in which case no further request can
// arrive and the earliest scripted one among the parked requests is released).
// Failed hosts: no endpoint configuration (error produced inside the querier) or HTTP 400.
func runAPIClient(s *caseSpec, release []string, maxConc int, streaming bool) (runOut, error) {
	type gate struct{ ch chan struct{} }
	gates := map[string]*gate{}
	serverHosts := 0
	for _, h := range s.Hosts {
		if h.Kind == kindErr && h.NoConfig {
			continue
		}
		gates[h.Name] = &gate{ch: make(chan struct{})}
		serverHosts++
	}
	arrived := make(chan string, len(s.Hosts)+1)
	var hmu sync.Mutex
	var handlerErr error

	srv := httptest.NewServer(http.HandlerFunc(func(w http.ResponseWriter, r *http.Request) {
		_, _ = io.Copy(io.Discard, r.Body)
		parts := strings.Split(strings.Trim(r.URL.Path, "/"), "/")
		name := parts[0]
		g, ok := gates[name]
		if !ok || len(parts) != 2 || "/"+parts[1] != api.QueryRoute {
			hmu.Lock()
			handlerErr = fmt.Errorf("unexpected request path %q", r.URL.Path)
			hmu.Unlock()
			http.Error(w, "unexpected", http.StatusNotFound)
			return
		}
		arrived <- name
		<-g.ch
		h := s.host(name)
		w.Header().Set("Content-Type", "application/json")
		if h.Kind == kindErr {
			w.WriteHeader(http.StatusBadRequest)
			_, _ = w.Write([]byte(fmt.Sprintf(`{"title":"Bad Request","status":400,"detail":%q}`, h.ErrMsg)))
			return
		}
		b, err := json.Marshal(s.buildResult(h))
		if err != nil {
			hmu.Lock()
			handlerErr = err
			hmu.Unlock()
		}
		_, _ = w.Write(b)
	}))
	defer srv.Close()
	addr := strings.TrimPrefix(srv.URL, "http://")

	q := &apiclient.APIClientQuerier{APIEndpoints: map[string]*client.Config{}, MaxConcurrent: maxConc}
	for name := range gates {
		q.APIEndpoints[name] = &client.Config{Addr: addr + "/" + name}
	}

	runners := len(s.Hosts)
	if maxConc > 0 && maxConc < runners {
		runners = maxConc
	}
	done := make(chan struct{})
	stop := make(chan struct{})
	go func() {
		defer close(done)
		var unreleased []string
		for _, name := range release {
			if _, ok := gates[name]; ok {
				unreleased = append(unreleased, name)
			}
		}
		parked := map[string]bool{}
		for len(unreleased) > 0 {
			want := unreleased[0]
			limit := runners
			if len(unreleased) < limit {
				limit = len(unreleased)
			}
			for !parked[want] && len(parked) < limit {
				select {
				case name := <-arrived:
					parked[name] = true
				case <-stop: // the query returned without waiting for all hosts
					for _, name := range unreleased {
						close(gates[name].ch)
					}
					return
				}
			}
			pick := -1
			for i, name := range unreleased {
				if parked[name] {
					pick = i
					break
				}
			}
			name := unreleased[pick]
			unreleased = append(unreleased[:pick], unreleased[pick+1:]...)
			delete(parked, name)
			close(gates[name].ch)
		}
	}()

	out := runWith(q, s, streaming)
	close(stop)
	<-done
	http.DefaultTransport.(*http.Transport).CloseIdleConnections()
	hmu.Lock()
	defer hmu.Unlock()
	return out, handlerErr
}
