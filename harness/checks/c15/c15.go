// Package c15: distributed results do not depend on host reply order.
//
// The real distributed.QueryRunner (cmd/global-query/pkg/distributed) is driven with generated
// per-host results that are delivered in every order (n <= 5 hosts: all n! orders; more hosts:
// seeded random orders), by concurrently sending goroutines, with and without streaming, and - for a
// share of the cases - through the real API client querier (plugins/querier/apiclient) talking JSON
// over HTTP to gated in-process endpoints. The oracle is an independent merge of the generated host
// results (union keyed by labels+attributes with instants as time identity, sums, hits, statuses)
// plus equality of the whole merged result across all deliveries of the same host set.
package c15

import (
	"context"
	"encoding/json"
	"errors"
	"fmt"
	"math/rand"
	"net/netip"
	"runtime"
	"sort"
	"strings"
	"sync"
	"time"

	"github.com/danielgtaylor/huma/v2/sse"
	gqd "github.com/els0r/goProbe/v4/cmd/global-query/pkg/distributed"
	"github.com/els0r/goProbe/v4/pkg/api"
	"github.com/els0r/goProbe/v4/pkg/distributed/hosts"
	"github.com/els0r/goProbe/v4/pkg/query"
	"github.com/els0r/goProbe/v4/pkg/results"
	"github.com/els0r/goProbe/v4/pkg/types"
	"github.com/els0r/goProbe/v4/pkg/types/workload"
	"github.com/els0r/goProbe/v4/plugins/resolver/stringresolver"
	"verifharness/eng"
	"verifharness/fw"
	"verifharness/gen"
)

func init() {
	fw.Register(&fw.Check{
		ID:    "C15",
		Level: "exploration",
		Rule: "case = one seeded host set (1-5 hosts: every one of the n! delivery orders; 6-40 hosts: seeded random orders) of generated per-host results " +
			"(rows drawn from a shared pool so that hosts overlap, empty results, failed hosts with plain/wrapped errors, optional statistics, hit counts above the row count, " +
			"time labels as a JSON decoder produces them: UTC or a fresh fixed-offset zone per host) and one query (attribute subset, time/iface/host labels, sort order, limit below/above the union, time resolution). " +
			"Each order is run through distributed.QueryRunner.Run and RunStreaming with a scripted Querier, plus concurrently sending goroutines, plus (share of cases) the real apiclient querier over HTTP/JSON with gated endpoints. " +
			"Non-trivial iff >= 2 hosts deliver rows and at least one row key is delivered by two hosts (a merge happens); distinct by (host set, query).",
		Assumptions: []string{
			"host names are unique within a query and each host reports its status under its own name (duplicate hostnames excluded)",
			"all hosts answer the same query (identical Query section)",
			"a row is identified by its labels and attributes, the time label by the instant it denotes (not by its zone rendering)",
			"a failed host's error is its message or, for a wrapped error, the message of the wrapped cause",
			"timings (query start/duration) are not compared; time-binned queries are compared across orders and streaming only (the bin oracle belongs to C13)",
			"hosts answering with a non-error result of status 'too many requests' are not generated (not counted as failed hosts)",
		},
		NumCases: func(tier, variant string) int {
			if variant == "race" {
				if tier == "thorough" {
					return 300
				}
				return 32
			}
			if tier == "thorough" {
				return 3000
			}
			return 200
		},
		Variants: func(tier string) []string {
			if tier == "thorough" {
				return []string{"default", "race"}
			}
			return []string{"default"}
		},
		Run: run,
		Require: []string{"runs_plain", "runs_streaming", "runs_goroutines", "runs_apiclient", "orders_all_permutations", "merges_observed",
			"hosts_failed", "hosts_empty", "cases_limit_below_union", "cases_mixed_zones", "cases_with_stats", "streaming_partials", "cases_union_above_partial_cap"},
	})
}

// ---------------------------------------------------------------------------------------------
// specification of a case

type rowKey struct {
	TS       int64 // unix seconds of the time label, 0 = none
	Iface    string
	Hostname string
	HostID   string
	SIP, DIP netip.Addr
	Proto    uint8
	Dport    uint16
}

func (k rowKey) String() string {
	return fmt.Sprintf("ts=%d iface=%s host=%s/%s %v>%v proto=%d dport=%d", k.TS, k.Iface, k.Hostname, k.HostID, k.SIP, k.DIP, k.Proto, k.Dport)
}

type ctr struct{ BR, BS, PR, PS uint64 }

func (c *ctr) add(o ctr) { c.BR += o.BR; c.BS += o.BS; c.PR += o.PR; c.PS += o.PS }

type rowSpec struct {
	Key rowKey
	Ctr ctr
}

const (
	kindRows  = "rows"
	kindEmpty = "empty"
	kindErr   = "error"
)

type hostSpec struct {
	Name      string
	Kind      string
	ErrMsg    string // message of the (innermost) error
	Wrapped   bool   // error is handed over as fmt.Errorf("failed to run query: %w", inner)
	NoConfig  bool   // apiclient mode: host has no endpoint configuration (else: HTTP 400)
	Rows      []rowSpec
	Ifaces    []string
	First     int64
	Last      int64
	HitsExtra int // hits.total reported above len(rows) (host-side truncation)
	Totals    ctr
	Stats     *[6]uint64 // loaded, decompressed, blocks, corrupted, dirs, workloads
	Zone      int        // 0 = UTC, else index into zoneOffsets: fresh fixed zone per result
}

// (Go caches the *Location of unnamed whole-hour zones, so two hosts in +02:00 share it; hosts in
// different zones, or in a half-hour zone, never do)
var zoneOffsets = []int{0, 2 * 3600, -5 * 3600, 5*3600 + 1800}

type caseSpec struct {
	Hosts   []hostSpec
	Query   string
	Time    bool
	SortBy  string
	Asc     bool
	Dir     string // "", in, out, sum
	Limit   uint64
	TimeRes string
	First   int64
	Last    int64
	Binned  bool
	Big     bool // union above the streaming partial-result cap
}

func (s *caseSpec) describe() string {
	var hs []string
	for _, h := range s.Hosts {
		d := fmt.Sprintf("%s:%s", h.Name, h.Kind)
		switch h.Kind {
		case kindRows:
			d += fmt.Sprintf("(%d rows, zone %+d)", len(h.Rows), zoneOffsets[h.Zone])
		case kindErr:
			d += fmt.Sprintf("(%q wrapped=%v)", h.ErrMsg, h.Wrapped)
		}
		hs = append(hs, d)
	}
	return fmt.Sprintf("query=%q sort=%s asc=%v dir=%q limit=%d timeres=%q hosts=[%s]", s.Query, s.SortBy, s.Asc, s.Dir, s.Limit, s.TimeRes, strings.Join(hs, " "))
}

var ifaceAlphabet = []string{"eth0", "eth1", "wan0"}

func genCase(r *rand.Rand, tier string) *caseSpec {
	s := &caseSpec{}
	// number of hosts
	n := 1 + r.Intn(5)
	if r.Intn(5) == 0 {
		n = 6 + r.Intn(35)
	}
	// query
	all := []string{"sip", "dip", "dport", "proto"}
	perm := r.Perm(4)
	na := 1 + r.Intn(4)
	var attrs []string
	for _, i := range perm[:na] {
		attrs = append(attrs, all[i])
	}
	// a share of the cases has a union far above the partial-result cap of streaming queries (100 rows)
	big := r.Intn(8) == 0
	if big {
		attrs = append([]string(nil), all...)
		if n > 4 {
			n = 2 + r.Intn(3)
		}
	}
	s.Time = r.Intn(3) == 0
	hostLabel := r.Intn(3) == 0
	var parts []string
	if s.Time {
		parts = append(parts, "time")
	}
	if r.Intn(3) == 0 {
		parts = append(parts, "iface")
	}
	if hostLabel {
		parts = append(parts, "hostname", "hostid")
	}
	parts = append(parts, attrs...)
	s.Query = strings.Join(parts, ",")
	s.SortBy = []string{"packets", "bytes"}[r.Intn(2)]
	s.Asc = r.Intn(3) == 0
	s.Dir = []string{"", "", "in", "out", "sum"}[r.Intn(5)]
	base := int64(gen.MinTS) + 86400*int64(1+r.Intn(9000))
	s.First, s.Last = base, base+86400
	if s.Time && r.Intn(3) == 0 {
		s.TimeRes = []string{"auto", "10m", "1h", "5m"}[r.Intn(4)]
		s.Binned = s.TimeRes == "10m" || s.TimeRes == "1h" || s.TimeRes == "auto"
	}

	// row key pool
	has := func(a string) bool {
		for _, x := range attrs {
			if x == a {
				return true
			}
		}
		return false
	}
	sensors := [][2]string{{"", ""}}
	if hostLabel || r.Intn(3) == 0 {
		sensors = [][2]string{{"sensorA", "id-a"}, {"sensorB", "id-b"}}
	}
	poolSize := 1 + r.Intn(14)
	if n > 5 {
		poolSize = 4 + r.Intn(40)
	}
	if big {
		poolSize = 110 + r.Intn(200)
	}
	seen := map[rowKey]bool{}
	var pool []rowKey
	v6 := r.Intn(3) == 0
	for len(pool) < poolSize {
		var k rowKey
		if s.Time {
			k.TS = base + 300*int64(1+r.Intn(5))
		}
		k.Iface = ifaceAlphabet[r.Intn(len(ifaceAlphabet))]
		sn := sensors[r.Intn(len(sensors))]
		k.Hostname, k.HostID = sn[0], sn[1]
		addr := func() netip.Addr {
			if v6 && r.Intn(2) == 0 {
				return gen.V6Addrs[r.Intn(len(gen.V6Addrs))]
			}
			return gen.V4Addrs[r.Intn(len(gen.V4Addrs))]
		}
		if has("sip") {
			k.SIP = addr()
		}
		if has("dip") {
			k.DIP = addr()
		}
		if has("dport") {
			k.Dport = gen.Ports[r.Intn(len(gen.Ports))]
		}
		if has("proto") {
			k.Proto = gen.Protos[r.Intn(len(gen.Protos))]
		}
		if seen[k] {
			if r.Intn(8) == 0 {
				break // small alphabets may not have poolSize distinct keys
			}
			continue
		}
		seen[k] = true
		pool = append(pool, k)
	}
	sharedCtr := r.Intn(4) == 0 // identical counters everywhere: stresses sort ties
	mixedZones := r.Intn(3) == 0
	for i := 0; i < n; i++ {
		h := hostSpec{Name: fmt.Sprintf("h%02d", i)}
		switch x := r.Intn(10); {
		case x < 6:
			h.Kind = kindRows
		case x < 8:
			h.Kind = kindEmpty
		default:
			h.Kind = kindErr
			h.ErrMsg = []string{"connection refused", "context deadline exceeded", "couldn't find endpoint configuration for host", "500 Internal Server Error"}[r.Intn(4)] + fmt.Sprintf(" (%s)", h.Name)
			h.Wrapped = r.Intn(2) == 0
			h.NoConfig = r.Intn(2) == 0
		}
		if mixedZones {
			h.Zone = r.Intn(len(zoneOffsets))
		}
		if h.Kind != kindErr {
			ni := 1 + r.Intn(len(ifaceAlphabet))
			for _, j := range r.Perm(len(ifaceAlphabet))[:ni] {
				h.Ifaces = append(h.Ifaces, ifaceAlphabet[j])
			}
			sort.Strings(h.Ifaces)
			h.First = base + 300*int64(r.Intn(6))
			h.Last = h.First + 300*int64(1+r.Intn(200))
			if r.Intn(3) != 0 {
				st := [6]uint64{uint64(r.Intn(1 << 20)), uint64(r.Intn(1 << 22)), uint64(r.Intn(500)), uint64(r.Intn(3)), uint64(r.Intn(40)), uint64(1 + r.Intn(40))}
				h.Stats = &st
			}
		}
		if h.Kind == kindRows {
			p := 0.2 + 0.6*r.Float64()
			for _, k := range pool {
				if r.Float64() < p {
					c := ctr{uint64(r.Intn(5000)), uint64(r.Intn(5000)), uint64(r.Intn(60)), uint64(r.Intn(60))}
					if sharedCtr {
						c = ctr{1000, 2000, 10, 20}
					} else if r.Intn(10) == 0 {
						c.BR, c.PS = gen.CounterVals[r.Intn(len(gen.CounterVals))]>>8, gen.CounterVals[r.Intn(len(gen.CounterVals))]>>8
					}
					h.Rows = append(h.Rows, rowSpec{k, c})
					h.Totals.add(c)
				}
			}
			if len(h.Rows) == 0 {
				k := pool[r.Intn(len(pool))]
				c := ctr{40, 40, 1, 1}
				h.Rows = append(h.Rows, rowSpec{k, c})
				h.Totals.add(c)
			}
			r.Shuffle(len(h.Rows), func(a, b int) { h.Rows[a], h.Rows[b] = h.Rows[b], h.Rows[a] })
			if r.Intn(6) == 0 {
				h.HitsExtra = 1 + r.Intn(20)
				h.Totals.add(ctr{uint64(h.HitsExtra) * 100, uint64(h.HitsExtra) * 50, uint64(h.HitsExtra), uint64(h.HitsExtra)})
			}
		}
		s.Hosts = append(s.Hosts, h)
	}
	// limit: around the union size, or far above
	u := len(unionOf(s))
	if u > 100 {
		s.Big = true
	}
	switch r.Intn(4) {
	case 0:
		if u > 1 {
			s.Limit = uint64(1 + r.Intn(u-1))
		} else {
			s.Limit = 1
		}
	case 1:
		s.Limit = uint64(u + r.Intn(2))
		if s.Limit == 0 {
			s.Limit = 1
		}
	default:
		s.Limit = 1 << 30
	}
	return s
}

func (s *caseSpec) host(name string) *hostSpec {
	for i := range s.Hosts {
		if s.Hosts[i].Name == name {
			return &s.Hosts[i]
		}
	}
	return nil
}

func (s *caseSpec) hostNames() []string {
	var out []string
	for _, h := range s.Hosts {
		out = append(out, h.Name)
	}
	return out
}

// queryAttrs are the attribute names of the spec's query (same for all hosts).
func (s *caseSpec) queryAttrs() []string {
	var out []string
	for _, p := range strings.Split(s.Query, ",") {
		switch p {
		case "sip", "dip", "dport", "proto":
			out = append(out, p)
		}
	}
	return out
}

// buildResult creates a fresh result object for one host, the way a JSON decoder would hand it over.
func (s *caseSpec) buildResult(h *hostSpec) *results.Result {
	res := results.New()
	res.Hostname = h.Name
	if h.Kind == kindErr {
		var err error = errors.New(h.ErrMsg)
		if h.Wrapped {
			err = fmt.Errorf("failed to run query: %w", err)
		}
		res.SetErr(err)
		return res
	}
	loc := time.UTC
	if h.Zone != 0 {
		loc = time.FixedZone("", zoneOffsets[h.Zone]) // fresh *Location per decoded value, as time.Parse does
	}
	tm := func(ts int64) time.Time {
		if h.Zone != 0 {
			// every decoded timestamp gets its own Location
			return time.Unix(ts, 0).In(time.FixedZone("", zoneOffsets[h.Zone]))
		}
		return time.Unix(ts, 0).In(loc)
	}
	res.Query = results.Query{Attributes: s.queryAttrs()}
	res.Summary.Interfaces = append(results.Interfaces(nil), h.Ifaces...)
	res.Summary.First, res.Summary.Last = tm(h.First), tm(h.Last)
	res.Summary.DataAvailable = true
	res.Summary.Totals = types.Counters{BytesRcvd: h.Totals.BR, BytesSent: h.Totals.BS, PacketsRcvd: h.Totals.PR, PacketsSent: h.Totals.PS}
	res.Summary.Hits.Total = len(h.Rows) + h.HitsExtra
	res.Summary.Hits.Displayed = len(h.Rows)
	if h.Stats != nil {
		res.Summary.Stats = &workload.Stats{BytesLoaded: h.Stats[0], BytesDecompressed: h.Stats[1], BlocksProcessed: h.Stats[2],
			BlocksCorrupted: h.Stats[3], DirectoriesProcessed: h.Stats[4], Workloads: h.Stats[5]}
	}
	for _, rs := range h.Rows {
		row := results.Row{
			Labels:     results.Labels{Iface: rs.Key.Iface, Hostname: rs.Key.Hostname, HostID: rs.Key.HostID},
			Attributes: results.Attributes{SrcIP: rs.Key.SIP, DstIP: rs.Key.DIP, IPProto: rs.Key.Proto, DstPort: rs.Key.Dport},
			Counters:   types.Counters{BytesRcvd: rs.Ctr.BR, BytesSent: rs.Ctr.BS, PacketsRcvd: rs.Ctr.PR, PacketsSent: rs.Ctr.PS},
		}
		if rs.Key.TS != 0 {
			row.Labels.Timestamp = tm(rs.Key.TS)
		}
		res.Rows = append(res.Rows, row)
	}
	if len(res.Rows) == 0 {
		res.Status = results.Status{Code: types.StatusEmpty, Message: results.ErrorNoResults.Error()}
	}
	res.HostsStatuses[h.Name] = res.Status
	return res
}

func (s *caseSpec) args() *query.Args {
	a := eng.Args(s.Query, "any", "", s.First, s.Last)
	a.QueryHosts = strings.Join(s.hostNames(), ",")
	a.NumResults = s.Limit
	a.SortBy = s.SortBy
	a.SortAscending = s.Asc
	a.TimeResolution = s.TimeRes
	switch s.Dir {
	case "in":
		a.In = true
	case "out":
		a.Out = true
	case "sum":
		a.Sum = true
	}
	return a
}

// ---------------------------------------------------------------------------------------------
// oracle

func unionOf(s *caseSpec) map[rowKey]ctr {
	u := map[rowKey]ctr{}
	for _, h := range s.Hosts {
		if h.Kind != kindRows {
			continue
		}
		for _, r := range h.Rows {
			c := u[r.Key]
			c.add(r.Ctr)
			u[r.Key] = c
		}
	}
	return u
}

type expectation struct {
	Union     map[rowKey]ctr
	Totals    ctr
	Stats     [6]uint64
	Hits      int
	Merged    int
	RowHosts  int
	Effective uint64 // effective row limit
}

func expect(s *caseSpec) *expectation {
	e := &expectation{Union: unionOf(s)}
	delivered := 0
	for _, h := range s.Hosts {
		if h.Kind == kindErr {
			continue
		}
		e.Totals.add(h.Totals)
		if h.Stats != nil {
			for i := range e.Stats {
				e.Stats[i] += h.Stats[i]
			}
		}
		if h.Kind == kindRows {
			e.RowHosts++
		}
		delivered += len(h.Rows)
		e.Hits += len(h.Rows) + h.HitsExtra
	}
	e.Merged = delivered - len(e.Union)
	e.Hits -= e.Merged
	e.Effective = s.Limit // (time queries are sorted by time and truncated like any other query)
	return e
}

func keyOfRow(r results.Row) rowKey {
	k := rowKey{Iface: r.Labels.Iface, Hostname: r.Labels.Hostname, HostID: r.Labels.HostID,
		SIP: r.Attributes.SrcIP, DIP: r.Attributes.DstIP, Proto: r.Attributes.IPProto, Dport: r.Attributes.DstPort}
	if !r.Labels.Timestamp.IsZero() {
		k.TS = r.Labels.Timestamp.Unix()
	}
	return k
}

// canon is the comparable form of a merged result (everything but timings).
type canon struct {
	Status    string
	Hostname  string
	Hosts     []string
	Ifaces    []string
	First     int64
	Last      int64
	Totals    ctr
	HitsTotal int
	HitsDisp  int
	DataAvail bool
	StatsNil  bool
	Stats     [6]uint64
	Query     string
	Rows      []string // in result order
	RowSet    []string // sorted
}

func statsOf(st *workload.Stats) [6]uint64 {
	if st == nil {
		return [6]uint64{}
	}
	return [6]uint64{st.BytesLoaded, st.BytesDecompressed, st.BlocksProcessed, st.BlocksCorrupted, st.DirectoriesProcessed, st.Workloads}
}

func unixOrZero(t time.Time) int64 {
	if t.IsZero() {
		return 0
	}
	return t.Unix()
}

func canonOf(res *results.Result) *canon {
	c := &canon{
		Status:    string(res.Status.Code) + ":" + res.Status.Message,
		Hostname:  res.Hostname,
		First:     unixOrZero(res.Summary.First),
		Last:      unixOrZero(res.Summary.Last),
		Totals:    ctr{res.Summary.Totals.BytesRcvd, res.Summary.Totals.BytesSent, res.Summary.Totals.PacketsRcvd, res.Summary.Totals.PacketsSent},
		HitsTotal: res.Summary.Hits.Total,
		HitsDisp:  res.Summary.Hits.Displayed,
		DataAvail: res.Summary.DataAvailable,
		StatsNil:  res.Summary.Stats == nil,
		Stats:     statsOf(res.Summary.Stats),
		Query:     strings.Join(res.Query.Attributes, ",") + "|" + res.Query.Condition,
	}
	for h, st := range res.HostsStatuses {
		c.Hosts = append(c.Hosts, fmt.Sprintf("%s=%s:%s", h, st.Code, st.Message))
	}
	sort.Strings(c.Hosts)
	c.Ifaces = append(c.Ifaces, res.Summary.Interfaces...)
	for _, r := range res.Rows {
		c.Rows = append(c.Rows, fmt.Sprintf("%s => %d/%d/%d/%d", keyOfRow(r), r.Counters.BytesRcvd, r.Counters.BytesSent, r.Counters.PacketsRcvd, r.Counters.PacketsSent))
	}
	c.RowSet = append(c.RowSet, c.Rows...)
	sort.Strings(c.RowSet)
	return c
}

// diffCanon returns the class and description of the first difference ("" = equal).
func diffCanon(a, b *canon) (class, detail string) {
	eqs := func(x, y []string) bool { return strings.Join(x, "\n") == strings.Join(y, "\n") }
	switch {
	case !eqs(a.RowSet, b.RowSet):
		return "rows", fmt.Sprintf("row sets differ: %v vs %v", a.RowSet, b.RowSet)
	case a.Totals != b.Totals:
		return "totals", fmt.Sprintf("totals %+v vs %+v", a.Totals, b.Totals)
	case a.Stats != b.Stats || a.StatsNil != b.StatsNil:
		return "stats", fmt.Sprintf("stats %v vs %v", a.Stats, b.Stats)
	case a.HitsTotal != b.HitsTotal || a.HitsDisp != b.HitsDisp:
		return "hits", fmt.Sprintf("hits %d/%d vs %d/%d", a.HitsTotal, a.HitsDisp, b.HitsTotal, b.HitsDisp)
	case !eqs(a.Hosts, b.Hosts):
		return "hosts_statuses", fmt.Sprintf("hosts statuses %v vs %v", a.Hosts, b.Hosts)
	case a.Status != b.Status:
		return "status", fmt.Sprintf("status %q vs %q", a.Status, b.Status)
	case a.First != b.First || a.Last != b.Last:
		return "summary_time_range", fmt.Sprintf("summary first/last %d..%d vs %d..%d", a.First, a.Last, b.First, b.Last)
	case !eqs(a.Ifaces, b.Ifaces):
		return "interfaces", fmt.Sprintf("interfaces %v vs %v", a.Ifaces, b.Ifaces)
	case a.Query != b.Query || a.Hostname != b.Hostname || a.DataAvail != b.DataAvail:
		return "other_fields", fmt.Sprintf("query/hostname/data_available %q %q %v vs %q %q %v", a.Query, a.Hostname, a.DataAvail, b.Query, b.Hostname, b.DataAvail)
	case !eqs(a.Rows, b.Rows):
		return "row_order", fmt.Sprintf("row order differs: %v vs %v", a.Rows, b.Rows)
	}
	return "", ""
}

// class of the host set for signatures
func (s *caseSpec) class() string {
	zones := map[int]bool{}
	for _, h := range s.Hosts {
		if h.Kind == kindRows {
			zones[h.Zone] = true
		}
	}
	cl := "one_zone"
	if len(zones) > 1 || (s.Time && (zones[1] || zones[2] || zones[3])) {
		cl = "non_utc_zones"
	}
	if !s.Time {
		cl = "no_time_label"
	}
	return cl
}

// checkOracle compares one merged result with the independent merge of the host results.
func checkOracle(c *fw.Case, s *caseSpec, e *expectation, res *results.Result, how string, exactErrs bool) {
	where := func() string { return fmt.Sprintf("[%s] %s", how, s.describe()) }
	// rows
	if !s.Binned {
		got := map[rowKey]ctr{}
		for _, r := range res.Rows {
			k := keyOfRow(r)
			if _, dup := got[k]; dup {
				c.Violatef("rows_not_merged|"+s.class(), "%s: the merged result holds two rows with the same labels and attributes %s", where(), k)
			}
			cc := got[k]
			cc.add(ctr{r.Counters.BytesRcvd, r.Counters.BytesSent, r.Counters.PacketsRcvd, r.Counters.PacketsSent})
			got[k] = cc
		}
		if uint64(len(e.Union)) <= e.Effective {
			for k, w := range e.Union {
				g, ok := got[k]
				if !ok {
					c.Violatef("rows_union|row_missing|"+s.class(), "%s: row %s of the union is missing", where(), k)
					break
				}
				if g != w {
					c.Violatef("rows_union|counters|"+s.class(), "%s: row %s has counters %+v, sum over hosts is %+v", where(), k, g, w)
					break
				}
			}
			for k := range got {
				if _, ok := e.Union[k]; !ok {
					c.Violatef("rows_union|row_unexpected|"+s.class(), "%s: row %s was delivered by no host", where(), k)
					break
				}
			}
		} else {
			if uint64(len(res.Rows)) != e.Effective {
				c.Violatef("rows_limit|"+s.class(), "%s: %d rows returned, limit %d, union %d", where(), len(res.Rows), e.Effective, len(e.Union))
			}
			for k, g := range got {
				if w, ok := e.Union[k]; !ok || w != g {
					c.Violatef("rows_union|limited|"+s.class(), "%s: row %s %+v is not a row of the union (%+v)", where(), k, g, w)
					break
				}
			}
		}
		if res.Summary.Hits.Total != e.Hits {
			c.Violatef("hits|"+s.class(), "%s: hits.total=%d, expected %d (sum of host hits minus %d merged rows; union %d)", where(), res.Summary.Hits.Total, e.Hits, e.Merged, len(e.Union))
		}
	}
	if res.Summary.Hits.Displayed != len(res.Rows) {
		c.Violatef("hits_displayed", "%s: hits.displayed=%d but %d rows", where(), res.Summary.Hits.Displayed, len(res.Rows))
	}
	// totals
	t := res.Summary.Totals
	if (ctr{t.BytesRcvd, t.BytesSent, t.PacketsRcvd, t.PacketsSent}) != e.Totals {
		c.Violatef("totals", "%s: totals %+v, sum over hosts %+v", where(), t, e.Totals)
	}
	// statistics
	if got := statsOf(res.Summary.Stats); got != e.Stats {
		names := []string{"bytes_loaded", "bytes_decompressed", "blocks_processed", "blocks_corrupted", "directories_processed", "workloads"}
		var bad []string
		for i := range got {
			if got[i] != e.Stats[i] {
				bad = append(bad, names[i])
			}
		}
		c.Violatef("stats|"+strings.Join(bad, "+"), "%s: statistics [loaded decompressed blocks corrupted dirs workloads] = %v, sum over hosts = %v", where(), got, e.Stats)
	}
	// statuses
	for _, h := range s.Hosts {
		st, ok := res.HostsStatuses[h.Name]
		switch h.Kind {
		case kindErr:
			if !ok {
				c.Violatef("failed_host_missing", "%s: failed host %s is not reported in hosts_statuses %v", where(), h.Name, res.HostsStatuses)
				continue
			}
			if st.Code != types.StatusError {
				c.Violatef("failed_host_status", "%s: failed host %s has status %q", where(), h.Name, st.Code)
			}
			if exactErrs {
				if st.Message != h.ErrMsg && !(h.Wrapped && st.Message == "failed to run query: "+h.ErrMsg) {
					c.Violatef("failed_host_error", "%s: failed host %s reported with message %q, its error is %q", where(), h.Name, st.Message, h.ErrMsg)
				}
			} else if st.Message == "" {
				c.Violatef("failed_host_error", "%s: failed host %s reported without an error message", where(), h.Name)
			}
		default:
			want := types.StatusOK
			if h.Kind == kindEmpty {
				want = types.StatusEmpty
			}
			if !ok || st.Code != want {
				c.Violatef("host_status", "%s: host %s (%s) has status %+v (present=%v)", where(), h.Name, h.Kind, st, ok)
			}
		}
	}
	if len(res.HostsStatuses) != len(s.Hosts) {
		c.Violatef("host_status_extra", "%s: %d hosts queried, hosts_statuses has %d entries: %v", where(), len(s.Hosts), len(res.HostsStatuses), res.HostsStatuses)
	}
}

// ---------------------------------------------------------------------------------------------
// drivers

// scriptQuerier delivers the pre-generated host results in a scripted order or from concurrent goroutines.
type scriptQuerier struct {
	spec      *caseSpec
	order     []string
	buf       int
	goroutine bool
	yields    []int
	gotHosts  hosts.Hosts
}

func (q *scriptQuerier) Query(_ context.Context, hostList hosts.Hosts, _ *query.Args) (<-chan *results.Result, <-chan struct{}) {
	q.gotHosts = hostList
	out := make(chan *results.Result, q.buf)
	ka := make(chan struct{})
	if !q.goroutine {
		go func() {
			for _, name := range q.order {
				out <- q.spec.buildResult(q.spec.host(name))
			}
			close(out)
			close(ka)
		}()
		return out, ka
	}
	var wg sync.WaitGroup
	for i, name := range q.order {
		wg.Add(1)
		go func(i int, name string) {
			defer wg.Done()
			res := q.spec.buildResult(q.spec.host(name))
			for y := 0; y < q.yields[i]; y++ {
				runtime.Gosched()
			}
			out <- res
		}(i, name)
	}
	go func() {
		wg.Wait()
		close(out)
		close(ka)
	}()
	return out, ka
}

func newResolvers() *hosts.ResolverMap {
	rm := hosts.NewResolverMap()
	rm.Set(stringresolver.Type, stringresolver.NewResolver(true))
	return rm
}

var quietOnce sync.Once

type runOut struct {
	res      *results.Result
	err      error
	partials int
}

func runWith(q interface {
	Query(context.Context, hosts.Hosts, *query.Args) (<-chan *results.Result, <-chan struct{})
}, s *caseSpec, streaming bool) runOut {
	quietOnce.Do(func() { eng.QuietLogs(nil) })
	runner := gqd.NewQueryRunner(newResolvers(), q)
	var o runOut
	if !streaming {
		o.res, o.err = runner.Run(context.Background(), s.args())
		return o
	}
	var send sse.Sender = func(m sse.Message) error {
		// the production sender serialises the message immediately
		if pr, ok := m.Data.(*api.PartialResult); ok && pr != nil {
			if _, err := json.Marshal(pr.Result); err != nil {
				return err
			}
			o.partials++
		}
		return nil
	}
	o.res, o.err = runner.RunStreaming(context.Background(), s.args(), send)
	return o
}

func permutations(n int) [][]int {
	var out [][]int
	a := make([]int, n)
	for i := range a {
		a[i] = i
	}
	var rec func(k int)
	rec = func(k int) {
		if k == n {
			out = append(out, append([]int(nil), a...))
			return
		}
		for i := k; i < n; i++ {
			a[k], a[i] = a[i], a[k]
			rec(k + 1)
			a[k], a[i] = a[i], a[k]
		}
	}
	rec(0)
	return out
}

func run(c *fw.Case) {
	r := c.Rng
	s := genCase(r, c.Tier)
	e := expect(s)
	n := len(s.Hosts)
	names := s.hostNames()

	// delivery orders
	var orders [][]int
	if n <= 5 {
		orders = permutations(n)
		c.Count("orders_all_permutations", 1)
	} else {
		k := 16
		if c.Tier == "thorough" {
			k = 48
		}
		for i := 0; i < k; i++ {
			orders = append(orders, r.Perm(n))
		}
		// the sorted order and its reverse are always among them
		id := make([]int, n)
		rev := make([]int, n)
		for i := range id {
			id[i], rev[i] = i, n-1-i
		}
		orders = append(orders, id, rev)
	}

	var ref *canon
	var refHow string
	// compare checks one delivery against the oracle, and against another delivery of the same host
	// set: `against` == nil compares with the first delivery seen (order independence), otherwise with
	// the given result (streaming vs. plain run of the same order).
	compare := func(o runOut, how string, exactErrs bool, against *canon, againstHow string) *canon {
		if o.err != nil || o.res == nil {
			c.Violatef("query_error", "[%s] %s: error %v (result %v)", how, s.describe(), o.err, o.res)
			return nil
		}
		checkOracle(c, s, e, o.res, how, exactErrs)
		cn := canonOf(o.res)
		kind := "streaming_differs"
		if against == nil {
			kind = "order_dependent"
			if ref == nil {
				if exactErrs {
					ref, refHow = cn, how
				}
				return cn
			}
			against, againstHow = ref, refHow
		}
		ac, bc := *against, *cn
		if !exactErrs {
			// error texts of the HTTP path differ from the scripted ones: compare everything but them
			ac.Hosts, bc.Hosts = nil, nil
		}
		if cl, d := diffCanon(&ac, &bc); cl != "" {
			c.Violatef(kind+"|"+cl+"|"+s.class(), "%s\n  delivery A [%s] vs delivery B [%s]: %s", s.describe(), againstHow, how, d)
		}
		return cn
	}
	orderNames := func(o []int) []string {
		out := make([]string, len(o))
		for i, j := range o {
			out[i] = names[j]
		}
		return out
	}

	c.Note("%s", s.describe())
	for _, o := range orders {
		on := orderNames(o)
		q := &scriptQuerier{spec: s, order: on, buf: r.Intn(n + 1)}
		plain := runWith(q, s, false)
		pc := compare(plain, "plain order="+strings.Join(on, ","), true, nil, "")
		c.Count("runs_plain", 1)
		if len(q.gotHosts) != n {
			c.Violatef("host_list", "%s: querier was asked for %d hosts, %d requested", s.describe(), len(q.gotHosts), n)
		}
		q = &scriptQuerier{spec: s, order: on, buf: r.Intn(n + 1)}
		st := runWith(q, s, true)
		if pc != nil {
			compare(st, "streaming order="+strings.Join(on, ","), true, pc, "plain order="+strings.Join(on, ","))
		}
		c.Count("runs_streaming", 1)
		c.Count("streaming_partials", st.partials)
		if c.Failed() {
			break
		}
	}
	// concurrently sending goroutines
	ng := 4
	if c.Tier == "thorough" {
		ng = 10
	}
	for i := 0; i < ng && !c.Failed(); i++ {
		q := &scriptQuerier{spec: s, order: orderNames(r.Perm(n)), buf: r.Intn(n + 1), goroutine: true}
		for j := 0; j < n; j++ {
			q.yields = append(q.yields, r.Intn(6))
		}
		compare(runWith(q, s, i%2 == 1), map[bool]string{false: "plain", true: "streaming"}[i%2 == 1]+" concurrent goroutines", true, nil, "")
		c.Count("runs_goroutines", 1)
	}
	// the real API client querier over HTTP/JSON
	if !c.Failed() && n <= 12 && c.Idx%4 == 0 {
		k := 4
		if c.Tier == "thorough" {
			k = 8
		}
		for i := 0; i < k && !c.Failed(); i++ {
			o := orders[r.Intn(len(orders))]
			maxConc := 1 + r.Intn(n+2)
			out, err := runAPIClient(s, orderNames(o), maxConc, i%2 == 1)
			if err != nil {
				c.Inconclusive("apiclient harness: %v", err)
				break
			}
			compare(out, fmt.Sprintf("%s apiclient max_concurrent=%d release=%s", map[bool]string{false: "plain", true: "streaming"}[i%2 == 1], maxConc, strings.Join(orderNames(o), ",")), false, nil, "")
			c.Count("runs_apiclient", 1)
		}
	}

	// coverage
	nErr, nEmpty := 0, 0
	zones := map[int]bool{}
	for _, h := range s.Hosts {
		switch h.Kind {
		case kindErr:
			nErr++
		case kindEmpty:
			nEmpty++
		case kindRows:
			zones[h.Zone] = true
		}
		if h.Stats != nil {
			c.Count("hosts_with_stats", 1)
		}
	}
	c.Count("hosts", n)
	c.Count("hosts_failed", nErr)
	c.Count("hosts_empty", nEmpty)
	c.Count("merges_observed", e.Merged)
	if e.Stats != [6]uint64{} {
		c.Count("cases_with_stats", 1)
	}
	if uint64(len(e.Union)) > e.Effective {
		c.Count("cases_limit_below_union", 1)
	}
	if s.Time && len(zones) > 1 {
		c.Count("cases_mixed_zones", 1)
	}
	if s.Binned {
		c.Count("cases_time_binned", 1)
	}
	if s.Big && e.Effective > 100 {
		c.Count("cases_union_above_partial_cap", 1)
	}
	if n > 5 {
		c.Count("cases_many_hosts", 1)
	}
	if e.RowHosts >= 2 && e.Merged > 0 {
		c.Count("cases_nontrivial", 1)
		c.Nontrivial(s.describe() + fmt.Sprint(s.Hosts))
	}
	c.Sample(map[string]any{"case": s.describe(), "orders": len(orders), "union_rows": len(e.Union), "merged_rows": e.Merged, "expected_hits": e.Hits})
}
