package c15

import (
	"fmt"
	"strings"

	"verifharness/fw"
)

// Role c15-witness replays the minimal witnesses of the defects this check found on the pinned tree
// (`vcheck -role c15-witness`); it prints what the real distributed.QueryRunner returns for each.
func init() {
	fw.RegisterRole("c15-witness", func([]string) int {
		base := int64(1_700_000_100)
		row := func(ts int64) rowSpec {
			return rowSpec{Key: rowKey{TS: ts, Iface: "eth0"}, Ctr: ctr{40, 40, 1, 1}}
		}
		mk := func(q string, hs ...hostSpec) *caseSpec {
			s := &caseSpec{Query: q, SortBy: "packets", Limit: 1000, First: base - 1000, Last: base + 100000, Hosts: hs}
			s.Time = strings.HasPrefix(q, "time")
			return s
		}
		show := func(title string, s *caseSpec, order []string, streaming bool) {
			o := runWith(&scriptQuerier{spec: s, order: order, buf: 0}, s, streaming)
			if o.err != nil {
				fmt.Printf("%s: error %v\n", title, o.err)
				return
			}
			cn := canonOf(o.res)
			fmt.Printf("%s (order %v, streaming=%v):\n  status=%q hits=%d rows=%v\n  first/last=%d..%d stats=%v hosts=%v\n", title, order, streaming, cn.Status, cn.HitsTotal, cn.Rows, cn.First, cn.Last, cn.Stats, cn.Hosts)
		}
		// 1. statistics
		st := [6]uint64{5, 7, 3, 0, 1, 1}
		s1 := mk("sip", hostSpec{Name: "a", Kind: kindRows, Rows: []rowSpec{row(0)}, Totals: ctr{40, 40, 1, 1}, Stats: &st, First: base, Last: base + 300})
		show("1 stats {loaded 5, decompressed 7, blocks 3}", s1, []string{"a"}, false)
		// 2. same instant rendered in different zones by two hosts (UTC and +02:00), and by two hosts in +05:30
		s2 := mk("time,sip",
			hostSpec{Name: "a", Kind: kindRows, Zone: 0, Rows: []rowSpec{row(base)}, Totals: ctr{40, 40, 1, 1}, First: base, Last: base + 300},
			hostSpec{Name: "b", Kind: kindRows, Zone: 1, Rows: []rowSpec{row(base)}, Totals: ctr{40, 40, 1, 1}, First: base, Last: base + 300})
		show("2 two hosts, identical row, time label in UTC / +02:00", s2, []string{"a", "b"}, false)
		s2.Hosts[0].Zone, s2.Hosts[1].Zone = 3, 3
		show("2 two hosts, identical row, time label in +05:30 / +05:30", s2, []string{"a", "b"}, false)
		// 3. streaming: empty host answers first
		s3 := mk("sip",
			hostSpec{Name: "a", Kind: kindEmpty, First: base, Last: base + 300},
			hostSpec{Name: "b", Kind: kindRows, Rows: []rowSpec{row(0)}, Totals: ctr{40, 40, 1, 1}, First: base, Last: base + 300})
		show("3 empty host first", s3, []string{"a", "b"}, false)
		show("3 empty host first", s3, []string{"a", "b"}, true)
		show("3 empty host last", s3, []string{"b", "a"}, true)
		// 4. covered time range
		s4 := mk("sip",
			hostSpec{Name: "a", Kind: kindRows, Rows: []rowSpec{row(0)}, Totals: ctr{40, 40, 1, 1}, First: base, Last: base + 300},
			hostSpec{Name: "b", Kind: kindRows, Rows: []rowSpec{row(0)}, Totals: ctr{40, 40, 1, 1}, First: base + 600, Last: base + 900})
		show("4 ranges [0,300] and [600,900]", s4, []string{"a", "b"}, false)
		show("4 ranges [0,300] and [600,900]", s4, []string{"b", "a"}, false)
		return 0
	})
}
