// Package c29: live queries see current flows with the same semantics and change nothing.
//
// A real capture.Manager on scripted sources writes a few blocks and keeps further flows in memory;
// live queries (engine.QueryRunner with WithLiveData) are then run. Ground truth for the stored part
// is the database content as read by a plain raw query, for the in-memory part the flow maps handed
// out by the manager without filter (both are checked against the packets by C20/C21). The live
// result must equal the query oracle applied to stored blocks + in-memory flows (as one more block
// without timestamp). A twin run of the same schedule without any live query must produce the same
// database.
package c29

import (
	"context"
	"fmt"
	"math/rand"
	"sort"
	"strings"
	"sync"

	"github.com/els0r/goProbe/v4/pkg/goDB/encoder/encoders"
	"github.com/els0r/goProbe/v4/pkg/goDB/engine"
	"verifharness/capx"
	"verifharness/checks/c08"
	"verifharness/eng"
	"verifharness/fw"
	"verifharness/gen"
	"verifharness/ref"
)

func init() {
	fw.Register(&fw.Check{
		ID:    "C29",
		Level: "exploration",
		Rule: "case = scripted capture scenario (1-2 interfaces, mixed IPv4/IPv6 conversations, 2-4 write-outs, traffic after the last write-out stays in memory) with 10 (thorough 25) live queries: all attribute subsets (no time attribute), interface selections, conditions of depth <=3 incl. non-byte-aligned networks and direction filters, issued between feeds; every 3rd case issues them concurrently with feeding and write-outs (no result oracle there, twin comparison on totals). " +
			"Oracle: live rows == query oracle over (stored blocks + in-memory flows); twin run without live queries yields the same database. Distinct = (case, query) with non-empty in-memory contribution.",
		Assumptions: []string{"stored blocks and unfiltered in-memory flow maps are taken as ground truth here (verified against packets by C20/C21)", "live queries never request the time attribute"},
		NumCases: func(tier, variant string) int {
			if variant == "race" {
				if tier == "thorough" {
					return 100
				}
				return 9
			}
			if tier == "thorough" {
				return 800
			}
			return 42
		},
		Variants: func(tier string) []string { return []string{"default", "race"} },
		Run:      run,
		Require:  []string{"live_queries", "live_queries_with_memory_rows", "twin_runs", "concurrent_cases", "live_queries_with_condition", "cases_with_db_only_interface"},
	})
}

type step struct {
	kind  string // feed | rotate | live
	iface string
	n     int
	ts    int64
	q     c08.Query
}

func run(c *fw.Case) {
	r := c.Rng
	nIf := 1 + r.Intn(2)
	ifaces := []string{"eth0", "eth1"}[:nIf]
	concurrent := c.Idx%3 == 2
	scripts := map[string]*capx.Script{}
	for _, i := range ifaces {
		scripts[i] = capx.GenScript(r, capx.ScriptOpts{NConvs: 6 + r.Intn(14), NPkts: 300 + r.Intn(900), V6Prob: 0.45, NoBadPkts: true})
	}
	day := gen.DayStart(gen.MinTS) + 86400*int64(1+r.Intn(11000))
	ts := day + 300*int64(1+r.Intn(200))
	nq := 10
	if c.Tier == "thorough" {
		nq = 25
	}
	// build the schedule
	var steps []step
	nRot := 2 + r.Intn(3)
	for k := 0; k < nRot; k++ {
		for _, i := range ifaces {
			steps = append(steps, step{kind: "feed", iface: i, n: 20 + r.Intn(150)})
		}
		if k > 0 && r.Intn(2) == 0 {
			steps = append(steps, step{kind: "live"})
		}
		steps = append(steps, step{kind: "rotate", ts: ts})
		ts += 300
	}
	for q := 0; q < nq; q++ {
		if q%3 == 0 {
			for _, i := range ifaces {
				steps = append(steps, step{kind: "feed", iface: i, n: 5 + r.Intn(60)})
			}
		}
		steps = append(steps, step{kind: "live"})
	}
	// final rotation flushes the memory so the twin comparison covers everything
	steps = append(steps, step{kind: "rotate", ts: ts})
	qr := c.SubRng("queries")

	// every other case the database also holds an interface that is not captured (any more): it sorts
	// before the captured ones, has stored flows only, and takes part in `any` / listed live queries
	dbIfaces := ifaces
	var dbOnly gen.Block
	if c.Idx%2 == 1 {
		dbIfaces = append([]string{"aaa0"}, ifaces...)
		dbOnly = gen.Block{TS: day + 60}
		seen := map[string]bool{}
		for k := 0; k < 1+r.Intn(5); k++ {
			f := gen.RandFlow(r, gen.FlowOpts{V6Prob: 0.4})
			if !seen[f.KeyString()] {
				seen[f.KeyString()] = true
				dbOnly.Flows = append(dbOnly.Flows, f)
			}
		}
		c.Count("cases_with_db_only_interface", 1)
	}

	exec := func(name string, withLive bool) (map[string]map[int64][]gen.Flow, bool) {
		dbPath := c.Tmp + "/db-" + name
		if len(dbIfaces) > len(ifaces) {
			if err := gen.WriteBlock(dbPath, "aaa0", dbOnly, encoders.EncoderTypeLZ4, 0); err != nil {
				c.Inconclusive("writing the stored-only interface: %v", err)
				return nil, false
			}
		}
		rig, err := capx.NewRig(capx.DefaultConfig(dbPath, ifaces...), capx.Options{})
		if err != nil {
			c.Inconclusive("rig: %v", err)
			return nil, false
		}
		defer rig.Close()
		pos := map[string]int{}
		runner := engine.NewQueryRunner(dbPath, engine.WithLiveData(rig.Mgr))
		var wg sync.WaitGroup
		for si, st := range steps {
			switch st.kind {
			case "feed":
				s := scripts[st.iface]
				for k := 0; k < st.n && pos[st.iface] < len(s.Pkts); k++ {
					rig.Source(st.iface).Feed(s.Pkts[pos[st.iface]].Spec.Packet())
					pos[st.iface]++
				}
				if !(concurrent && withLive) {
					rig.Source(st.iface).WaitIdle()
				}
			case "rotate":
				for _, i := range ifaces {
					rig.Source(i).WaitIdle()
				}
				rig.Writeout(st.ts)
			case "live":
				if !withLive {
					continue
				}
				// ground truth for this moment
				if concurrent {
					q := genLiveQuery(qr, dbIfaces)
					wg.Add(1)
					go func() {
						defer wg.Done()
						a := eng.Args(q.Type, q.Ifaces, q.Cond, 1, 0)
						a.Last = ""
						a.SetDefaults()
						a.Live = true
						_, err := runner.Run(context.Background(), a)
						if err != nil && !strings.Contains(err.Error(), "no interfaces") {
							c.Violatef("live_query_error|concurrent", "concurrent live %s: %v", q.Describe(), err)
						}
						c.Count("live_queries", 1)
					}()
					continue
				}
				for _, i := range ifaces {
					rig.Source(i).WaitIdle()
				}
				stored := &gen.RefDB{}
				for _, i := range dbIfaces {
					m, err := capx.ReadDB(dbPath, i)
					if err != nil {
						continue // interface without any block yet
					}
					id := gen.IfaceData{Name: i}
					var tss []int64
					for t := range m {
						tss = append(tss, t)
					}
					sort.Slice(tss, func(a, b int) bool { return tss[a] < tss[b] })
					for _, t := range tss {
						id.Blocks = append(id.Blocks, gen.Block{TS: t, Flows: m[t]})
					}
					stored.Ifaces = append(stored.Ifaces, id)
				}
				if len(stored.Ifaces) == 0 {
					continue
				}
				mem := rig.FlowMaps()
				q := genLiveQuery(qr, stored.IfaceNames())
				q.Spec.First, q.Spec.Last = 1, 9_999_999_999
				// live flows only count for interfaces that are selected AND known to the DB
				live := map[string][]gen.Flow{}
				for _, i := range q.Spec.Ifaces {
					live[i] = mem[i]
				}
				want := ref.QueryExtra(stored, q.Spec, live)
				wantStoredOnly := ref.Query(stored, q.Spec)
				a := eng.Args(q.Type, q.Ifaces, q.Cond, 1, 0)
				a.Last = ""
				a.SetDefaults()
				a.Live = true
				c.Note("step %d live %s", si, q.Describe())
				res, err := runner.Run(context.Background(), a)
				c.Count("live_queries", 1)
				if q.Spec.Cond != nil {
					c.Count("live_queries_with_condition", 1)
				}
				if err != nil {
					c.Violatef("live_query_error|"+c08.CondClass(q), "live %s: %v", q.Describe(), err)
					continue
				}
				got, dup := ref.FromResult(res.Rows, q.Spec)
				if len(want) != len(wantStoredOnly) || ref.Diff(want, wantStoredOnly) != "" {
					c.Count("live_queries_with_memory_rows", 1)
					c.Nontrivial(fmt.Sprintf("%d/%d", c.Idx, si))
				}
				if dup != "" {
					c.Violatef("live_group_split|"+attrClass(q), "live %s: two result rows share the group key %s (in-memory flows not grouped by the requested attributes)", q.Describe(), dup)
					continue
				}
				if d := ref.Diff(want, got); d != "" {
					c.Violatef("live_rows|"+ref.DiffClass(want, got)+"|"+c08.CondClass(q), "live %s: %s", q.Describe(), d)
				}
			}
		}
		wg.Wait()
		out := map[string]map[int64][]gen.Flow{}
		for _, i := range ifaces {
			m, err := capx.ReadDB(dbPath, i)
			if err == nil {
				out[i] = m
			}
		}
		return out, true
	}

	a, ok := exec("live", true)
	if !ok {
		return
	}
	b, ok := exec("twin", false)
	if !ok {
		return
	}
	c.Count("twin_runs", 1)
	if concurrent {
		c.Count("concurrent_cases", 1)
	}
	for _, i := range ifaces {
		if d := diffDB(a[i], b[i], concurrent); d != "" {
			mode := "sequential"
			if concurrent {
				mode = "concurrent"
			}
			c.Violatef("db_changed_by_live_queries|"+mode, "iface %s: database written with live queries differs from the twin run without them: %s", i, d)
		}
	}
	c.Sample(map[string]any{"ifaces": ifaces, "steps": len(steps), "concurrent": concurrent})
}

func attrClass(q c08.Query) string {
	a := append([]string(nil), q.Spec.Attrs...)
	sort.Strings(a)
	return strings.Join(a, "+")
}

func genLiveQuery(r *rand.Rand, ifaces []string) c08.Query {
	var q c08.Query
	all := []string{"sip", "dip", "dport", "proto"}
	perm := r.Perm(4)
	n := 1 + r.Intn(4)
	for _, i := range perm[:n] {
		q.Spec.Attrs = append(q.Spec.Attrs, all[i])
	}
	q.Type = eng.QueryType(q.Spec.Attrs, false, r.Intn(2) == 0)
	if r.Intn(2) == 0 || len(ifaces) == 1 {
		q.Ifaces = "any"
		q.Spec.Ifaces = ifaces
	} else {
		k := r.Intn(len(ifaces))
		q.Ifaces = ifaces[k]
		q.Spec.Ifaces = []string{ifaces[k]}
	}
	if r.Intn(4) != 0 {
		q.Spec.Cond = gen.RandCond(r, gen.CondOpts{MaxDepth: 1 + r.Intn(3), Sugar: true})
		q.Cond = q.Spec.Cond.Render(gen.PlainStyle)
	}
	if r.Intn(5) == 0 {
		d := gen.DirFilters[r.Intn(len(gen.DirFilters))]
		q.Spec.Dir = d
		if q.Cond == "" {
			q.Cond = fmt.Sprintf("dir = %s", d)
		} else {
			q.Cond = fmt.Sprintf("dir = %s & (%s)", d, q.Cond)
		}
	}
	return q
}

func diffDB(a, b map[int64][]gen.Flow, totalsOnly bool) string {
	sum := func(m map[int64][]gen.Flow) map[string]ref.Ctr {
		out := map[string]ref.Ctr{}
		for t, fl := range m {
			for _, f := range fl {
				k := f.KeyString()
				if !totalsOnly {
					k = fmt.Sprintf("%d|%s", t, k)
				}
				v := out[k]
				v.Add(ref.Ctr{BR: f.BR, BS: f.BS, PR: f.PR, PS: f.PS})
				out[k] = v
			}
		}
		return out
	}
	sa, sb := sum(a), sum(b)
	var msgs []string
	for k, v := range sa {
		if w, ok := sb[k]; !ok {
			msgs = append(msgs, fmt.Sprintf("%s only with live queries %+v", k, v))
		} else if w != v {
			msgs = append(msgs, fmt.Sprintf("%s with live %+v twin %+v", k, v, w))
		}
	}
	for k, v := range sb {
		if _, ok := sa[k]; !ok {
			msgs = append(msgs, fmt.Sprintf("%s only in twin %+v", k, v))
		}
	}
	sort.Strings(msgs)
	if len(msgs) > 5 {
		msgs = msgs[:5]
	}
	return strings.Join(msgs, "; ")
}
