// Package all links every property check into cmd/vcheck.
package all

import (
	_ "verifharness/checks/c08"
)
