// Package c01: stored flow blocks read back byte-for-byte as written, under the timestamp they
// were written for, for every encoder/level, block size and compressibility and any split of the
// writes over open/write/close sessions and days; per-block and per-day summaries read back equal.
package c01

import (
	"fmt"
	"math/rand"
	"path/filepath"
	"strings"
	"time"

	"github.com/els0r/goProbe/v4/pkg/goDB/encoder"
	"github.com/els0r/goProbe/v4/pkg/goDB/encoder/encoders"
	"github.com/els0r/goProbe/v4/pkg/goDB/storage/gpfile"
	"github.com/els0r/goProbe/v4/pkg/types"
	"verifharness/fw"
	"verifharness/gen"
	"verifharness/stor"
)

func init() {
	fw.Register(&fw.Check{
		ID:    "C01",
		Level: "exploration",
		Rule: "case = one write history against one interface directory: 1-3 days, 1-6 sessions (gpfile.NewDirWriter/Open/WriteBlocks*/Close; 0-6 blocks each, sessions of different days interleaved, " +
			"encoder per session from {default, lz4, zstd, null} x level {unset, 1, mid, max} or a caller-owned encoder instance), 8 independent column payloads per block " +
			"(sizes 0/1/4095/4096/4097/8 KiB+-1/20 KiB/64 KiB+-1/70 KiB/.. 300 KiB quick, 1 MiB thorough; classes zeros/text/PRNG (incompressible)/PRNG+zeros/column/mixed/low-entropy), random per-block summaries and counters. " +
			"After every session and at the end each touched day is reopened with a fresh reader (directory suffix given or recovered; read-all or low-memory; sequential, random-order and by-timestamp reads) and compared with the harness's record of what was handed to WriteBlocks. " +
			"A history is non-trivial iff it contains an incompressible block > 4096 B written with a compressing encoder (null fallback beyond the bufio buffer) that is followed by a later block in the same column file; distinct by the (encoder, class, size-bucket) sequence of that column.",
		Assumptions: []string{
			"timestamps inside a day are strictly increasing (non-monotone histories belong to C03)",
			"per-block flow/drop summaries < 2^32 and counter sums < 2^64 (format limits belong to C03)",
			"one writer at a time; no I/O faults (C04/C05)",
		},
		NumCases: func(tier, variant string) int {
			n := map[string]int{"default": 400, "nocgo": 160, "asan": 60}[variant]
			if tier == "thorough" {
				n *= 25
			}
			return stor.DevCases(n)
		},
		Variants: func(tier string) []string {
			if tier == "thorough" {
				return []string{"default", "nocgo", "asan"}
			}
			return []string{"default", "nocgo"}
		},
		Run: run,
		// generous, progress based (a note per block): pure-Go zstd level 19 on a loaded machine is slow
		CaseTimeout: 10 * time.Minute,
		// single-threaded workloads: keep the Go runtime of the 16 parallel children from fighting over the cores
		Env: func(tier, variant string) []string { return []string{"GOMAXPROCS=2"} },
		Require: []string{"blocks_written", "fallback_gt4k_blocks", "fallback_gt4k_followed", "sessions_reopening_existing_day", "blocks_empty_column",
			"reads_readall", "reads_lowmem", "reads_by_timestamp", "reads_random_order", "blocks_lz4", "blocks_zstd", "blocks_null", "histories_multi_day", "histories_encoder_changed"},
	})
}

type sessEnc struct {
	name  string        // for witnesses: "lz4/6", "zstd-shared/19", "default"
	typ   encoders.Type // effective encoder type
	opts  func() ([]gpfile.Option, func())
	level int
}

func pickSessEnc(r *rand.Rand) sessEnc {
	var s sessEnc
	switch r.Intn(10) {
	case 0:
		s.name, s.typ = "default", encoders.EncoderTypeLZ4
		s.opts = func() ([]gpfile.Option, func()) { return nil, func() {} }
		return s
	case 1:
		s.typ = encoders.EncoderTypeNull
	case 2, 3, 4, 5:
		s.typ = encoders.EncoderTypeLZ4
	default:
		s.typ = encoders.EncoderTypeZSTD
	}
	maxLevel := map[encoders.Type]int{encoders.EncoderTypeNull: 0, encoders.EncoderTypeLZ4: 12, encoders.EncoderTypeZSTD: 19}[s.typ]
	switch r.Intn(4) {
	case 0:
		s.level = 0
	case 1:
		s.level = 1
	case 2:
		s.level = maxLevel
	default:
		if maxLevel > 0 {
			s.level = 1 + r.Intn(maxLevel)
		}
	}
	if maxLevel == 0 {
		s.level = 0
	}
	t, l := s.typ, s.level
	if r.Intn(5) == 0 {
		// caller-owned encoder instance shared by all column files of the session
		s.name = fmt.Sprintf("%s-shared/%d", t, l)
		s.opts = func() ([]gpfile.Option, func()) {
			e, err := encoder.New(t)
			if err != nil {
				panic(err)
			}
			if l > 0 {
				e.SetLevel(l)
			}
			return []gpfile.Option{gpfile.WithEncoder(e)}, func() { e.Close() }
		}
		return s
	}
	s.name = fmt.Sprintf("%s/%d", t, l)
	s.opts = func() ([]gpfile.Option, func()) {
		return []gpfile.Option{gpfile.WithEncoderTypeLevel(t, l)}, func() {}
	}
	return s
}

type history struct {
	days []*stor.DayModel
	last []int64 // last timestamp per day (0 = none yet)
}

func run(c *fw.Case) {
	r := c.Rng
	iface := filepath.Join(c.Tmp, "db", "eth0")
	thorough := c.Tier == "thorough"

	nDays := 1 + r.Intn(3)
	h := &history{}
	base := gen.DayStart(gen.MinTS) + 86400*int64(1+r.Intn(11000))
	for d := 0; d < nDays; d++ {
		h.days = append(h.days, &stor.DayModel{DayTS: base})
		h.last = append(h.last, 0)
		base += 86400 * int64(1+r.Intn(40))
	}
	// hot columns receive the large / incompressible payloads
	hot := map[int]bool{r.Intn(stor.NCols): true}
	if r.Intn(2) == 0 {
		hot[r.Intn(stor.NCols)] = true
	}
	maxSize := 0
	if c.Variant == "asan" || (c.Variant == "nocgo" && !thorough) {
		maxSize = 140000 // ASan and the pure-Go zstd at level 19 are slow
	}
	largeBudget := 4
	genCol := func(col int) ([]byte, string) {
		var size int
		var cls string
		if hot[col] {
			size = stor.PickSize(r, thorough, maxSize)
			if size > 65536 {
				if largeBudget == 0 {
					size = stor.SizesBoundary[r.Intn(len(stor.SizesBoundary))]
				} else {
					largeBudget--
				}
			}
			cls = stor.PickClass(r)
			if r.Intn(2) == 0 {
				cls = stor.ClsRandom
			}
		} else {
			switch r.Intn(6) {
			case 0:
				size = 0
			case 1:
				size = stor.SizesBoundary[r.Intn(len(stor.SizesBoundary))]
			default:
				size = r.Intn(600)
			}
			cls = stor.PickClass(r)
		}
		return stor.Gen(r, cls, size), cls
	}

	nSess := 1 + r.Intn(6)
	var encNames []string
	var sample []string
	touchedBefore := map[int]bool{}
	for s := 0; s < nSess; s++ {
		di := r.Intn(nDays)
		day := h.days[di]
		se := pickSessEnc(r)
		encNames = append(encNames, se.name)
		nb := r.Intn(7)
		if nb == 0 && r.Intn(3) != 0 {
			nb = 1
		}
		opts, closeEnc := se.opts()
		// first timestamp handed to NewDirWriter: any timestamp of the day
		tsFor := func() int64 {
			last := h.last[di]
			if last == 0 {
				switch r.Intn(3) {
				case 0:
					return day.DayTS
				case 1:
					return day.DayTS + 300
				default:
					return day.DayTS + int64(r.Intn(3000))
				}
			}
			ts := last + []int64{1, 300, 300, int64(1 + r.Intn(3000))}[r.Intn(4)]
			if ts >= day.DayTS+86400 {
				ts = last + 1
			}
			return ts
		}
		c.Note("session %d day %d encoder %s blocks %d", s, day.DayTS, se.name, nb)
		dirTS := day.DayTS + int64(r.Intn(86400))
		w := gpfile.NewDirWriter(iface, dirTS, opts...)
		if err := w.Open(); err != nil {
			c.Violatef("write_error|open", "session %d (day %d, encoder %s): Open failed: %v", s, day.DayTS, se.name, err)
			closeEnc()
			return
		}
		if touchedBefore[di] {
			c.Count("sessions_reopening_existing_day", 1)
		}
		var pending []stor.BlockRec
		failed := false
		for b := 0; b < nb; b++ {
			rec := stor.BlockRec{TS: tsFor(), Enc: se.name, Sess: s}
			h.last[di] = rec.TS
			c.Note("session %d (%s) block %d ts %d", s, se.name, b, rec.TS)
			var data [types.ColIdxCount][]byte
			for col := 0; col < stor.NCols; col++ {
				rec.Cols[col], rec.Class[col] = genCol(col)
				// hand goProbe its own copy: the record must stay pristine
				data[col] = append([]byte(nil), rec.Cols[col]...)
				if r.Intn(8) == 0 && len(data[col]) == 0 {
					data[col] = nil
				}
			}
			rec.Sum = stor.Summary{V4: pickCount(r), V6: pickCount(r), Drops: pickCount(r)}
			rec.Ctr = stor.Ctr{BR: pickCtr(r), BS: pickCtr(r), PR: pickCtr(r), PS: pickCtr(r)}
			err := w.WriteBlocks(rec.TS, gpfile.TrafficMetadata{NumV4Entries: rec.Sum.V4, NumV6Entries: rec.Sum.V6, NumDrops: rec.Sum.Drops},
				types.Counters{BytesRcvd: rec.Ctr.BR, BytesSent: rec.Ctr.BS, PacketsRcvd: rec.Ctr.PR, PacketsSent: rec.Ctr.PS}, data)
			if err != nil {
				c.Violatef("write_error|writeblocks|"+encKind(se), "session %d (day %d, encoder %s) block ts %d sizes %v: WriteBlocks failed: %v", s, day.DayTS, se.name, rec.TS, sizes(rec), err)
				failed = true
				break
			}
			pending = append(pending, rec)
		}
		if failed {
			closeEnc()
			return
		}
		if err := w.Close(); err != nil {
			c.Violatef("write_error|close|"+encKind(se), "session %d (day %d, encoder %s): Close failed: %v", s, day.DayTS, se.name, err)
			closeEnc()
			return
		}
		closeEnc()
		day.Blocks = append(day.Blocks, pending...)
		touchedBefore[di] = true
		c.Count("sessions", 1)
		if nb == 0 {
			c.Count("sessions_without_blocks", 1)
		}
		for _, rec := range pending {
			c.Count("blocks_written", 1)
			c.Count("blocks_"+strings.SplitN(strings.SplitN(se.name, "/", 2)[0], "-", 2)[0], 1)
			for col := 0; col < stor.NCols; col++ {
				if len(rec.Cols[col]) == 0 {
					c.Count("blocks_empty_column", 1)
				}
				if len(rec.Cols[col]) > 65536 {
					c.Count("columns_gt_64k", 1)
				}
			}
		}
		if len(sample) < 12 {
			sample = append(sample, fmt.Sprintf("s%d day%d %s x%d", s, di, se.name, nb))
		}
		// intermediate verification of the touched day
		if s < nSess-1 && r.Intn(2) == 0 {
			if !verify(c, iface, day, pickReadOpts(c, r), "after session "+fmt.Sprint(s)) {
				return
			}
		}
	}
	// final verification of every day, both reader modes
	for _, day := range h.days {
		if len(day.Blocks) == 0 {
			if _, _, found := stor.FindDayDir(iface, day.DayTS); !found {
				continue
			}
		}
		o1 := pickReadOpts(c, r)
		o2 := pickReadOpts(c, r)
		o2.ReadAll = !o1.ReadAll
		if !verify(c, iface, day, o1, "final") || !verify(c, iface, day, o2, "final") {
			return
		}
	}
	coverage(c, h, encNames)
	c.Sample(map[string]any{"variant": c.Variant, "days": nDays, "sessions": sample})
}

func encKind(se sessEnc) string {
	return strings.SplitN(se.name, "/", 2)[0]
}

func sizes(b stor.BlockRec) []int {
	var out []int
	for _, c := range b.Cols {
		out = append(out, len(c))
	}
	return out
}

func pickCount(r *rand.Rand) uint64 {
	switch r.Intn(8) {
	case 0:
		return 0
	case 1:
		return 1<<32 - 1
	case 2:
		return uint64(r.Uint32())
	default:
		return uint64(r.Intn(5000))
	}
}

func pickCtr(r *rand.Rand) uint64 {
	switch r.Intn(8) {
	case 0:
		return 0
	case 1:
		return gen.CounterVals[r.Intn(len(gen.CounterVals))] // <= 2^56
	case 2:
		return r.Uint64() >> 8
	default:
		return uint64(r.Intn(1 << 20))
	}
}

func pickReadOpts(c *fw.Case, r *rand.Rand) stor.ReadOpts {
	o := stor.ReadOpts{UseSuffix: r.Intn(2) == 0, ReadAll: r.Intn(2) == 0, Rng: r}
	o.Order = []string{"seq", "seq", "random", "ts"}[r.Intn(4)]
	return o
}

// incompressibleBig reports whether the harness expects the column payload to take the null
// fallback after more than one bufio buffer has been written.
func incompressibleBig(b stor.BlockRec, col int) bool {
	return b.Class[col] == stor.ClsRandom && len(b.Cols[col]) > 4096 && !strings.HasPrefix(b.Enc, "null")
}

// featureOf classifies a mismatching (block, column) for the signature.
func featureOf(m *stor.DayModel, blk, col int) string {
	if blk < 0 || col < 0 || blk >= len(m.Blocks) {
		return "day"
	}
	b := m.Blocks[blk]
	enc := strings.SplitN(strings.SplitN(b.Enc, "/", 2)[0], "-", 2)[0]
	if incompressibleBig(b, col) {
		return enc + ",incompressible>4K"
	}
	for i := 0; i < blk; i++ {
		if incompressibleBig(m.Blocks[i], col) {
			return enc + ",after_incompressible>4K"
		}
	}
	if b.Class[col] == stor.ClsRandom {
		return enc + ",incompressible<=4K"
	}
	return enc + ",compressible"
}

func verify(c *fw.Case, iface string, day *stor.DayModel, o stor.ReadOpts, when string) bool {
	mode := fmt.Sprintf("suffix=%v readall=%v order=%s", o.UseSuffix, o.ReadAll, o.Order)
	c.Note("verify day %d %s %s", day.DayTS, when, mode)
	dump, err := stor.ReadDay(iface, day.DayTS, o)
	if err != nil {
		c.Violatef("open_error", "%s (%s): reopening day %d with %d written blocks failed: %v", when, mode, day.DayTS, len(day.Blocks), err)
		return false
	}
	if o.ReadAll {
		c.Count("reads_readall", 1)
	} else {
		c.Count("reads_lowmem", 1)
	}
	switch o.Order {
	case "ts":
		c.Count("reads_by_timestamp", 1)
	case "random":
		c.Count("reads_random_order", 1)
	}
	ms := stor.Compare(day, dump, true)
	for _, m := range ms {
		c.Violatef(m.Clause+"|"+featureOf(day, m.Block, m.Col), "%s (%s): %s", when, mode, m.Detail)
	}
	// coverage from what was actually stored
	if when == "final" && len(ms) == 0 {
		for col := 0; col < stor.NCols; col++ {
			for i := range day.Blocks {
				if dump.Enc[col][i] == encoders.EncoderTypeNull && dump.RawLen[col][i] > 0 && !strings.HasPrefix(day.Blocks[i].Enc, "null") {
					c.Count("fallback_blocks_seen", 1)
				}
			}
		}
	}
	return len(ms) == 0
}

func coverage(c *fw.Case, h *history, encNames []string) {
	if len(h.days) > 1 {
		n := 0
		for _, d := range h.days {
			if len(d.Blocks) > 0 {
				n++
			}
		}
		if n > 1 {
			c.Count("histories_multi_day", 1)
		}
	}
	kinds := map[string]bool{}
	for _, n := range encNames {
		kinds[n] = true
	}
	if len(kinds) > 1 {
		c.Count("histories_encoder_changed", 1)
	}
	for _, d := range h.days {
		for col := 0; col < stor.NCols; col++ {
			for i, b := range d.Blocks {
				if !incompressibleBig(b, col) {
					continue
				}
				c.Count("fallback_gt4k_blocks", 1)
				if i < len(d.Blocks)-1 {
					c.Count("fallback_gt4k_followed", 1)
					var seq []string
					for _, bb := range d.Blocks {
						seq = append(seq, fmt.Sprintf("%s:%s:%s", bb.Enc, bb.Class[col], stor.SizeBucket(len(bb.Cols[col]))))
					}
					c.Nontrivial(strings.Join(seq, ","))
					break
				}
			}
		}
	}
}
