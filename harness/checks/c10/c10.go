// Package c10: condition text is parsed robustly and its canonical form keeps its meaning.
//
// Two workloads per case, both against the real query preparation (query.Args.Prepare):
//
//	(a) grammar: condition ASTs rendered with every operator spelling of goQuery's help text, whitespace
//	    variants, bracket kinds and precedence-relying parenthesisation. Prepare must accept; the canonical
//	    string it stores must parse to a Node with the same truth table as the plain symbolic rendering
//	    of the same AST, and preparing the canonical string again must return it unchanged.
//	(c) concurrent: every text accepted in (a) is prepared again by 8-16 goroutines at once (as parallel
//	    API requests do); each call must produce the canonical form seen sequentially. Also run from
//	    a -race build.
//	(b) fuzz: random bytes, token soups, type-confused clauses, mutated valid conditions, deep nesting,
//	    long chains. Prepare must return (error or statement) without panicking; whatever it accepts must
//	    have an idempotent canonical form that parses and evaluates (without panicking) exactly like the
//	    text that was validated.
package c10

import (
	"fmt"
	"math/rand"
	"net/netip"
	"runtime/debug"
	"strings"
	"sync"

	"github.com/els0r/goProbe/v4/pkg/goDB/conditions"
	"github.com/els0r/goProbe/v4/pkg/goDB/conditions/node"
	"github.com/els0r/goProbe/v4/pkg/types"
	"verifharness/condx"
	"verifharness/fw"
	"verifharness/gen"
)

func init() {
	fw.Register(&fw.Check{
		ID:    "C10",
		Level: "exploration",
		Rule: "case = G grammar conditions (AST depth<=4 incl. sugar and an optional direction filter at an allowed position) each rendered with per-operator random spellings from the help text " +
			"(eq,-eq,equals,==,===; neq,-neq,ne,-ne; le..; ge..; less,l,-l,lt,-lt; greater,g,..; and,&&,*; or,||,+; not; (),[],{}), whitespace variants (none around symbols, blanks, tabs, newlines, runs), " +
			"upper-case protocol names, redundant or precedence-relying parentheses; plus F fuzz strings (random bytes, token soup, type-confused clauses with hostile values, mutated valid renderings, " +
			"nesting depth 50..5000 and one multi-megabyte nesting, chains of up to 3000 clauses). Every text goes through Args.Prepare (repeated, because SanitizeUserInput iterates a Go map). " +
			"A grammar rendering is non-trivial iff it uses at least one non-base spelling and its truth table on the pool has both values; distinct by text. Fuzz inputs are distinct by text.",
		Assumptions: []string{
			"'means the same as its symbol' is decided relative to goProbe's own evaluation of the plain symbolic, fully parenthesised rendering of the same AST (absolute semantics are C09)",
			"word operators are rendered enclosed by whitespace (help text); 'not' may also start the text. '(not x)', 'not(x)' and whole-text upper case are exercised as optional forms: they may be rejected, but if accepted must keep the meaning",
			"whitespace = blank, tab, newline, carriage return",
			"no DNS: host-name-looking values are expected to be rejected by the resolver",
		},
		NumCases: func(tier, variant string) int {
			if variant == "race" {
				if tier == "thorough" {
					return 100
				}
				return 8
			}
			if tier == "thorough" {
				return 2000
			}
			return 64
		},
		Variants: func(tier string) []string { return []string{"default", "race"} },
		Run:      run,
		Require: []string{"grammar_renderings", "grammar_accepted", "grammar_truth_tables", "grammar_word_and_then_not", "grammar_word_spellings", "grammar_symbol_no_whitespace",
			"grammar_whitespace_tab_newline", "grammar_alt_brackets", "grammar_dir_filter", "grammar_precedence_renderings", "grammar_upper_proto",
			"fuzz_inputs", "fuzz_accepted", "fuzz_rejected", "fuzz_deep_nesting", "fuzz_long_chain", "fuzz_truth_tables", "canonical_idempotence_checked", "repeat_prepare_calls", "concurrent_prepare_calls"},
	})
}

type state struct {
	c    *fw.Case
	seen map[string]bool
	// texts accepted by the sequential workload with the canonical form seen there (input of (c))
	acc []acceptedText
}

type acceptedText struct{ text, canonical string }

func (s *state) violate(sig, format string, args ...any) {
	if s.seen[sig] {
		s.c.Count("violations_suppressed_same_signature", 1)
		return
	}
	s.seen[sig] = true
	s.c.Violatef(sig, format, args...)
}

func show(s string) string {
	if len(s) > 300 {
		return fmt.Sprintf("%q…(%d bytes)…%q", s[:150], len(s), s[len(s)-100:])
	}
	return fmt.Sprintf("%q", s)
}

// outcome of preparing a text several times. SanitizeUserInput applies its rewrites in the random
// iteration order of a Go map, so the calls may disagree; the outcome reported is the least
// favourable one for the clause being checked and the disagreement is kept as information.
type outcome struct {
	accepted  bool
	canonical string
	err       error
	panicMsg  string
	unstable  string   // description if repeated preparation disagreed ("" = all calls agreed)
	others    []string // further canonical strings seen in accepted calls
}

// prepareN prepares text n times. A panic in any call wins; otherwise, with preferReject, a rejection
// in any call wins (documented spellings must always be accepted), without it an acceptance wins
// (whatever can be accepted must have a sound canonical form).
func prepareN(c *fw.Case, text string, n int, preferReject bool) outcome {
	var o outcome
	for i := 0; i < n; i++ {
		st, err, pm := condx.Prepare(text)
		c.Count("repeat_prepare_calls", 1)
		cur := outcome{accepted: err == nil && pm == "", err: err, panicMsg: pm}
		if st != nil && cur.accepted {
			cur.canonical = st.Condition
		}
		if i == 0 {
			o = cur
			continue
		}
		if cur.accepted == o.accepted && cur.canonical == o.canonical && (cur.panicMsg == "") == (o.panicMsg == "") {
			continue
		}
		desc := fmt.Sprintf("call 1: accepted=%v canonical=%q err=%v; call %d: accepted=%v canonical=%q err=%v", o.accepted, o.canonical, o.err, i+1, cur.accepted, cur.canonical, cur.err)
		if o.unstable != "" {
			desc = o.unstable
		}
		c.Count("prepare_outcome_unstable", 1)
		better := false
		switch {
		case o.panicMsg != "":
		case cur.panicMsg != "":
			better = true
		case cur.accepted && o.accepted:
			o.others = append(o.others, cur.canonical)
		case preferReject:
			better = !cur.accepted
		default:
			better = cur.accepted
		}
		if better {
			cur.others = o.others
			o = cur
		}
		o.unstable = desc
	}
	return o
}

// truth evaluates n on the pool (exact-capacity keys); panics are returned per flow.
func truth(n node.Node, pool []gen.Flow) (res []bool, panics []string) {
	res = make([]bool, len(pool))
	panics = make([]string, len(pool))
	for i, f := range pool {
		g := condx.NewGuardedKey(f, condx.KeyExact)
		res[i], panics[i] = condx.Eval(n, g.Key)
	}
	return
}

var sampleCounters = []types.Counters{
	{}, {PacketsRcvd: 1, BytesRcvd: 40}, {PacketsSent: 1, BytesSent: 40}, {PacketsRcvd: 2, PacketsSent: 3, BytesRcvd: 1, BytesSent: 1},
	{BytesRcvd: 10}, {BytesSent: 10},
}

// filterSignature describes a split-off direction filter by its behaviour.
func filterSignature(vf *node.ValFilterNode) string {
	if vf == nil {
		return "nil"
	}
	s := vf.FilterType + fmt.Sprintf("/left=%v/", vf.LeftNode)
	if vf.ValFilter != nil {
		for _, cn := range sampleCounters {
			if vf.ValFilter(cn) {
				s += "1"
			} else {
				s += "0"
			}
		}
	}
	return s
}

func run(c *fw.Case) {
	st := &state{c: c, seen: map[string]bool{}}
	nGrammar, nFuzz := 64, 320
	if c.Tier == "thorough" {
		nGrammar, nFuzz = 100, 1000
	}
	if c.Variant == "race" {
		// the race build is about (c): a few grammar conditions to obtain accepted texts, no fuzzing
		nGrammar, nFuzz = 24, 0
	}
	for i := 0; i < nGrammar; i++ {
		grammarOne(c, st, c.Rng, i)
	}
	if nFuzz > 0 {
		fuzz(c, st, c.Rng, nFuzz)
	}
	concurrent(c, st)
}

// ---------------------------------------------------------------------------------------------
// (c) concurrent preparation: the API server prepares the conditions of parallel requests on
// separate goroutines. Every text accepted by the sequential workload is prepared again by several
// goroutines at once (each with its own Args); the outcome must be the one seen sequentially —
// never a rejection, a panic, or the canonical form of somebody else's condition.
func concurrent(c *fw.Case, st *state) {
	// only texts whose canonical form is stable under repeated sequential preparation take part
	var pool []acceptedText
	for _, a := range st.acc {
		stable := true
		for k := 0; k < 3 && stable; k++ {
			o, err, pm := condx.Prepare(a.text)
			stable = pm == "" && err == nil && o != nil && o.Condition == a.canonical
		}
		if stable {
			pool = append(pool, a)
		}
	}
	if len(pool) < 4 {
		return
	}
	workers, iters := 8, 150
	if c.Tier == "thorough" {
		workers, iters = 16, 400
	}
	type bad struct{ sig, detail string }
	res := make(chan bad, workers)
	var wg sync.WaitGroup
	for w := 0; w < workers; w++ {
		wr := c.SubRng(fmt.Sprintf("concurrent-%d", w))
		wg.Add(1)
		go func() {
			defer wg.Done()
			for i := 0; i < iters; i++ {
				a := pool[wr.Intn(len(pool))]
				o, err, pm := condx.Prepare(a.text)
				switch {
				case pm != "":
					res <- bad{"concurrent_prepare|panic", fmt.Sprintf("Prepare(%s) panicked while other goroutines prepared other conditions: %s", show(a.text), condx.FirstLine(pm))}
					return
				case err != nil || o == nil:
					res <- bad{"concurrent_prepare|rejected", fmt.Sprintf("Prepare(%s) is accepted sequentially (canonical %q) but was rejected while other goroutines prepared other conditions: %v", show(a.text), a.canonical, err)}
					return
				case o.Condition != a.canonical:
					res <- bad{"concurrent_prepare|canonical_differs", fmt.Sprintf("Prepare(%s) yields the canonical form %q sequentially, but %q while other goroutines prepared other conditions", show(a.text), a.canonical, o.Condition)}
					return
				}
			}
		}()
	}
	wg.Wait()
	close(res)
	c.Count("concurrent_prepare_calls", workers*iters)
	c.Count("concurrent_prepare_texts", len(pool))
	for b := range res {
		st.violate(b.sig, "%s", b.detail)
	}
}

// ---------------------------------------------------------------------------------------------
// (a) grammar renderings

type dirSpec struct {
	kw, val string
	eq      string // spelling of "="
	and     string // spelling of "&"
	left    bool
	only    bool
}

func (d *dirSpec) wrap(r *rand.Rand, body string, ws func() string) string {
	eq := d.eq
	if condx.IsWord(eq) {
		eq = ws() + eq + ws()
	}
	clause := d.kw + eq + d.val
	if d.only {
		return clause
	}
	and := d.and
	if condx.IsWord(and) {
		and = ws() + and + ws()
	}
	// blanks inside the parentheses: a body starting with the word "not" must stay enclosed by whitespace
	if d.left {
		return clause + and + "( " + body + " )"
	}
	return "( " + body + " )" + and + clause
}

func grammarOne(c *fw.Case, st *state, r *rand.Rand, i int) {
	cond := gen.RandCond(r, gen.CondOpts{MaxDepth: 1 + r.Intn(4), Sugar: true})
	condx.FixProtoNames(cond)
	so := condx.StyleOpts{WordProb: 0.6, OptionalProb: 0.08, Whitespace: true, ForceProb: 0.3, AltBrackets: true, UpperProto: true}
	if i%8 == 0 { // pure base symbols, only whitespace / bracket variation
		so.WordProb = 0
	}
	styled := condx.RandStyle(r, cond, so)
	var dir *dirSpec
	if r.Intn(5) == 0 {
		dir = &dirSpec{kw: []string{"dir", "direction"}[r.Intn(2)], val: string(gen.DirFilters[r.Intn(len(gen.DirFilters))]),
			eq: condx.CmpSpellings["="][r.Intn(6)], and: condx.AndSpellings[r.Intn(4)], left: r.Intn(2) == 0}
		c.Count("grammar_dir_filter", 1)
	}
	upperAll := r.Intn(10) == 0
	wsSeed := r.Int63()
	render := func(s *condx.Styled) (string, condx.Rendering) {
		rd := s.Render()
		text := rd.Text
		if dir != nil {
			wr := rand.New(rand.NewSource(wsSeed))
			text = dir.wrap(wr, text, func() string { return []string{" ", "  ", "\t", "\n"}[wr.Intn(4)] })
		}
		if upperAll {
			text = strings.ToUpper(text)
			rd.Optional = true
		}
		return text, rd
	}
	text, rd := render(styled)
	c.Count("grammar_renderings", 1)
	countRendering(c, styled, rd, text)
	if rd.Optional {
		c.Count("grammar_optional_forms", 1)
	}

	// reference: plain symbolic, fully parenthesised rendering of the same AST, parsed directly
	refText := cond.String()
	wantFilter := "none/left=false/"
	if dir != nil {
		refDir := "dir = " + dir.val
		if dir.left {
			refText = refDir + " & (" + refText + ")"
		} else {
			refText = "(" + refText + ") & " + refDir
		}
	}
	refNode, refVF, rerr, rpm := condx.Parse(refText)
	if rerr != nil || rpm != "" || refNode == nil {
		st.violate("symbolic_reference_rejected", "plain symbolic rendering %q is not accepted by ParseAndInstrument: err=%v panic=%s", refText, rerr, condx.FirstLine(rpm))
		return
	}
	if dir != nil {
		wantFilter = filterSignature(refVF)
	}
	pool := condx.BuildPool(r, []*gen.Cond{cond}, 30)
	refTruth, refPanics := truth(refNode, pool)

	// evaluate judges one rendering; returns a failure class ("" = fine) and a description
	judge := func(text string, optional bool) (class, detail string) {
		c.Note("Prepare(%s)", show(text))
		o := prepareN(c, text, 3, true)
		switch {
		case o.panicMsg != "":
			return "prepare_panic", fmt.Sprintf("Prepare(%s) panicked: %s", show(text), o.panicMsg)
		case !o.accepted:
			if optional {
				return "", ""
			}
			return "documented_spelling_rejected", fmt.Sprintf("Prepare(%s) rejected: %v %s\n(symbolic equivalent %q is accepted)", show(text), o.err, o.unstable, refText)
		}
		for _, alt := range o.others {
			// another call produced another canonical string: it must be as good as the first
			if an, _, aerr, apm := condx.Parse(alt); aerr != nil || apm != "" || an == nil {
				return "canonical_rejected", fmt.Sprintf("Prepare(%s) accepted, but one of its canonical forms, %q, fails in ParseAndInstrument: err=%v panic=%s", show(text), alt, aerr, condx.FirstLine(apm))
			} else if at, ap := truth(an, pool); true {
				for i, f := range pool {
					if refPanics[i] == "" && (ap[i] != "" || at[i] != refTruth[i]) {
						return "spelling_changes_meaning", fmt.Sprintf("text %s (one of its canonical forms: %q) evaluates to %v (panic %q) on flow %s, the symbolic form %q to %v", show(text), alt, at[i], condx.FirstLine(ap[i]), f.KeyString(), refText, refTruth[i])
					}
				}
			}
		}
		n, vf, err, pm := condx.Parse(o.canonical)
		if err != nil || pm != "" || n == nil {
			return "canonical_rejected", fmt.Sprintf("Prepare(%s) accepted, but its canonical form %q fails in ParseAndInstrument: err=%v panic=%s", show(text), o.canonical, err, condx.FirstLine(pm))
		}
		got, gotPanics := truth(n, pool)
		for i, f := range pool {
			if refPanics[i] != "" {
				continue // evaluation panic of the symbolic form itself: a C09 finding, not a spelling issue
			}
			if gotPanics[i] != "" {
				return "canonical_evaluate_panic", fmt.Sprintf("canonical form %q of %s panics on flow %s: %s", o.canonical, show(text), f.KeyString(), gotPanics[i])
			}
			if got[i] != refTruth[i] {
				return "spelling_changes_meaning", fmt.Sprintf("text %s (canonical %q) evaluates to %v on flow %s, the symbolic form %q to %v", show(text), o.canonical, got[i], f.KeyString(), refText, refTruth[i])
			}
		}
		if fs := filterSignature(vf); fs != wantFilter {
			return "direction_filter_differs", fmt.Sprintf("text %s (canonical %q): split-off direction filter %s, symbolic form %q gives %s", show(text), o.canonical, fs, refText, wantFilter)
		}
		// canonicalising again changes nothing
		o2 := prepareN(c, o.canonical, 2, true)
		c.Count("canonical_idempotence_checked", 1)
		switch {
		case o2.panicMsg != "":
			return "prepare_panic", fmt.Sprintf("Prepare(canonical %q) panicked: %s", o.canonical, o2.panicMsg)
		case !o2.accepted:
			return "canonical_not_idempotent", fmt.Sprintf("canonical form %q of %s is rejected when prepared again: %v", o.canonical, show(text), o2.err)
		case o2.canonical != o.canonical || len(o2.others) > 0:
			return "canonical_not_idempotent", fmt.Sprintf("canonical form %q of %s becomes %q when prepared again %s", o.canonical, show(text), append(o2.others, o2.canonical), o2.unstable)
		}
		return "", ""
	}

	class, detail := judge(text, rd.Optional)
	if class == "" {
		o, oerr, _ := condx.Prepare(text)
		if o != nil && oerr == nil {
			c.Count("grammar_accepted", 1)
			st.acc = append(st.acc, acceptedText{text, o.Condition})
		}
		c.Count("grammar_truth_tables", 1)
		nT := 0
		for _, b := range refTruth {
			if b {
				nT++
			}
		}
		if len(rd.Spellings) > 0 && nT > 0 && nT < len(pool) {
			c.Count("grammar_nontrivial", 1)
			c.Nontrivial(text)
		}
		if i == 0 {
			can := ""
			if o != nil {
				can = o.Condition
			}
			c.Sample(map[string]any{"text": text, "canonical": can, "symbolic": refText, "spellings": rd.Spellings, "pool_flows": len(pool), "true_on": nT})
		}
		return
	}
	// shrink: smallest sub-tree (same styling) that still fails in the same class, then revert
	// spellings / whitespace that are not needed for the failure
	savedDir := dir
	bad := func(s *condx.Styled) bool {
		t, r2 := render(s)
		// the reference must follow the sub-tree: recompute lazily through a nested judge
		return judgeSub(c, s, t, r2.Optional, dir) == class
	}
	min := styled
	if class != "symbolic_reference_rejected" {
		// try without the direction filter first
		dir = nil
		if !bad(styled) {
			dir = savedDir
		}
		min = condx.Shrink(styled, bad)
		min = simplify(min, bad)
	}
	mt, mrd := render(min)
	feature := strings.Join(mrd.Spellings, ",")
	if feature == "" {
		feature = "base_symbols"
	}
	// whitespace kinds left in the minimal rendering (they survived normalisation, so they matter)
	for _, w := range []struct{ ch, name string }{{"\t", "tab"}, {"\n", "newline"}, {"\r", "cr"}} {
		if strings.Contains(mt, w.ch) {
			feature += "+" + w.name
		}
	}
	if strings.ContainsAny(mt, "[{") {
		feature += "+altbrackets"
	}

	if dir != nil {
		feature += "+dir"
	}
	if upperAll {
		feature += "+upper"
	}
	st.violate(class+"|"+feature, "%s\nminimal failing rendering: %s", detail, show(mt))
}

// judgeSub is the judgement used while shrinking: it recomputes the symbolic reference for the
// sub-tree and returns the failure class of the sub-tree's rendering.
func judgeSub(c *fw.Case, s *condx.Styled, text string, optional bool, dir *dirSpec) string {
	refText := s.C.String()
	if dir != nil {
		if dir.left {
			refText = "dir = " + dir.val + " & (" + refText + ")"
		} else {
			refText = "(" + refText + ") & dir = " + dir.val
		}
	}
	refNode, refVF, rerr, rpm := condx.Parse(refText)
	if rerr != nil || rpm != "" || refNode == nil {
		return "symbolic_reference_rejected"
	}
	o := prepareN(c, text, 3, true)
	switch {
	case o.panicMsg != "":
		return "prepare_panic"
	case !o.accepted:
		if optional {
			return ""
		}
		return "documented_spelling_rejected"
	}
	n, vf, err, pm := condx.Parse(o.canonical)
	if err != nil || pm != "" || n == nil {
		return "canonical_rejected"
	}
	pool := condx.BuildPool(rand.New(rand.NewSource(1)), []*gen.Cond{s.C}, 30)
	a, ap := truth(refNode, pool)
	b, bp := truth(n, pool)
	for i := range pool {
		if ap[i] != "" {
			continue
		}
		if bp[i] != "" {
			return "canonical_evaluate_panic"
		}
		if a[i] != b[i] {
			return "spelling_changes_meaning"
		}
	}
	if dir != nil && filterSignature(vf) != filterSignature(refVF) {
		return "direction_filter_differs"
	}
	o2 := prepareN(c, o.canonical, 2, true)
	if o2.panicMsg != "" {
		return "prepare_panic"
	}
	if !o2.accepted || o2.canonical != o.canonical || len(o2.others) > 0 {
		return "canonical_not_idempotent"
	}
	return ""
}

// simplify reverts, node by node, spellings to the base symbol and whitespace to single blanks as
// long as the failure persists, so that the signature only names what matters.
func simplify(s *condx.Styled, bad func(*condx.Styled) bool) *condx.Styled {
	var nodes []*condx.Styled
	var walk func(x *condx.Styled)
	walk = func(x *condx.Styled) {
		nodes = append(nodes, x)
		for _, ch := range x.Children() {
			walk(ch)
		}
	}
	walk(s)
	base := func(x *condx.Styled) string {
		switch x.C.Kind {
		case gen.CAnd:
			return "&"
		case gen.COr:
			return "|"
		case gen.CNot:
			return "!"
		}
		return x.C.Op
	}
	normWs := func(x *condx.Styled) {
		x.WsL, x.WsR, x.PadL, x.PadR, x.Force, x.Br, x.UpperVal, x.NotNoLead, x.NotNoTrail = " ", " ", "", "", false, 0, false, false, false
		if x.C.Kind == gen.CNot && !condx.IsWord(x.Op) {
			x.WsL = ""
		}
	}
	// pass 1: whitespace, brackets, case -> plain, one attribute at a time (keeping the spelling)
	for _, x := range nodes {
		plain := *x
		normWs(&plain)
		for _, set := range []func(){
			func() { x.WsL = plain.WsL }, func() { x.WsR = plain.WsR }, func() { x.PadL = plain.PadL }, func() { x.PadR = plain.PadR },
			func() { x.Force = false }, func() { x.Br = 0 }, func() { x.UpperVal = false }, func() { x.NotNoLead = false }, func() { x.NotNoTrail = false },
		} {
			saved := *x
			set()
			if *x != saved && !bad(s) {
				*x = saved
			}
		}
	}
	// pass 2: spelling -> base symbol
	for _, x := range nodes {
		saved := *x
		x.Op = base(x)
		if x.C.Kind == gen.CNot {
			x.WsL = ""
		}
		if !bad(s) {
			*x = saved
		}
	}
	return s
}

func countRendering(c *fw.Case, s *condx.Styled, rd condx.Rendering, text string) {
	if len(rd.Spellings) > 0 {
		c.Count("grammar_word_spellings", len(rd.Spellings))
		for _, sp := range rd.Spellings {
			c.Nontrivial("spelling:" + sp)
		}
	}
	if rd.MinParens {
		c.Count("grammar_precedence_renderings", 1)
	}
	if strings.ContainsAny(text, "\t\n") {
		c.Count("grammar_whitespace_tab_newline", 1)
	}
	if strings.ContainsAny(text, "[{") {
		c.Count("grammar_alt_brackets", 1)
	}
	var walk func(x *condx.Styled)
	walk = func(x *condx.Styled) {
		switch x.C.Kind {
		case gen.CAnd, gen.COr:
			if condx.IsWord(x.Op) && x.R.C.Kind == gen.CNot && condx.IsWord(x.R.Op) && !x.R.Force {
				c.Count("grammar_word_and_then_not", 1)
			}
			if !condx.IsWord(x.Op) && x.WsL == "" && x.WsR == "" {
				c.Count("grammar_symbol_no_whitespace", 1)
			}
		case gen.CCmp:
			if x.UpperVal && x.C.Proto != "" {
				c.Count("grammar_upper_proto", 1)
			}
			if !condx.IsWord(x.Op) && x.WsL == "" && x.WsR == "" {
				c.Count("grammar_symbol_no_whitespace", 1)
			}
		}
		for _, ch := range x.Children() {
			walk(ch)
		}
	}
	walk(s)
}

// ---------------------------------------------------------------------------------------------
// (b) fuzz

var (
	fzAttrs  = []string{"sip", "dip", "snet", "dnet", "dport", "proto", "dir", "direction", "src", "dst", "host", "net", "port", "protocol", "ipproto", "foo", "sipp", ""}
	fzValues = []string{
		"10.0.0.1", "10.0.0.2", "2001:db8::1", "fe80::1", "10.0.0.0/8", "10.128.0.0/9", "2001:db8::/32", "2001:db8::/33", "80", "443", "0", "65535", "tcp", "udp", "6", "255", "in", "out", "uni", "bi", "inbound",
		// hostile / malformed
		"", "1.2.3", "1.2.3.4.5", "300.1.1.1", "01.2.3.4", "::ffff:10.0.0.1", "::10.0.0.1", "64:ff9b::10.0.0.1", "::ffff:10.0.0.1/100", "::ffff:10.0.0.1/24", "::10.0.0.1/8",
		"10.0.0.1/-1", "10.0.0.1/-8", "10.0.0.1/-9", "10.0.0.1/-33", "2001:db8::1/-1", "2001:db8::1/-129", "10.0.0.1/33", "::1/129", "10.0.0.1/", "/8", "10.0.0.1/8/8", "10.0.0.1//8",
		"10.0.0.1/08", "10.0.0.1/0x8", "10.0.0.1/99999999999999999999", "10.0.0.1/2147483647", "10.0.0.1/4294967304", "10.0.0.1/ 8", "0.0.0.0/0", "::/0", "::/128", "::", ":::", "1:2:3:4:5:6:7:8:9",
		"fe80::1%eth0", "2001:DB8::1", "-1", "-0", "65536", "256", "0x50", "1e3", "080", "99999999999999999999", "8 0", "tcp6", "TCP", "ipv6-icmp", "tp++", "a/n", "unknown", "sideways",
		"localhost", "a", "-", ".", "/", "\x00", "é", "80;", "'80'", "\"80\"", "%s", "10.0.0.1,10.0.0.2",
	}
	fzCmps  []string
	fzLogic = []string{"&", "|", "!", "and", "or", "not", "&&", "||", "*", "+", "AND", "Or", "nOt", "&&&", "|||", "!!", "xor", "~"}
	fzBrack = []string{"(", ")", "[", "]", "{", "}", "((", "))", "()", "[)", "<", ">"}
	fzSeps  = []string{"", " ", " ", " ", "\t", "\n", "  ", "\r", "\f", "\v", " "}
	fzChars = "()!&|=<> \t\n*+-/.:[]{}\x00\xc3\xa9abc019,%"
)

func init() {
	for _, l := range condx.CmpSpellings {
		fzCmps = append(fzCmps, l...)
	}
	// deterministic order (map iteration above is random)
	sortStrings(fzCmps)
	fzCmps = append(fzCmps, "=>", "=<", "<>", "!", "!==", "=!", "<<", "~=", "is", "EQ", "")
}

func sortStrings(s []string) {
	for i := 1; i < len(s); i++ {
		for j := i; j > 0 && s[j] < s[j-1]; j-- {
			s[j], s[j-1] = s[j-1], s[j]
		}
	}
}

func pickS(r *rand.Rand, xs []string) string { return xs[r.Intn(len(xs))] }

// clause draws an "attribute comparator value" triple without regard to types.
func clause(r *rand.Rand) string {
	cmp := pickS(r, fzCmps)
	if condx.IsWord(cmp) || strings.HasPrefix(cmp, "-") {
		if r.Intn(8) != 0 {
			cmp = " " + cmp + " "
		}
	} else if r.Intn(2) == 0 {
		cmp = " " + cmp + " "
	}
	return pickS(r, fzAttrs) + cmp + pickS(r, fzValues)
}

func logic(r *rand.Rand) string {
	op := pickS(r, fzLogic)
	if r.Intn(6) != 0 {
		return " " + op + " "
	}
	return op
}

func confused(r *rand.Rand, depth int) string {
	if depth <= 0 || r.Intn(3) == 0 {
		return clause(r)
	}
	switch r.Intn(6) {
	case 0:
		return pickS(r, []string{"!", "! ", "not ", "not", "!!"}) + confused(r, depth-1)
	case 1:
		b := r.Intn(3)
		return condx.Brackets[b][0] + confused(r, depth-1) + condx.Brackets[b][1]
	case 2:
		return condx.Brackets[r.Intn(3)][0] + confused(r, depth-1) + condx.Brackets[r.Intn(3)][1]
	default:
		return confused(r, depth-1) + logic(r) + confused(r, depth-1)
	}
}

func mutate(r *rand.Rand, s string) string {
	b := []byte(s)
	for k := 1 + r.Intn(3); k > 0; k-- {
		if len(b) == 0 {
			b = append(b, fzChars[r.Intn(len(fzChars))])
			continue
		}
		i := r.Intn(len(b))
		switch r.Intn(6) {
		case 0:
			b = append(b[:i], b[i+1:]...)
		case 1:
			b = append(b[:i], append([]byte{fzChars[r.Intn(len(fzChars))]}, b[i:]...)...)
		case 2:
			b = append(b[:i], append([]byte{b[i]}, b[i:]...)...)
		case 3:
			if i+1 < len(b) {
				b[i], b[i+1] = b[i+1], b[i]
			}
		case 4:
			b = b[:i]
		default:
			b[i] = fzChars[r.Intn(len(fzChars))]
		}
	}
	return string(b)
}

func nested(r *rand.Rand, depth int) string {
	open := pickS(r, []string{"(", "(", "!(", "not(", "[", "{", "! (", "( ", "not ("})
	closeB := ")"
	inner := pickS(r, []string{"dport = 80", "sip = 10.0.0.1", "", "dport", "dir = in"})
	s := strings.Repeat(open, depth) + inner
	switch r.Intn(4) {
	case 0:
		return s // unbalanced
	case 1:
		return s + strings.Repeat(closeB, depth-1)
	default:
		return s + strings.Repeat(closeB, depth)
	}
}

func chain(r *rand.Rand, n int) string {
	op := pickS(r, []string{" | ", " & ", "|", " or ", " and ", "+", " and not "})
	var sb strings.Builder
	for i := 0; i < n; i++ {
		if i > 0 {
			sb.WriteString(op)
		}
		fmt.Fprintf(&sb, "dport = %d", i%65536)
	}
	return sb.String()
}

func fuzz(c *fw.Case, st *state, r *rand.Rand, n int) {
	// a pool shared by all accepted inputs of the case: alphabet sample + neighbours of the value
	// alphabet's well-formed literals
	var lits []*gen.Cond
	for _, a := range append(append([]string{}, "10.0.0.1", "10.0.0.2", "2001:db8::1", "fe80::1", "0.0.0.0", "::"), "10.128.0.0") {
		lits = append(lits, &gen.Cond{Kind: gen.CCmp, Attr: "sip", Op: "=", Addr: mustAddr(a)})
	}
	for _, p := range []int{0, 80, 443, 65535, 255, 6} {
		lits = append(lits, &gen.Cond{Kind: gen.CCmp, Attr: "dport", Op: "=", Num: p}, &gen.Cond{Kind: gen.CCmp, Attr: "proto", Op: "=", Num: p % 256})
	}
	pool := condx.BuildPool(r, lits, 60)

	for i := 0; i < n; i++ {
		var s, kind string
		switch k := r.Intn(40); {
		case k < 6:
			kind = "random_bytes"
			b := make([]byte, r.Intn(40))
			r.Read(b)
			if r.Intn(2) == 0 {
				for j := range b {
					b[j] = fzChars[int(b[j])%len(fzChars)]
				}
			}
			s = string(b)
		case k < 14:
			kind = "token_soup"
			var sb strings.Builder
			for t := 1 + r.Intn(12); t > 0; t-- {
				switch r.Intn(5) {
				case 0:
					sb.WriteString(pickS(r, fzAttrs))
				case 1:
					sb.WriteString(pickS(r, fzCmps))
				case 2:
					sb.WriteString(pickS(r, fzValues))
				case 3:
					sb.WriteString(pickS(r, fzLogic))
				default:
					sb.WriteString(pickS(r, fzBrack))
				}
				sb.WriteString(pickS(r, fzSeps))
			}
			s = sb.String()
		case k < 27:
			kind = "type_confused"
			s = confused(r, r.Intn(4))
		case k < 38:
			kind = "mutated_valid"
			cond := gen.RandCond(r, gen.CondOpts{MaxDepth: 1 + r.Intn(3), Sugar: true})
			condx.FixProtoNames(cond)
			s = condx.RandStyle(r, cond, condx.StyleOpts{WordProb: 0.5, OptionalProb: 0.2, Whitespace: true, ForceProb: 0.3, AltBrackets: true, UpperProto: true}).Render().Text
			if r.Intn(8) != 0 {
				s = mutate(r, s)
			}
		case k < 39:
			kind = "deep_nesting"
			s = nested(r, []int{50, 255, 511, 512, 513, 600, 2000, 5000}[r.Intn(8)])
			c.Count("fuzz_deep_nesting", 1)
		default:
			kind = "long_chain"
			s = chain(r, []int{100, 511, 512, 513, 1500}[r.Intn(5)])
			c.Count("fuzz_long_chain", 1)
		}
		fuzzOne(c, st, s, kind, pool, 2)
	}
	// extreme nesting (first case of a run only): the parser is recursive, and a Go stack overflow is a
	// fatal error that no recover() can catch. With the default 1 GB stack limit the unchanged tree
	// dies at about 1.6 million nested parentheses (a 3 MB condition, verified by hand, ~70 s); to keep
	// the check fast the limit of this child process is lowered to 16 MB while these inputs run, which
	// moves the overflow to ~25 000 levels. A parser that bounds its nesting depth rejects them at once.
	if c.Idx == 0 {
		old := debug.SetMaxStack(16 << 20)
		for _, open := range []string{"(", "!("} {
			depth := 100_000
			s := strings.Repeat(open, depth) + "dport = 80" + strings.Repeat(")", depth)
			c.Count("fuzz_extreme_nesting", 1)
			fuzzOne(c, st, s, "extreme_nesting", pool, 1)
		}
		debug.SetMaxStack(old)
	}
}

func mustAddr(s string) netip.Addr { return netip.MustParseAddr(s) }

func fuzzOne(c *fw.Case, st *state, s, kind string, pool []gen.Flow, reps int) {
	c.Count("fuzz_inputs", 1)
	c.Count("fuzz_kind_"+kind, 1)
	c.Nontrivial("fuzz:" + s)
	c.Note("Prepare(%s) [%s]", show(s), kind)
	o := prepareN(c, s, reps, false)
	if o.panicMsg != "" {
		st.violate("prepare_panic|"+condx.PanicFrame(o.panicMsg), "Prepare(%s) panicked: %s", show(s), o.panicMsg)
		return
	}
	if o.unstable != "" {
		// not a violation: the property allows either outcome for arbitrary text
		c.Count("fuzz_outcome_depends_on_rewrite_order", 1)
	}
	if !o.accepted {
		c.Count("fuzz_rejected", 1)
		if o.err == nil {
			st.violate("rejected_without_error", "Prepare(%s) returned neither a usable statement nor an error", show(s))
		}
		return
	}
	c.Count("fuzz_accepted", 1)
	c.Count("fuzz_accepted_"+kind, 1)
	// what Prepare validated is the sanitized text; what the engine will run is the canonical string
	san := conditions.SanitizeUserInput(s)
	n1, vf1, err1, pm1 := condx.Parse(san)
	n2, vf2, err2, pm2 := condx.Parse(o.canonical)
	if pm2 != "" || err2 != nil {
		st.violate("canonical_rejected|"+kind, "Prepare(%s) accepted, but its canonical form %s fails in ParseAndInstrument: err=%v panic=%s", show(s), show(o.canonical), err2, condx.FirstLine(pm2))
		return
	}
	// canonicalising again changes nothing
	o2 := prepareN(c, o.canonical, 2, true)
	c.Count("canonical_idempotence_checked", 1)
	switch {
	case o2.panicMsg != "":
		st.violate("prepare_panic|"+condx.PanicFrame(o2.panicMsg), "Prepare(canonical %s) panicked: %s", show(o.canonical), o2.panicMsg)
	case !o2.accepted:
		st.violate("canonical_not_idempotent|"+kind, "canonical form %s of accepted input %s is rejected when prepared again: %v", show(o.canonical), show(s), o2.err)
	case o2.canonical != o.canonical || len(o2.others) > 0:
		st.violate("canonical_not_idempotent|"+kind, "canonical form %s of accepted input %s becomes %s when prepared again %s", show(o.canonical), show(s), show(o2.canonical), o2.unstable)
	}
	if pm1 != "" || err1 != nil {
		// sanitising is not deterministic in the order of its rewrites; prepareN already compared outcomes
		c.Count("fuzz_sanitized_reparse_failed", 1)
		return
	}
	if (n1 == nil) != (n2 == nil) {
		st.violate("canonical_changes_meaning|"+kind, "accepted input %s: validated text has condition=%v, canonical form %s has condition=%v", show(s), n1 != nil, show(o.canonical), n2 != nil)
		return
	}
	if filterSignature(vf1) != filterSignature(vf2) {
		st.violate("direction_filter_differs|"+kind, "accepted input %s: direction filter of the validated text %s, of the canonical form %s: %s", show(s), filterSignature(vf1), show(o.canonical), filterSignature(vf2))
	}
	if n1 == nil {
		return
	}
	a, ap := truth(n1, pool)
	b, bp := truth(n2, pool)
	c.Count("fuzz_truth_tables", 1)
	for i, f := range pool {
		if ap[i] != "" || bp[i] != "" {
			pm := ap[i] + bp[i]
			st.violate("accepted_condition_panics_on_evaluate|"+condx.PanicFrame(pm), "input %s was accepted by Prepare (canonical %s) but evaluating it on flow %s panics: %s", show(s), show(o.canonical), f.KeyString(), pm)
			return
		}
		if a[i] != b[i] {
			st.violate("canonical_changes_meaning|"+kind, "accepted input %s evaluates to %v on flow %s, its canonical form %s to %v", show(s), a[i], f.KeyString(), show(o.canonical), b[i])
			return
		}
	}
}
