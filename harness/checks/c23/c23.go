// Package c23: the local packet buffer is a bounded FIFO that preserves every field.
//
// The real capture.LocalBuffer is driven through its exported API exactly as capture.go does
// (pool.Get -> Assign -> Add*/Next* -> Reset -> pool.Put) and compared with a shadow FIFO.
package c23

import (
	"fmt"
	"math/rand"
	"os"
	"reflect"
	"unsafe"

	"github.com/els0r/goProbe/v4/pkg/capture"
	"github.com/els0r/goProbe/v4/pkg/capture/capturetypes"

	"verifharness/fw"
)

func init() {
	fw.Register(&fw.Check{
		ID:    "C23",
		Level: "exploration",
		Rule: "case = many seeded sequences; a sequence = size limit (boundary set around 1, record sizes, the initial page, page multiples +-1..+44, 64 KiB, 1 MiB, or random) + 1..3 pause cycles on one pool; " +
			"a cycle = Assign(pool.Get) + inserts of IPv4 (13-byte key) / IPv6 (37-byte key) items with zero / all-ones / random fields (packet type 0..255, aux 0..255, errno -128..127, size 0..2^32-1) interleaved with partial drains, " +
			"occasional Reset, fill-to-refusal, final full drain, Reset and pool.Put. Oracle = shadow FIFO. A sequence is non-trivial iff at least two items of different IP versions were drained and compared; " +
			"distinct by (limit class, versions mix, whether the buffer grew, whether an insert was refused).",
		Assumptions: []string{
			"callers pass a 13-byte key with isIPv4=true and a 37-byte key with isIPv4=false",
			"a refusal is accepted as 'limit reached' when fewer than two records of the refused item's size (key+8 bytes) fit between the bytes stored so far and max(limit, initial page)",
			"bounded = the write position reported by Usage() never exceeds max(limit, initial page size)",
			"single goroutine (the buffer is goroutine-local in capture.go)",
		},
		NumCases: func(tier, variant string) int {
			if tier == "thorough" {
				if variant != "default" {
					return 64
				}
				return 640
			}
			return 64
		},
		Variants: func(tier string) []string {
			if tier == "thorough" {
				return []string{"default", "checkptr"}
			}
			return []string{"default"}
		},
		Run: run,
		Require: []string{"items_compared_v4", "items_compared_v6", "refusals_observed", "refusals_then_drained", "growths_observed", "partial_drains", "resets_mid_cycle",
			"size_msb_items", "negative_errno_items", "sequences_limit_above_page_boundary", "pool_reuse_cycles"},
		Env: func(tier, variant string) []string { return []string{"GOMAXPROCS=4"} },
	})
}

type item struct {
	key   []byte
	v4    bool
	typ   byte
	aux   byte
	errno int8
	size  uint32
}

func (it item) String() string {
	return fmt.Sprintf("{v4=%v key=% x type=%d aux=%d errno=%d size=%d}", it.v4, it.key, it.typ, it.aux, it.errno, it.size)
}

var pageSize = os.Getpagesize()

var limitSet = []int{1, 19, 20, 21, 22, 43, 44, 45, 46, 100, 4000, 4095, 4096, 4097, 4098, 4100, 4101, 4110, 4116, 4117, 4118, 4136, 4140, 4141, 5000, 6000,
	8191, 8192, 8193, 8200, 8212, 8213, 8236, 8237, 12288, 16383, 16384, 16385, 16400, 16428, 20000, 65535, 65536, 65537, 65560, 1 << 20}

func limitClass(l int) string {
	switch {
	case l < pageSize:
		return "below_page"
	case l == pageSize:
		return "page"
	case l&(l-1) == 0:
		return "pow2"
	}
	// just above a doubling boundary of the initial page?
	for b := pageSize; b < l; b *= 2 {
		if l > b && l <= b+45 {
			return "just_above_doubling"
		}
	}
	return "other"
}

func genItem(r *rand.Rand, v6Prob float64) item {
	var it item
	it.v4 = r.Float64() >= v6Prob
	n := capturetypes.EPHashSizeV4
	if !it.v4 {
		n = capturetypes.EPHashSizeV6
	}
	it.key = make([]byte, n)
	switch r.Intn(5) {
	case 0: // all zero
	case 1:
		for i := range it.key {
			it.key[i] = 0xff
		}
	default:
		r.Read(it.key)
	}
	switch r.Intn(6) {
	case 0:
		it.typ, it.aux, it.errno, it.size = 0, 0, 0, 0
	case 1:
		it.typ, it.aux, it.errno, it.size = 0xff, 0xff, -1, 0xffffffff
	case 2:
		it.typ, it.aux, it.errno, it.size = byte(r.Intn(256)), byte(r.Intn(256)), int8(r.Intn(256)-128), []uint32{1 << 24, 1<<24 - 1, 1 << 31, 0xff000000, 0x01000000, 0x80000040, 65535, 65536}[r.Intn(8)]
	default:
		it.typ, it.aux, it.errno = byte(r.Intn(256)), byte(r.Intn(256)), int8(r.Intn(256)-128)
		switch r.Intn(3) {
		case 0:
			it.size = uint32(40 + r.Intn(1460))
		case 1:
			it.size = uint32(r.Intn(65536))
		default:
			it.size = r.Uint32()
		}
	}
	return it
}

// bufData fetches the unexported data slice of the buffer (what capture.go hands back to the pool with
// capLock.Release(buf.data)).
func bufData(b *capture.LocalBuffer) (data []byte, ok bool) {
	defer func() {
		if recover() != nil {
			ok = false
		}
	}()
	f := reflect.ValueOf(b).Elem().FieldByName("data")
	if !f.IsValid() || f.Kind() != reflect.Slice {
		return nil, false
	}
	p := (*[]byte)(unsafe.Pointer(f.UnsafeAddr()))
	return *p, true
}

type seqState struct {
	c        *fw.Case
	limit    int
	buf      *capture.LocalBuffer
	shadow   []item
	read     int
	stored   int // bytes the shadow accounts for since the last Reset: sum(len(key)+8)
	keyBytes int
	first    []histEntry
	last     [6]histEntry
	nhist    int
	grew     bool
	refused  bool
	sawV4    bool
	sawV6    bool
	cmpV4    int
	cmpV6    int
}

// hist records an operation lazily (formatted only when a witness or sample is written).
type histEntry struct {
	format string
	args   []any
}

func (h histEntry) String() string { return fmt.Sprintf(h.format, h.args...) }

func (s *seqState) hist(format string, a ...any) {
	e := histEntry{format, a}
	if len(s.first) < 12 {
		s.first = append(s.first, e)
	}
	s.last[s.nhist%len(s.last)] = e
	s.nhist++
}

func (s *seqState) tail() string {
	out := fmt.Sprintf("limit=%d; last ops: ", s.limit)
	n := len(s.last)
	if s.nhist < n {
		n = s.nhist
	}
	for i := s.nhist - n; i < s.nhist; i++ {
		out += s.last[i%len(s.last)].String() + "; "
	}
	return out
}

func (s *seqState) capEff() int {
	if s.limit > pageSize {
		return s.limit
	}
	return pageSize
}

// add inserts an item; returns false if a violation/panic ended the sequence.
func (s *seqState) add(it item) (accepted bool, alive bool) {
	c := s.c
	usageBefore := s.buf.Usage()
	var ok bool
	var pan any
	func() {
		defer func() { pan = recover() }()
		ok = s.buf.Add(it.key, it.typ, it.size, it.v4, it.aux, capturetypes.ParsingErrno(it.errno))
	}()
	fam := "v6"
	if it.v4 {
		fam = "v4"
	}
	if pan != nil {
		s.hist("Add%s -> PANIC", it)
		c.Violatef("panic_add|limit_"+limitClass(s.limit), "LocalBuffer.Add panicked: %v; %s", pan, s.tail())
		return false, false
	}
	usageAfter := s.buf.Usage()
	if ok {
		s.hist("Add%s -> ok", it)
		s.shadow = append(s.shadow, it)
		s.stored += len(it.key) + 8
		s.keyBytes += len(it.key)
		if usageAfter <= usageBefore {
			c.Violatef("usage_not_increasing|"+fam, "Usage() %v -> %v after an accepted insert; %s", usageBefore, usageAfter, s.tail())
		}
		if pos := usageAfter * float64(s.limit); pos > float64(s.capEff())+0.5 || s.keyBytes > s.capEff() {
			c.Violatef("unbounded|limit_"+limitClass(s.limit), "buffer holds more than its limit: write position %.0f, key bytes %d, limit %d (initial page %d); %s", pos, s.keyBytes, s.limit, pageSize, s.tail())
			return true, false
		}
		if usageAfter*float64(s.limit) > float64(pageSize) {
			if !s.grew {
				c.Count("growths_observed", 1)
			}
			s.grew = true
		}
		return true, true
	}
	s.hist("Add%s -> refused (stored %d)", it, s.stored)
	c.Count("refusals_observed", 1)
	s.refused = true
	need := len(it.key) + 8
	if s.stored+2*need <= s.capEff() {
		c.Violatef("refused_with_room|limit_"+limitClass(s.limit)+"|"+fam, "insert refused although only %d bytes (key+8 per item) are stored and the limit is %d (effective %d): room for %d more such items; %s",
			s.stored, s.limit, s.capEff(), (s.capEff()-s.stored)/need, s.tail())
	}
	if usageAfter != usageBefore {
		c.Violatef("refusal_changed_buffer|usage", "Usage() changed from %v to %v by a refused insert; %s", usageBefore, usageAfter, s.tail())
	}
	return false, true
}

// next drains one item and compares it with the shadow.
func (s *seqState) next() (more bool, alive bool) {
	c := s.c
	var (
		key   []byte
		typ   byte
		size  uint32
		v4    bool
		aux   byte
		errno capturetypes.ParsingErrno
		ok    bool
		pan   any
	)
	func() {
		defer func() { pan = recover() }()
		key, typ, size, v4, aux, errno, ok = s.buf.Next()
	}()
	if pan != nil {
		c.Violatef("panic_next|limit_"+limitClass(s.limit), "LocalBuffer.Next panicked: %v; %s", pan, s.tail())
		return false, false
	}
	if s.read >= len(s.shadow) {
		if ok {
			c.Violatef("extra_item", "Next returned an item {v4=%v key=% x type=%d aux=%d errno=%d size=%d} although all %d inserted items were already drained; %s", v4, key, typ, aux, errno, size, len(s.shadow), s.tail())
			return false, false
		}
		s.hist("Next -> empty")
		return false, true
	}
	want := s.shadow[s.read]
	if !ok {
		c.Violatef("missing_item", "Next reported an empty buffer, %d inserted items are still undrained (next expected %s); %s", len(s.shadow)-s.read, want, s.tail())
		return false, false
	}
	s.read++
	s.hist("Next -> #%d", s.read-1)
	got := item{key: append([]byte(nil), key...), v4: v4, typ: typ, aux: aux, errno: int8(errno), size: size}
	var bad []string
	if got.v4 != want.v4 {
		bad = append(bad, "ipversion")
	}
	if string(got.key) != string(want.key) {
		bad = append(bad, "key")
	}
	if got.typ != want.typ {
		bad = append(bad, "type")
	}
	if got.aux != want.aux {
		bad = append(bad, "aux")
	}
	if got.errno != want.errno {
		bad = append(bad, "errno")
	}
	if got.size != want.size {
		bad = append(bad, "size")
	}
	if want.v4 {
		s.cmpV4++
		c.Count("items_compared_v4", 1)
	} else {
		s.cmpV6++
		c.Count("items_compared_v6", 1)
	}
	if want.size >= 1<<24 {
		c.Count("size_msb_items", 1)
	}
	if want.errno < -1 {
		c.Count("negative_errno_items", 1)
	}
	if len(bad) > 0 {
		nextFam := "last"
		if s.read < len(s.shadow) {
			nextFam = "before_v6"
			if s.shadow[s.read].v4 {
				nextFam = "before_v4"
			}
		}
		sig := "field_mismatch|multiple"
		if len(bad) == 1 {
			sig = "field_mismatch|" + bad[0]
		}
		if len(bad) > 1 || bad[0] != "size" {
			nextFam = "any"
		}
		c.Violatef(sig+"|"+nextFam, "item #%d drained as %s, inserted as %s (differing: %v; refusal seen before: %v); %s", s.read-1, got, want, bad, s.refused, s.tail())
		return true, false
	}
	return true, true
}

func (s *seqState) reset() {
	s.buf.Reset()
	s.shadow, s.read, s.stored, s.keyBytes = nil, 0, 0, 0
	s.hist("Reset")
	if u := s.buf.Usage(); u != 0 {
		s.c.Violatef("usage_after_reset", "Usage() = %v after Reset; %s", u, s.tail())
	}
}

func runSequence(c *fw.Case, r *rand.Rand, limit int, sample bool) {
	pool := capture.NewLocalBufferPool(1, limit)
	buf := capture.NewLocalBuffer(pool)
	s := &seqState{c: c, limit: limit, buf: buf}
	if limitClass(limit) == "just_above_doubling" {
		c.Count("sequences_limit_above_page_boundary", 1)
	}
	cycles := 1 + r.Intn(3)
	v6Prob := []float64{0, 1, 0.5, 0.5, 0.2, 0.8}[r.Intn(6)]
	for cy := 0; cy < cycles; cy++ {
		c.Note("limit=%d cycle=%d v6prob=%.1f", limit, cy, v6Prob)
		var pan any
		func() {
			defer func() { pan = recover() }()
			buf.Assign(pool.Get(pageSize))
		}()
		if pan != nil {
			c.Violatef("panic_assign", "Assign(pool.Get(%d)) panicked: %v; %s", pageSize, pan, s.tail())
			return
		}
		s.hist("Assign(cycle %d)", cy)
		if cy > 0 {
			c.Count("pool_reuse_cycles", 1)
		}
		if u := buf.Usage(); u != 0 {
			c.Violatef("usage_after_assign", "Usage() = %v on a freshly assigned buffer; %s", u, s.tail())
		}
		// how much to insert: sometimes few items, mostly until refusal
		fill := r.Intn(4) != 0
		maxAdds := 5 + r.Intn(60)
		if fill {
			maxAdds = s.capEff()/20 + 50
			if maxAdds > 60000 {
				// 1 MiB limits: fill completely only sometimes
				if r.Intn(3) != 0 {
					maxAdds = 3000 + r.Intn(3000)
				}
			}
		}
		refusals := 0
		for i := 0; i < maxAdds; i++ {
			ok, alive := s.add(genItem(r, v6Prob))
			if !alive {
				return
			}
			if !ok {
				refusals++
				// a refused insert must leave the buffer unchanged: try again with another item, then drain
				if refusals >= 1+r.Intn(3) {
					break
				}
				continue
			}
			switch x := r.Intn(400); {
			case x == 0 && len(s.shadow) > 3:
				// Reset in the middle of a cycle
				c.Count("resets_mid_cycle", 1)
				s.reset()
			case x < 12:
				// partial drain
				n := 1 + r.Intn(5)
				c.Count("partial_drains", 1)
				for j := 0; j < n; j++ {
					more, alive := s.next()
					if !alive {
						return
					}
					if !more {
						break
					}
				}
			}
		}
		// final drain
		drained := 0
		for {
			more, alive := s.next()
			if !alive {
				return
			}
			if !more {
				break
			}
			drained++
		}
		if refusals > 0 && drained > 0 {
			c.Count("refusals_then_drained", 1)
		}
		// a drained buffer stays empty
		if _, alive := s.next(); !alive {
			return
		}
		c.Count("cycles", 1)
		// end of the pause: Reset and hand the memory back to the pool (capture.go:bufferPackets)
		s.reset()
		data, ok := bufData(buf)
		if !ok || len(data) == 0 {
			c.Count("pool_put_unavailable", 1)
			break
		}
		func() {
			defer func() { pan = recover() }()
			pool.Put(data)
		}()
		if pan != nil {
			c.Violatef("panic_pool_put", "returning the buffer memory to its pool panicked: %v; %s", pan, s.tail())
			return
		}
	}
	c.Count("sequences", 1)
	if s.cmpV4 > 0 && s.cmpV6 > 0 {
		c.Nontrivial(fmt.Sprintf("%s|mixed|grew=%v|refused=%v", limitClass(limit), s.grew, s.refused))
	} else if s.cmpV4+s.cmpV6 > 1 {
		c.Count("sequences_single_family", 1)
	}
	if sample {
		var h []string
		for _, e := range s.first {
			h = append(h, e.String())
		}
		c.Sample(map[string]any{"limit": limit, "cycles": cycles, "first_ops": h, "items_compared": s.cmpV4 + s.cmpV6, "grew": s.grew, "refused": s.refused})
	}
}

func run(c *fw.Case) {
	r := c.Rng
	// every case walks the whole boundary set once (rotated) and adds random limits
	nRandom := 12
	for i, l := range limitSet {
		if l >= 1<<20 && (c.Idx+i)%8 != 0 {
			continue // the 1 MiB limit is expensive; every 8th case does it
		}
		runSequence(c, r, l, i == 12 && c.Idx == 0)
		if c.Failed() && len(limitSet) > 0 && i > 20 {
			// keep the first witnesses small
		}
	}
	for i := 0; i < nRandom; i++ {
		var l int
		switch r.Intn(4) {
		case 0:
			l = 1 + r.Intn(pageSize)
		case 1:
			b := pageSize << r.Intn(4)
			l = b + 1 + r.Intn(45)
		default:
			l = pageSize + r.Intn(60000)
		}
		runSequence(c, r, l, false)
	}
}
