// Package c08: query results equal a direct aggregation of the stored flows.
package c08

import (
	"fmt"
	"math/rand"
	"strings"

	"github.com/els0r/goProbe/v4/pkg/goDB/encoder/encoders"
	"verifharness/eng"
	"verifharness/fw"
	"verifharness/gen"
	"verifharness/ref"
)

func init() {
	fw.Register(&fw.Check{
		ID:    "C08",
		Level: "exploration",
		Rule: "case = one seeded RefDB (1-3 ifaces, 1-3 days, small address/port/proto alphabets, both IP families) written by the production DBWriter + N generated queries " +
			"(attribute subsets and aliases, iface selections, ranges from block timestamps ±{0,1,299,300} and day boundaries, condition ASTs depth<=4 incl. sugar, direction filters, low-mem). " +
			"Oracle = independent aggregation of the RefDB. A (db,query) is non-trivial iff the oracle result is non-empty, the condition mentions an IP attribute and the DB holds both families; distinct by (db summary, query text).",
		Assumptions: []string{"block timestamps >= 1000080000 (10-digit day directories)", "hostname/host-id labels ignored", "condition oracle interpretation of DESIGN §2.3"},
		NumCases: func(tier, variant string) int {
			if tier == "thorough" {
				return 600
			}
			return 48
		},
		Run:     run,
		Require: []string{"queries_nontrivial", "queries_with_dir_filter", "queries_lowmem", "encoder_switches_within_a_day"},
		// the only check that draws IPv6 addresses with 12 trailing zero bytes (see gen/tz6.go)
		Env: func(tier, variant string) []string { return []string{"VERIF_GEN_TZ6=1"} },
	})
}

// Query is a generated query (shared with other checks).
type Query struct {
	Spec   ref.QuerySpec
	Type   string // query type string handed to goProbe
	Ifaces string // iface argument
	Cond   string // condition text
	LowMem bool
}

var aliases = map[string][]string{
	"talk_src": {"sip"}, "talk_dst": {"dip"}, "talk_conv": {"sip", "dip"}, "apps_port": {"dport", "proto"},
	"agg_talk_port": {"sip", "dip", "dport", "proto"},
}

// GenQuery draws a query against db.
func GenQuery(r *rand.Rand, db *gen.RefDB) Query {
	var q Query
	all := []string{"sip", "dip", "dport", "proto"}
	// attributes
	switch r.Intn(10) {
	case 0:
		names := []string{"talk_src", "talk_dst", "talk_conv", "apps_port", "agg_talk_port"}
		n := names[r.Intn(len(names))]
		q.Spec.Attrs = aliases[n]
		q.Type = n
		if r.Intn(3) == 0 {
			q.Spec.Time = true
			q.Type = "time," + q.Type
		}
	case 1:
		q.Spec.Attrs = all
		q.Spec.Time = true
		q.Type = "raw"
	default:
		perm := r.Perm(4)
		n := 1 + r.Intn(4)
		for _, i := range perm[:n] {
			q.Spec.Attrs = append(q.Spec.Attrs, all[i])
		}
		q.Spec.Time = r.Intn(3) == 0
		q.Type = eng.QueryType(q.Spec.Attrs, q.Spec.Time, r.Intn(3) == 0)
	}
	// interfaces
	names := db.IfaceNames()
	if r.Intn(2) == 0 {
		q.Ifaces = "any"
		q.Spec.Ifaces = names
	} else {
		n := 1 + r.Intn(len(names))
		perm := r.Perm(len(names))[:n]
		var sel []string
		for _, i := range perm {
			sel = append(sel, names[i])
		}
		q.Ifaces = strings.Join(sel, ",")
		q.Spec.Ifaces = sel
	}
	// time range
	tss := db.AllTimestamps()
	pickT := func() int64 {
		t := tss[r.Intn(len(tss))]
		switch r.Intn(8) {
		case 0:
			t = gen.DayStart(t)
		case 1:
			t = gen.DayStart(t) - 1
		case 2:
			t = gen.DayStart(t) + 86400
		case 3:
			t = gen.DayStart(t) + 86399
		}
		return t + []int64{0, 0, 0, 1, -1, 299, -299, 300, -300}[r.Intn(9)]
	}
	if r.Intn(4) == 0 {
		q.Spec.First, q.Spec.Last = tss[0]-1000, tss[len(tss)-1]+1000
	} else {
		a, b := pickT(), pickT()
		if a > b {
			a, b = b, a
		}
		q.Spec.First, q.Spec.Last = a, b
	}
	// condition
	if r.Intn(6) != 0 {
		q.Spec.Cond = gen.RandCond(r, gen.CondOpts{MaxDepth: 1 + r.Intn(4), Sugar: true})
		q.Cond = q.Spec.Cond.Render(gen.PlainStyle)
	}
	// direction filter at the positions the grammar allows
	if r.Intn(4) == 0 {
		d := gen.DirFilters[r.Intn(len(gen.DirFilters))]
		q.Spec.Dir = d
		kw := []string{"dir", "direction"}[r.Intn(2)]
		switch {
		case q.Cond == "":
			q.Cond = fmt.Sprintf("%s = %s", kw, d)
		case r.Intn(2) == 0:
			q.Cond = fmt.Sprintf("%s = %s & (%s)", kw, d, q.Cond)
		default:
			q.Cond = fmt.Sprintf("(%s) & %s = %s", q.Cond, kw, d)
		}
	}
	q.LowMem = r.Intn(3) == 0
	return q
}

// Describe renders the query for witnesses.
func (q Query) Describe() string {
	return fmt.Sprintf("query=%q ifaces=%q cond=%q first=%d last=%d lowmem=%v", q.Type, q.Ifaces, q.Cond, q.Spec.First, q.Spec.Last, q.LowMem)
}

// CondClass gives the feature class of the query's condition for signatures.
func CondClass(q Query) string {
	if q.Spec.Cond == nil {
		if q.Spec.Dir != "" {
			return "dir_only"
		}
		return "no_cond"
	}
	var feats []string
	seen := map[string]bool{}
	v4, v6, ne, or, not := false, false, false, false, false
	var walk func(c *gen.Cond)
	walk = func(c *gen.Cond) {
		switch c.Kind {
		case gen.CAnd:
			walk(c.L)
			walk(c.R)
		case gen.COr:
			or = true
			walk(c.L)
			walk(c.R)
		case gen.CNot:
			not = true
			walk(c.L)
		default:
			switch c.Attr {
			case "sip", "dip", "src", "dst", "host":
				if c.Addr.Is4() {
					v4 = true
				} else {
					v6 = true
				}
				seen["ip"] = true
			case "snet", "dnet", "net":
				if c.Net.Addr().Is4() {
					v4 = true
				} else {
					v6 = true
				}
				seen["net"] = true
			default:
				seen["num"] = true
			}
			if c.Op == "!=" {
				ne = true
			}
		}
	}
	walk(q.Spec.Cond)
	for _, k := range []string{"ip", "net", "num"} {
		if seen[k] {
			feats = append(feats, k)
		}
	}
	if v4 {
		feats = append(feats, "v4lit")
	}
	if v6 {
		feats = append(feats, "v6lit")
	}
	if ne {
		feats = append(feats, "ne")
	}
	if or {
		feats = append(feats, "or")
	}
	if not {
		feats = append(feats, "not")
	}
	return strings.Join(feats, ",")
}

// CheckQuery runs q against the real DB at dbPath and compares with the oracle. It returns the
// oracle rows (for non-triviality accounting).
func CheckQuery(c *fw.Case, dbPath string, db *gen.RefDB, q Query, live map[string][]gen.Flow) ref.Rows {
	want := ref.QueryExtra(db, q.Spec, live)
	a := eng.Args(q.Type, q.Ifaces, q.Cond, q.Spec.First, q.Spec.Last)
	a.LowMem = q.LowMem
	c.Note("%s", q.Describe())
	res, err, pmsg := eng.Run(dbPath, a)
	if pmsg != "" {
		c.Violatef("panic|"+CondClass(q), "%s: panic: %s", q.Describe(), pmsg)
		return want
	}
	if err != nil {
		c.Violatef("query_error|"+CondClass(q), "%s: error: %v", q.Describe(), err)
		return want
	}
	got, dup := ref.FromResult(res.Rows, q.Spec)
	d := ref.Diff(want, got)
	if dup != "" || d != "" {
		// One recorded defect has its own oracle clause (known_findings.txt): an IPv6 address with 12
		// trailing zero bytes is rendered as the IPv4 address of its first 4 bytes. The deviation is
		// attributed to it only if applying exactly that rendering to the expected rows yields exactly
		// the returned rows (a split group only if the rendering makes two expected groups collide);
		// everything else keeps its own signature.
		if tz, changed := ref.RenderTrailingZeroV6AsV4(want); changed && ref.Diff(tz, got) == "" && (dup == "" || len(tz) < len(want)) {
			c.Violatef("render|v6_trailing_zero_bytes_as_v4", "%s: IPv6 address with 12 trailing zero bytes returned as IPv4: %s %s", q.Describe(), d, dup)
			c.Count("known_render_defect_observed", 1)
			want, d, dup = tz, "", ""
		}
	}
	if dup != "" {
		c.Violatef("group_split|"+CondClass(q), "%s: two result rows share the group key %s", q.Describe(), dup)
	}
	if d != "" {
		c.Violatef("rows|"+ref.DiffClass(want, got)+"|"+CondClass(q), "%s: %s", q.Describe(), d)
		return want
	}
	t := got.Totals()
	st := res.Summary.Totals
	if (ref.Ctr{BR: st.BytesRcvd, BS: st.BytesSent, PR: st.PacketsRcvd, PS: st.PacketsSent}) != t {
		c.Violatef("totals", "%s: totals %+v != sum of rows %+v", q.Describe(), st, t)
	}
	if res.Summary.Hits.Total != len(res.Rows) {
		c.Violatef("hits", "%s: hits.total %d != rows %d", q.Describe(), res.Summary.Hits.Total, len(res.Rows))
	}
	return want
}

// DBOptsFor returns DB generation options for a case.
func DBOptsFor(r *rand.Rand) gen.DBOpts {
	return gen.DBOpts{Flow: gen.FlowOpts{V6Prob: 0.45, ZeroProb: 0.03, BigCounters: true}, OffGrid: r.Intn(2) == 0}
}

func run(c *fw.Case) {
	r := c.Rng
	db := gen.RandRefDB(r, DBOptsFor(r))
	dbPath := c.Tmp + "/db"
	enc := []encoders.Type{encoders.EncoderTypeLZ4, encoders.EncoderTypeLZ4, encoders.EncoderTypeZSTD, encoders.EncoderTypeNull}[r.Intn(4)]
	if c.Idx%4 == 3 {
		// every 4th database changes its compression setting between write-outs
		sw, err := db.WriteMixed(dbPath, r)
		if err != nil {
			c.Violatef("write_error", "writing generated DB (mixed encoders) failed: %v", err)
			return
		}
		c.Count("dbs_mixed_encoders", 1)
		c.Count("encoder_switches_within_a_day", sw)
	} else if err := db.Write(dbPath, enc, 0); err != nil {
		c.Violatef("write_error", "writing generated DB failed: %v", err)
		return
	}
	nq := 60
	if c.Tier == "thorough" {
		nq = 200
	}
	both := db.HasBothFamilies()
	for i := 0; i < nq; i++ {
		q := GenQuery(r, db)
		want := CheckQuery(c, dbPath, db, q, nil)
		c.Count("queries", 1)
		if q.Spec.Dir != "" {
			c.Count("queries_with_dir_filter", 1)
		}
		if q.LowMem {
			c.Count("queries_lowmem", 1)
		}
		if len(want) > 0 {
			c.Count("queries_nonempty", 1)
		}
		if len(want) > 0 && both && q.Spec.Cond != nil && q.Spec.Cond.MentionsIP() {
			c.Count("queries_nontrivial", 1)
			c.Nontrivial(db.Summary() + q.Describe())
		}
		if i == 0 {
			c.Sample(map[string]any{"db": db.Summary(), "encoder": enc.String(), "query": q.Describe(), "oracle_rows": len(want)})
		}
	}
}
