// Package c31: the query concurrency limit is never exceeded and never leaks.
package c31
