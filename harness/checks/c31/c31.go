// Package c31: the query concurrency limit is never exceeded and never leaks.
//
// Engine part: a real engine.QueryRunner with WithMaxConcurrent(sem) where the harness owns the
// semaphore channel. Every query of a burst targets its own interface whose bytes_rcvd column file
// is a FIFO: an admitted (low-memory) query parks in open/read of that FIFO until the monitor, which
// detects the reader with a non-blocking O_WRONLY open, feeds the real column bytes. A query that is
// parked and not yet fed is provably inside Run() behind the semaphore, which gives race-free
// invariants:  |parked & !fed| <= L,  len(sem) >= |parked & !fed|,  and at every quiescent state
// (all other queries returned) len(sem) == |parked & !fed|.
// Distributed part: the same protocol for distributed.QueryRunner with a harness Querier that parks
// the query inside Query() until released.
package c31

import (
	"context"
	"errors"
	"fmt"
	"io/fs"
	"math/rand"
	"os"
	"path/filepath"
	"runtime/debug"
	"sort"
	"strings"
	"sync"
	"syscall"
	"time"

	gqd "github.com/els0r/goProbe/v4/cmd/global-query/pkg/distributed"
	"github.com/els0r/goProbe/v4/pkg/distributed/hosts"
	"github.com/els0r/goProbe/v4/pkg/goDB/encoder/encoders"
	"github.com/els0r/goProbe/v4/pkg/goDB/engine"
	"github.com/els0r/goProbe/v4/pkg/query"
	"github.com/els0r/goProbe/v4/pkg/results"
	"github.com/els0r/goProbe/v4/pkg/types"
	"github.com/els0r/goProbe/v4/plugins/resolver/stringresolver"
	"verifharness/eng"
	"verifharness/fw"
	"verifharness/gen"
)

func init() {
	fw.Register(&fw.Check{
		ID:    "C31",
		Level: "exploration",
		Rule: "case = one limit L in {1,2,3,5} and a series of 2-4 bursts on ONE shared runner and semaphore, for the engine runner (FIFO-parked low-memory queries) and the distributed runner (queries parked in a harness Querier), run concurrently. " +
			"A burst has B in [L+1,4L] (sometimes <= L) concurrent queries of kinds: parkable, invalid arguments (fails before admission), failing after admission (unparsable year directory / unknown interface; `any` hosts with a non-enumerating querier / failing resolver), cancelled while parked; " +
			"mode hold (nothing is fed until every query is parked or has returned: forces rejections) or flow (parked queries are fed/cancelled at seeded points while others still wait); acquisition timeout 1 s (default) or a keepalive interval. " +
			"Non-trivial iff the burst has more parkable queries than L; distinct by (runner, L, burst composition, mode).",
		Assumptions: []string{
			"the semaphore is the channel handed to WithMaxConcurrent (as the servers do); the harness reads len() of it",
			"a query parked at its FIFO / inside the harness Querier and not yet fed is executing; executing queries are observed at those points only",
			"no wall-clock verdicts: the monitor polls states; 'a free slot admits a waiting query' is only asserted when no query can hold a slot transiently (pure bursts) and is re-confirmed by a probe query",
			"one shared QueryRunner per burst series as in the API servers; queries of a burst use identical query types (concurrent writes to the runner's per-query fields are outside this property); not run under -race",
		},
		NumCases: func(tier, variant string) int {
			if tier == "thorough" {
				return 500
			}
			return 32
		},
		Run:         run,
		CaseTimeout: 180 * time.Second,
		Require: []string{"bursts_engine", "bursts_distributed", "bursts_nontrivial", "rejected_too_many_requests", "parked_observed", "fed_results_correct",
			"failed_after_admission", "failed_before_admission", "cancelled_while_parked", "bursts_hold", "bursts_flow", "quiescent_checks", "limit_reached"},
	})
}

// ---------------------------------------------------------------------------------------------

type qkind int

const (
	kPark qkind = iota
	kInvalid
	kFailAfterA  // engine: unparsable year directory; distributed: host selector `any` with a Querier that cannot enumerate hosts
	kFailAfterB  // engine: unknown interface; distributed: resolver error
	kCancel      // parkable, cancelled while parked
	kCancelEarly // cancelled right after launch (while waiting for a slot or shortly after admission); may or may not park
)

func (k qkind) String() string {
	return [...]string{"park", "invalid", "fail_after_a", "fail_after_b", "cancel", "cancel_early"}[k]
}

type burstSpec struct {
	Kinds     []qkind
	Hold      bool
	KeepAlive time.Duration // 0 = default acquisition timeout (1 s)
	FeedProb  float64       // flow mode: probability per monitor round to feed a parked query
	Late      []int         // flow mode: per query, number of parked-query observations after which it is launched (0 = at once)
}

func (b burstSpec) parkable() int {
	n := 0
	for _, k := range b.Kinds {
		if k == kPark || k == kCancel {
			n++
		}
	}
	return n
}

func (b burstSpec) pure() bool {
	for _, k := range b.Kinds {
		if k == kFailAfterA || k == kFailAfterB || k == kCancelEarly {
			return false
		}
	}
	return true
}

func (b burstSpec) describe() string {
	cnt := map[string]int{}
	for _, k := range b.Kinds {
		cnt[k.String()]++
	}
	var ks []string
	for k, n := range cnt {
		ks = append(ks, fmt.Sprintf("%s=%d", k, n))
	}
	sort.Strings(ks)
	mode := "flow"
	if b.Hold {
		mode = "hold"
	}
	for _, l := range b.Late {
		if l > 0 {
			mode = "flow+late_arrivals"
			break
		}
	}
	return fmt.Sprintf("B=%d{%s} mode=%s keepalive=%s", len(b.Kinds), strings.Join(ks, " "), mode, b.KeepAlive)
}

func genBurst(r *rand.Rand, L int, first bool) burstSpec {
	var b burstSpec
	B := L + 1 + r.Intn(3*L)
	if r.Intn(6) == 0 {
		B = 1 + r.Intn(L)
	}
	mixed := r.Intn(2) == 0
	for i := 0; i < B; i++ {
		k := kPark
		if mixed {
			switch x := r.Intn(10); {
			case x < 5:
				k = kPark
			case x < 6:
				k = kInvalid
			case x < 7:
				k = kFailAfterA
			case x < 8:
				k = kFailAfterB
			case x < 9:
				k = kCancelEarly
			default:
				k = kCancel
			}
		} else if r.Intn(8) == 0 {
			k = kInvalid
		} else if r.Intn(6) == 0 {
			k = kCancel
		}
		b.Kinds = append(b.Kinds, k)
	}
	b.Hold = r.Intn(2) == 0
	if r.Intn(4) != 0 {
		b.KeepAlive = time.Duration(150+r.Intn(250)) * time.Millisecond
	}
	b.FeedProb = []float64{1, 0.5, 0.1, 0.02}[r.Intn(4)]
	b.Late = make([]int, B)
	if !b.Hold && r.Intn(2) == 0 {
		// second wave: some queries arrive only after k queries of the burst have been seen executing
		for i := range b.Late {
			if r.Intn(2) == 0 {
				b.Late[i] = 1 + r.Intn(L+1)
			}
		}
	}
	return b
}

// item is one query of a burst as the monitor sees it.
type item struct {
	burst   int
	idx     int
	started bool
	kind    qkind
	cancel  context.CancelFunc
	done    chan struct{}
	res     *results.Result
	err     error
	pmsg    string

	parked    bool // observed executing (FIFO has a reader / Querier entered)
	fed       bool // monitor has released it
	cancelled bool
	returned  bool
}

// target abstracts the two runners for the monitor.
type target interface {
	name() string
	// start launches query it.idx of kind it.kind with the given keepalive; it must close it.done when Run returned.
	start(it *item, keepAlive time.Duration)
	// probe reports whether query it has been observed executing (parked behind the semaphore).
	probe(it *item) bool
	// feed lets the parked query continue.
	feed(it *item)
	// checkFed validates the result of a fed (not cancelled) query; "" = fine.
	checkFed(it *item) string
	semLen() int
	// cleanup releases whatever is still parked in the harness after a burst (stale entries of queries that returned early)
	cleanup()
}

// runBurst drives one burst to quiescence and checks all invariants. It returns false if the series
// cannot continue (violation found or a query is stuck).
func runBurst(c *recorder, r *rand.Rand, t target, L int, b burstSpec, burstNo int) bool {
	where := fmt.Sprintf("%s L=%d burst#%d %s", t.name(), L, burstNo, b.describe())
	c.Note("%s", where)
	items := make([]*item, len(b.Kinds))
	for i, k := range b.Kinds {
		items[i] = &item{burst: burstNo, idx: i, kind: k, done: make(chan struct{})}
	}
	defer t.cleanup()
	launch := func(it *item) {
		it.started = true
		t.start(it, b.KeepAlive)
		if it.kind == kCancelEarly {
			it.cancel()
			c.Count("cancelled_early", 1)
		}
	}
	// launch concurrently, in seeded order (late arrivals are launched by the monitor loop)
	for _, i := range r.Perm(len(items)) {
		if i >= len(b.Late) || b.Late[i] == 0 {
			launch(items[i])
		}
	}
	everParked := 0
	K := b.parkable()
	expectAdmit := K
	if L < expectAdmit {
		expectAdmit = L
	}
	holdChecked := false
	maxParked := 0
	violated := false
	viol := func(sig, format string, args ...any) {
		violated = true
		c.Violatef(sig+"|"+t.name(), "%s: %s", where, fmt.Sprintf(format, args...))
	}

	observe := func() (parkedUnfed, returned int) {
		for _, it := range items {
			if !it.returned {
				select {
				case <-it.done:
					it.returned = true
				default:
				}
			}
			if it.started && !it.returned && !it.parked && t.probe(it) {
				it.parked = true
				everParked++
				c.Count("parked_observed", 1)
				if it.kind == kCancelEarly {
					// its context is already cancelled: the distributed runner may leave Run() without being
					// released by the harness, so it is never counted as "provably holding a slot"; let it go at once
					it.fed = true
					t.feed(it)
				}
			}
		}
		// late arrivals: after the scripted number of queries has been seen executing, or - if that can no
		// longer happen - once every started query is parked or has returned
		settled := true
		for _, it := range items {
			if it.started && !it.returned && !(it.parked && !it.fed) {
				settled = false
			}
		}
		for i, it := range items {
			if !it.started && i < len(b.Late) && (everParked >= b.Late[i] || settled) {
				launch(it)
				c.Count("late_arrivals", 1)
			}
		}
		for _, it := range items {
			if !it.started {
				continue
			}
			if it.returned {
				returned++
			} else if it.parked && !it.fed {
				parkedUnfed++
			}
		}
		return
	}
	release := func(it *item) {
		if it.kind == kCancel {
			it.cancel()
			it.cancelled = true
			c.Count("cancelled_while_parked", 1)
		}
		it.fed = true
		t.feed(it)
	}

	for round := 0; ; round++ {
		pu, ret := observe()
		if pu > maxParked {
			maxParked = pu
		}
		// sound invariants (a parked and unfed query is inside Run behind the semaphore)
		if pu > L {
			viol("limit_exceeded", "%d queries are executing at once (parked behind the semaphore, not yet fed), limit is %d", pu, L)
		}
		// every parked and unfed query holds its slot from before it parked until after it is fed
		if sl := t.semLen(); sl < pu {
			viol("slot_released_while_executing", "%d queries are executing but the semaphore holds only %d slots", pu, sl)
		}
		if violated {
			break
		}
		if ret == len(items) {
			break
		}
		allSettled := pu+ret == len(items) // everything either parked(unfed) or returned; fed ones still running are neither
		if allSettled {
			// quiescent: nothing can change until the monitor feeds a query
			c.Count("quiescent_checks", 1)
			if s := t.semLen(); s != pu {
				viol("slot_leak_or_loss", "quiescent state with %d executing queries and all others returned, but the semaphore holds %d slots", pu, s)
				break
			}
			if b.Hold && !holdChecked {
				holdChecked = true
				if pu == L {
					c.Count("limit_reached", 1)
				}
				if pu < expectAdmit && b.pure() {
					// a parkable query was rejected although a slot is free and nobody could have held it
					// transiently: confirm with a probe query (no wall-clock verdict on a single observation)
					c.Count("under_admission_observed", 1)
					probe := &item{burst: burstNo, idx: len(items), kind: kPark, done: make(chan struct{})}
					items = append(items, probe)
					launch(probe)
					for !probe.parked && !probe.returned {
						time.Sleep(300 * time.Microsecond)
						observe()
					}
					if probe.returned {
						viol("under_admission", "only %d of %d parkable queries were admitted with limit %d, the others were rejected; a further query was rejected as well while the semaphore held %d of %d slots", pu, K, L, t.semLen(), L)
						break
					}
					continue
				}
			}
			// release one parked query (seeded choice)
			var cand []*item
			for _, it := range items {
				if it.parked && !it.fed && !it.returned {
					cand = append(cand, it)
				}
			}
			release(cand[r.Intn(len(cand))])
			continue
		}
		if !b.Hold {
			for _, it := range items {
				if it.parked && !it.fed && !it.returned && r.Float64() < b.FeedProb {
					release(it)
				}
			}
		}
		if os.Getenv("C31_DEBUG") != "" && round%3000 == 0 {
			var st []string
			for _, it := range items {
				st = append(st, fmt.Sprintf("%d:%s p=%v f=%v r=%v", it.idx, it.kind, it.parked, it.fed, it.returned))
			}
			fmt.Fprintf(os.Stderr, "DEBUG %s round %d pu=%d ret=%d sem=%d: %s\n", where, round, pu, ret, t.semLen(), strings.Join(st, " | "))
		}
		time.Sleep(300 * time.Microsecond)
	}
	if violated {
		// the verdict is in; unblock everything and give the queries a bounded time to end so that the
		// scratch database is not removed underneath a running query
		for _, it := range items {
			if !it.started {
				continue
			}
			it.cancel()
		}
		deadline := time.Now().Add(15 * time.Second)
		for time.Now().Before(deadline) {
			pu, ret := observe()
			_ = pu
			for _, it := range items {
				if it.parked && !it.fed {
					it.fed = true
					t.feed(it)
				}
			}
			started := 0
			for _, it := range items {
				if it.started {
					started++
				}
			}
			if ret == started {
				break
			}
			time.Sleep(time.Millisecond)
		}
		return false
	}

	// all returned: final accounting
	if s := t.semLen(); s != 0 {
		viol("slot_leak", "all %d queries of the burst have returned but the semaphore still holds %d slots", len(items), s)
	}
	rejected := 0
	for _, it := range items {
		desc := fmt.Sprintf("query %d (%s)", it.idx, it.kind)
		if it.pmsg != "" {
			viol("panic", "%s panicked: %s", desc, it.pmsg)
			continue
		}
		switch it.kind {
		case kPark, kCancel:
			if !it.parked {
				// never admitted: must have been answered with 'too many requests'
				rejected++
				if it.err != nil || it.res == nil || it.res.Status.Code != types.StatusTooManyRequests {
					st := "<nil result>"
					if it.res != nil {
						st = fmt.Sprintf("status %q %q", it.res.Status.Code, it.res.Status.Message)
					}
					viol("rejected_without_too_many_requests", "%s was not admitted (never executed) but was answered with %s, error %v", desc, st, it.err)
				} else {
					c.Count("rejected_too_many_requests", 1)
				}
				continue
			}
			if it.res != nil && it.res.Status.Code == types.StatusTooManyRequests {
				viol("executed_but_rejected", "%s executed (was parked behind the semaphore) and was answered with 'too many requests'", desc)
				continue
			}
			if it.kind == kPark {
				if msg := t.checkFed(it); msg != "" {
					viol("fed_result", "%s: %s", desc, msg)
				} else {
					c.Count("fed_results_correct", 1)
				}
			}
		case kCancelEarly:
			// any answer is fine (rejected, error, empty or full result); it only must have come back
			if it.res != nil && it.res.Status.Code == types.StatusTooManyRequests {
				if it.parked {
					viol("executed_but_rejected", "%s executed (was parked behind the semaphore) and was answered with 'too many requests'", desc)
				} else {
					c.Count("rejected_too_many_requests", 1)
				}
			}
		case kInvalid:
			if it.err == nil {
				viol("invalid_accepted", "%s returned no error (result %+v)", desc, it.res)
			}
			c.Count("failed_before_admission", 1)
		case kFailAfterA, kFailAfterB:
			if it.res != nil && it.res.Status.Code == types.StatusTooManyRequests {
				rejected++
				c.Count("rejected_too_many_requests", 1)
			} else if it.err == nil {
				viol("failing_query_succeeded", "%s returned no error (result %+v)", desc, it.res)
			} else {
				c.Count("failed_after_admission", 1)
			}
		}
	}
	if b.Hold && maxParked < expectAdmit && b.pure() && !violated {
		c.Count("under_admission_transient", 1)
	}
	c.Count("bursts_"+t.name(), 1)
	if b.Hold {
		c.Count("bursts_hold", 1)
	} else {
		c.Count("bursts_flow", 1)
	}
	if K > L {
		c.Count("bursts_nontrivial", 1)
		c.Nontrivial(fmt.Sprintf("%s|%d|%s", t.name(), L, b.describe()))
	}
	c.Count("queries", len(items))
	return !violated
}

// ---------------------------------------------------------------------------------------------
// engine target

type engineTarget struct {
	dbPath string
	runner *engine.QueryRunner
	sem    chan struct{}
	ts     int64
	flows  []int            // number of flows stored per interface
	fifo   []string         // FIFO path per parkable interface
	data   [][]byte         // original column bytes
	w      map[int]*os.File // writer ends of parked queries
	mu     sync.Mutex
}

func (t *engineTarget) name() string { return "engine" }
func (t *engineTarget) semLen() int  { return len(t.sem) }

func ifaceName(i int) string { return fmt.Sprintf("q%02d", i) }

// newEngineTarget writes a DB with n parkable interfaces (bytes_rcvd column replaced by a FIFO) and
// one interface with an unparsable year directory.
func newEngineTarget(c *fw.Case, r *rand.Rand, n, L int) (*engineTarget, error) {
	t := &engineTarget{dbPath: filepath.Join(c.Tmp, "db"), sem: make(chan struct{}, L), w: map[int]*os.File{}}
	t.ts = int64(gen.MinTS) + 86400*int64(1+r.Intn(9000)) + 300*int64(1+r.Intn(200))
	enc := []encoders.Type{encoders.EncoderTypeLZ4, encoders.EncoderTypeNull}[r.Intn(2)]
	for i := 0; i < n; i++ {
		var b gen.Block
		b.TS = t.ts
		seen := map[string]bool{}
		for len(b.Flows) < 1+i%5 {
			f := gen.RandFlow(r, gen.FlowOpts{V6Prob: 0.3})
			if seen[f.KeyString()] {
				continue
			}
			seen[f.KeyString()] = true
			b.Flows = append(b.Flows, f)
		}
		if err := gen.WriteBlock(t.dbPath, ifaceName(i), b, enc, 0); err != nil {
			return nil, err
		}
		t.flows = append(t.flows, len(b.Flows))
		var col string
		_ = filepath.WalkDir(filepath.Join(t.dbPath, ifaceName(i)), func(p string, d fs.DirEntry, err error) error {
			if err == nil && !d.IsDir() && d.Name() == "bytes_rcvd.gpf" {
				col = p
			}
			return nil
		})
		if col == "" {
			return nil, fmt.Errorf("no bytes_rcvd.gpf written for %s", ifaceName(i))
		}
		data, err := os.ReadFile(col)
		if err != nil {
			return nil, err
		}
		if len(data) == 0 || len(data) > 32<<10 {
			return nil, fmt.Errorf("unexpected column size %d", len(data))
		}
		if err := os.Remove(col); err != nil {
			return nil, err
		}
		if err := syscall.Mkfifo(col, 0o644); err != nil {
			return nil, err
		}
		t.fifo = append(t.fifo, col)
		t.data = append(t.data, data)
	}
	// interface with an unparsable year directory next to its data
	b := gen.Block{TS: t.ts, Flows: []gen.Flow{gen.RandFlow(r, gen.FlowOpts{})}}
	if err := gen.WriteBlock(t.dbPath, "badyear", b, enc, 0); err != nil {
		return nil, err
	}
	if err := os.MkdirAll(filepath.Join(t.dbPath, "badyear", "20x1"), 0o755); err != nil {
		return nil, err
	}
	eng.QuietLogs(nil)
	t.runner = engine.NewQueryRunner(t.dbPath, engine.WithMaxConcurrent(t.sem))
	return t, nil
}

func (t *engineTarget) start(it *item, keepAlive time.Duration) {
	iface := ifaceName(it.idx)
	qtype := "sip,dip,dport,proto"
	switch it.kind {
	case kInvalid:
		qtype = "sip,nonsense"
	case kFailAfterA:
		iface = "badyear"
	case kFailAfterB:
		iface = "doesnotexist"
	}
	a := eng.Args(qtype, iface, "", t.ts-600, t.ts+600)
	a.LowMem = true
	a.KeepAlive = keepAlive
	ctx, cancel := context.WithCancel(context.Background())
	it.cancel = cancel
	go func() {
		defer close(it.done)
		defer cancel()
		defer func() {
			if r := recover(); r != nil {
				it.pmsg = fmt.Sprintf("%v\n%s", r, debug.Stack())
			}
		}()
		it.res, it.err = t.runner.Run(ctx, a)
	}()
}

func (t *engineTarget) cleanup() {
	t.mu.Lock()
	defer t.mu.Unlock()
	for i, w := range t.w {
		_ = w.Close()
		delete(t.w, i)
	}
}

func (t *engineTarget) probe(it *item) bool {
	if it.kind != kPark && it.kind != kCancel && it.kind != kCancelEarly {
		return false // these queries never touch a FIFO
	}
	fd, err := syscall.Open(t.fifo[it.idx], syscall.O_WRONLY|syscall.O_NONBLOCK|syscall.O_CLOEXEC, 0)
	if err != nil {
		return false // ENXIO: no reader
	}
	t.mu.Lock()
	t.w[it.idx] = os.NewFile(uintptr(fd), t.fifo[it.idx])
	t.mu.Unlock()
	return true
}

func (t *engineTarget) feed(it *item) {
	t.mu.Lock()
	w := t.w[it.idx]
	delete(t.w, it.idx)
	t.mu.Unlock()
	if w == nil {
		return
	}
	_, _ = w.Write(t.data[it.idx])
	_ = w.Close()
}

func (t *engineTarget) checkFed(it *item) string {
	if it.err != nil || it.res == nil {
		return fmt.Sprintf("admitted and fed query returned error %v (result %v)", it.err, it.res)
	}
	if it.res.Status.Code != types.StatusOK || len(it.res.Rows) != t.flows[it.idx] {
		return fmt.Sprintf("admitted and fed query returned status %q with %d rows, interface holds %d flows", it.res.Status.Code, len(it.res.Rows), t.flows[it.idx])
	}
	return ""
}

// ---------------------------------------------------------------------------------------------
// distributed target

type distTarget struct {
	runner *gqd.QueryRunner
	sem    chan struct{}
	mu     sync.Mutex
	parked map[string]chan struct{} // host name -> release channel of the query parked in Query()
}

type failingResolver struct{}

func (failingResolver) Resolve(context.Context, string) (hosts.Hosts, error) {
	return nil, errors.New("resolver backend unavailable")
}

func (t *distTarget) name() string { return "distributed" }
func (t *distTarget) semLen() int  { return len(t.sem) }

func distHost(it *item) string { return fmt.Sprintf("b%dq%02d", it.burst, it.idx) }

// Query implements distributed.Querier: it is called after admission; the query stays in
// aggregateResults until the result channel is closed.
func (t *distTarget) Query(_ context.Context, hostList hosts.Hosts, _ *query.Args) (<-chan *results.Result, <-chan struct{}) {
	out := make(chan *results.Result, 1)
	ka := make(chan struct{})
	rel := make(chan struct{})
	t.mu.Lock()
	t.parked[hostList[0]] = rel
	t.mu.Unlock()
	go func() {
		<-rel
		res := results.New()
		res.Hostname = hostList[0]
		res.Summary.DataAvailable = true
		res.Summary.Hits.Total = 1
		res.Rows = results.Rows{{Labels: results.Labels{Iface: "eth0", Hostname: hostList[0]}, Counters: types.Counters{BytesRcvd: 40, PacketsRcvd: 1}}}
		res.HostsStatuses[hostList[0]] = res.Status
		out <- res
		close(out)
		close(ka)
	}()
	return out, ka
}

func newDistTarget(L int) *distTarget {
	t := &distTarget{sem: make(chan struct{}, L), parked: map[string]chan struct{}{}}
	rm := hosts.NewResolverMap()
	rm.Set(stringresolver.Type, stringresolver.NewResolver(true))
	rm.Set("failing", failingResolver{})
	eng.QuietLogs(nil)
	t.runner = gqd.NewQueryRunner(rm, t, gqd.WithMaxConcurrent(t.sem))
	return t
}

func (t *distTarget) start(it *item, keepAlive time.Duration) {
	base := int64(gen.MinTS) + 86400
	a := eng.Args("sip,dip", "any", "", base, base+3600)
	a.QueryHosts = distHost(it)
	a.KeepAlive = keepAlive
	switch it.kind {
	case kInvalid:
		if it.idx%2 == 0 {
			a.QueryHosts = ""
		} else {
			a.Query = "sip,nonsense"
		}
	case kFailAfterA:
		a.QueryHosts = types.AnySelector // the harness Querier cannot enumerate all hosts: error after admission
	case kFailAfterB:
		a.QueryHostsResolverType = "failing"
	}
	ctx, cancel := context.WithCancel(context.Background())
	it.cancel = cancel
	streaming := it.idx%3 == 1
	go func() {
		defer close(it.done)
		defer cancel()
		defer func() {
			if r := recover(); r != nil {
				it.pmsg = fmt.Sprintf("%v\n%s", r, debug.Stack())
			}
		}()
		if streaming {
			it.res, it.err = t.runner.RunStreaming(ctx, a, nil)
		} else {
			it.res, it.err = t.runner.Run(ctx, a)
		}
	}()
}

func (t *distTarget) cleanup() {
	t.mu.Lock()
	defer t.mu.Unlock()
	for h, rel := range t.parked {
		close(rel)
		delete(t.parked, h)
	}
}

func (t *distTarget) probe(it *item) bool {
	t.mu.Lock()
	defer t.mu.Unlock()
	_, ok := t.parked[distHost(it)]
	return ok
}

func (t *distTarget) feed(it *item) {
	t.mu.Lock()
	rel := t.parked[distHost(it)]
	delete(t.parked, distHost(it))
	t.mu.Unlock()
	if rel != nil {
		close(rel)
	}
}

func (t *distTarget) checkFed(it *item) string {
	if it.err != nil || it.res == nil {
		return fmt.Sprintf("admitted and released query returned error %v (result %v)", it.err, it.res)
	}
	if it.res.Status.Code != types.StatusOK || len(it.res.Rows) != 1 {
		return fmt.Sprintf("admitted and released query returned status %q with %d rows, its host delivered 1 row", it.res.Status.Code, len(it.res.Rows))
	}
	return ""
}

// ---------------------------------------------------------------------------------------------

func run(c *fw.Case) {
	r := c.Rng
	L := []int{1, 2, 3, 5}[r.Intn(4)]
	nb := 2 + r.Intn(2)
	if c.Tier == "thorough" {
		nb = 2 + r.Intn(3)
	}
	// pre-draw both series so that they are pure functions of the seed
	var engB, distB []burstSpec
	maxQ := 0
	for i := 0; i < nb; i++ {
		be, bd := genBurst(r, L, i == 0), genBurst(r, L, i == 0)
		if i == nb-1 {
			// the last burst of a series is a pure hold burst above the limit: it proves that every slot came back
			be, bd = pureHold(r, L), pureHold(r, L)
		}
		engB, distB = append(engB, be), append(distB, bd)
		if len(be.Kinds) > maxQ {
			maxQ = len(be.Kinds)
		}
	}
	et, err := newEngineTarget(c, r, maxQ+1, L) // +1: the under-admission probe query
	if err != nil {
		c.Inconclusive("building the FIFO database failed: %v", err)
		return
	}
	dt := newDistTarget(L)
	re, rd := rand.New(rand.NewSource(r.Int63())), rand.New(rand.NewSource(r.Int63()))

	var wg sync.WaitGroup
	rec := &recorder{c: c}
	wg.Add(2)
	go func() {
		defer wg.Done()
		for i, b := range engB {
			if !runBurst(rec, re, et, L, b, i) {
				return
			}
		}
	}()
	go func() {
		defer wg.Done()
		for i, b := range distB {
			if !runBurst(rec, rd, dt, L, b, i) {
				return
			}
		}
	}()
	wg.Wait()
	var ds []string
	for _, b := range engB {
		ds = append(ds, "engine "+b.describe())
	}
	for _, b := range distB {
		ds = append(ds, "distributed "+b.describe())
	}
	c.Sample(map[string]any{"limit": L, "bursts": ds})
}

func pureHold(r *rand.Rand, L int) burstSpec {
	b := burstSpec{Hold: true, FeedProb: 1}
	B := L + 1 + r.Intn(2*L)
	for i := 0; i < B; i++ {
		b.Kinds = append(b.Kinds, kPark)
	}
	if r.Intn(3) != 0 {
		b.KeepAlive = time.Duration(150+r.Intn(250)) * time.Millisecond
	}
	return b
}

// recorder serialises access to the (not goroutine-safe) fw.Case from the two concurrent series.
type recorder struct {
	mu sync.Mutex
	c  *fw.Case
}

func (r *recorder) Count(name string, n int) {
	r.mu.Lock()
	defer r.mu.Unlock()
	r.c.Count(name, n)
}

func (r *recorder) Violatef(sig, format string, args ...any) {
	r.mu.Lock()
	defer r.mu.Unlock()
	r.c.Violatef(sig, format, args...)
}

func (r *recorder) Note(format string, args ...any) {
	r.mu.Lock()
	defer r.mu.Unlock()
	r.c.Note(format, args...)
}

func (r *recorder) Nontrivial(key string) {
	r.mu.Lock()
	defer r.mu.Unlock()
	r.c.Nontrivial(key)
}
