// Package c28: time arguments parse to the instant they denote.
//
// Texts are produced here by formatting known instants with every supported layout (own copy of the
// documented layout list) in several local zones and numeric offsets; the oracle decides ambiguity by trying
// every supported layout itself with the Go standard library (time.ParseInLocation) and never calls goProbe
// for the expected value.
package c28

import (
	"fmt"
	"math/rand"
	"strconv"
	"strings"
	"time"
	_ "time/tzdata"

	"github.com/els0r/goProbe/v4/pkg/query"
	"verifharness/eng"
	"verifharness/fw"
)

func init() {
	fw.Register(&fw.Check{
		ID:    "C28",
		Level: "exploration",
		Rule: "case = one local zone (UTC, Europe/Zurich, America/Los_Angeles, Asia/Tehran, Australia/Lord_Howe, Asia/Kathmandu, America/St_Johns, Pacific/Kiritimati; time.Local is switched in-process) x N texts: " +
			"instant drawn from 1970-01-02..2068-12-30 (uniform, within 2 h of a DST transition of the local zone, year/month ends, single-digit days and months, leap days) formatted with one of the supported layouts (5 standard + 49 custom) " +
			"(+ epoch seconds); layouts with a numeric zone use an offset from -12:00..+14:00 incl. :30/:45, the others the local wall clock; plus M relative specifications (-XdYhZm, -Xd:Yh:Zm[:Ws], bare units, zeros, leading zeros) " +
			"and K ranges built from such texts. A text is non-trivial iff exactly its own layout (or only layouts agreeing on the instant) accepts it and its local wall clock is unambiguous; distinct by (zone, text).",
		Assumptions: []string{
			"'also valid under another supported layout' exempts a text only if that other layout gives it a different instant; if every accepting layout yields the same instant that instant is demanded",
			"local wall clocks that occur twice (DST fold) are skipped and counted; two-digit years follow the Go convention 69-99 -> 19xx, 00-68 -> 20xx, which is unambiguous for 1970-2068",
			"relative times are checked against the wall clock read immediately before and after the call (now-d must lie in between); no verdict depends on elapsed time",
			"start == end of a range may be accepted or rejected (the statement only speaks about start after end)",
		},
		NumCases: func(tier, variant string) int {
			if tier == "thorough" {
				return 6400
			}
			return 64
		},
		Run: run,
		Require: []string{"texts", "texts_checked_unambiguous", "texts_checked_agreeing_layouts", "texts_exempt_other_meaning", "texts_near_dst_transition", "texts_skipped_dst_fold",
			"texts_offset_layout", "texts_local_layout", "texts_minute_precision", "texts_two_digit_year", "relative_specs", "relative_colon_form", "relative_duration_form", "ranges_start_after_end", "ranges_valid"},
	})
}

// The supported layouts as documented (goQuery help / pkg/query/time.go). Kept as an independent copy:
// a layout dropped from the implementation then shows up as a rejected text.
var layouts = []string{
	time.RFC3339, time.ANSIC, time.RubyDate, time.RFC822Z, time.RFC1123Z,
	"2006-01-02 15:04:05",
	"2006-01-02 15:04:05 -0700", "2006-01-02 15:04 -0700", "2006-01-02 15:04:05", "2006-01-02 15:04",
	"06-01-02 15:04:05 -0700", "06-01-02 15:04 -0700", "06-01-02 15:04:05", "06-01-02 15:04",
	"02-01-2006 15:04:05 -0700", "02-01-2006 15:04 -0700", "02-01-2006 15:04:05", "02-01-2006 15:04",
	"02-01-06 15:04:05 -0700", "02-01-06 15:04 -0700", "02-01-06 15:04:05", "02-01-06 15:04",
	"02.01.2006 15:04", "02.01.2006 15:04 -0700", "02.01.06 15:04", "02.01.06 15:04 -0700",
	"2.1.06 15:04:05", "2.1.06 15:04:05 -0700", "2.1.06 15:04", "2.1.06 15:04 -0700",
	"2.1.2006 15:04:05", "2.1.2006 15:04:05 -0700", "2.1.2006 15:04", "2.1.2006 15:04 -0700",
	"02.1.2006 15:04:05", "02.1.2006 15:04:05 -0700", "02.1.2006 15:04", "02.1.2006 15:04 -0700",
	"2.01.2006 15:04:05", "2.01.2006 15:04:05 -0700", "2.01.2006 15:04", "2.01.2006 15:04 -0700",
	"02.1.06 15:04:05", "02.1.06 15:04:05 -0700", "02.1.06 15:04", "02.1.06 15:04 -0700",
	"2.01.06 15:04:05", "2.01.06 15:04:05 -0700", "2.01.06 15:04", "2.01.06 15:04 -0700",
}

const epochLayout = "<epoch seconds>"

// allLayouts = own list united with what the implementation advertises (for the ambiguity analysis).
var allLayouts = func() []string {
	seen := map[string]bool{}
	var out []string
	add := func(l string) {
		if !seen[l] {
			seen[l] = true
			out = append(out, l)
		}
	}
	for _, l := range layouts {
		add(l)
	}
	for _, f := range query.TimeFormatsDefault() {
		add(f.Format)
	}
	for _, f := range query.TimeFormatsCustom() {
		add(f.Format)
	}
	return out
}()

func hasZone(l string) bool   { return strings.Contains(l, "-0700") || strings.Contains(l, "Z07:00") }
func hasSecond(l string) bool { return strings.Contains(l, ":05") }
func twoDigitYear(l string) bool {
	return !strings.Contains(l, "2006")
}

var offsets = func() []int {
	var out []int
	for h := -12; h <= 14; h++ {
		out = append(out, h*3600)
	}
	for _, hm := range [][2]int{{-9, 30}, {-3, 30}, {-2, 30}, {3, 30}, {4, 30}, {5, 30}, {6, 30}, {9, 30}, {10, 30}, {5, 45}, {8, 45}, {12, 45}} {
		s := hm[0]*3600 + hm[1]*60
		if hm[0] < 0 {
			s = hm[0]*3600 - hm[1]*60
		}
		out = append(out, s)
	}
	return out
}()

var zoneNames = []string{"UTC", "Europe/Zurich", "America/Los_Angeles", "Asia/Tehran", "Australia/Lord_Howe", "Asia/Kathmandu", "America/St_Johns", "Pacific/Kiritimati"}

var (
	minInstant = time.Date(1970, 1, 2, 0, 0, 0, 0, time.UTC).Unix()
	maxInstant = time.Date(2068, 12, 30, 0, 0, 0, 0, time.UTC).Unix()
)

// transitions returns the instants in year y at which the offset of loc changes.
func transitions(loc *time.Location, y int, cache map[int][]int64) []int64 {
	if tr, ok := cache[y]; ok {
		return tr
	}
	var out []int64
	start := time.Date(y, 1, 1, 0, 0, 0, 0, time.UTC).Unix()
	end := time.Date(y+1, 1, 1, 0, 0, 0, 0, time.UTC).Unix()
	off := func(s int64) int { _, o := time.Unix(s, 0).In(loc).Zone(); return o }
	prev := off(start)
	for s := start + 86400; s <= end; s += 86400 {
		cur := off(s)
		if cur != prev {
			lo, hi := s-86400, s // off(lo)==prev, off(hi)==cur
			for hi-lo > 1 {
				mid := (lo + hi) / 2
				if off(mid) == prev {
					lo = mid
				} else {
					hi = mid
				}
			}
			out = append(out, hi)
			prev = cur
		}
	}
	cache[y] = out
	return out
}

func clamp(s int64) int64 {
	if s < minInstant {
		return minInstant
	}
	if s > maxInstant {
		return maxInstant
	}
	return s
}

// genInstant draws an instant; nearDST reports the stratum.
func genInstant(r *rand.Rand, loc *time.Location, cache map[int][]int64) (sec int64, nearDST bool) {
	switch r.Intn(10) {
	case 0, 1:
		y := 1970 + r.Intn(99)
		tr := transitions(loc, y, cache)
		if len(tr) > 0 {
			t := tr[r.Intn(len(tr))]
			d := []int64{-7200, -3601, -3600, -3599, -1801, -1800, -1, 0, 1, 59, 60, 1799, 1800, 3599, 3600, 3601, 7199}[r.Intn(17)]
			if r.Intn(3) == 0 {
				d = r.Int63n(14400) - 7200
			}
			return clamp(t + d), true
		}
	case 2:
		// year / month ends in local time
		y := 1970 + r.Intn(99)
		m := time.Month(1 + r.Intn(12))
		t := time.Date(y, m, 1, 0, 0, 0, 0, loc).Unix() + []int64{-1, 0, 1, -60, 59, -86400}[r.Intn(6)]
		return clamp(t), false
	case 3:
		// single digit day and month
		y := 1970 + r.Intn(99)
		return clamp(time.Date(y, time.Month(1+r.Intn(9)), 1+r.Intn(9), r.Intn(24), r.Intn(60), r.Intn(60), 0, loc).Unix()), false
	case 4:
		// leap day
		y := 1972 + 4*r.Intn(24)
		return clamp(time.Date(y, 2, 29, r.Intn(24), r.Intn(60), r.Intn(60), 0, loc).Unix()), false
	case 5:
		// days <= 12 in months <= 12 with small two-digit years: the classic day/month/year ambiguity
		y := 2001 + r.Intn(12)
		return clamp(time.Date(y, time.Month(1+r.Intn(12)), 1+r.Intn(12), r.Intn(24), r.Intn(60), r.Intn(60), 0, loc).Unix()), false
	}
	return minInstant + r.Int63n(maxInstant-minInstant+1), false
}

// wallCandidates returns the instants whose local wall clock (down to prec seconds) equals that of t.
func wallCandidates(t time.Time, loc *time.Location, prec int64) []int64 {
	lt := t.In(loc)
	y, mo, d := lt.Date()
	h, mi, s := lt.Clock()
	if prec == 60 {
		s = 0
	}
	wallUTC := time.Date(y, mo, d, h, mi, s, 0, time.UTC).Unix()
	seenOff := map[int]bool{}
	var cands []int64
	for k := -8; k <= 8; k++ {
		_, o := t.Add(time.Duration(k) * 6 * time.Hour).In(loc).Zone()
		if seenOff[o] {
			continue
		}
		seenOff[o] = true
		cand := wallUTC - int64(o)
		ct := time.Unix(cand, 0).In(loc)
		cy, cmo, cd := ct.Date()
		ch, cmi, cs := ct.Clock()
		if cy == y && cmo == mo && cd == d && ch == h && cmi == mi && cs == s {
			dup := false
			for _, e := range cands {
				if e == cand {
					dup = true
				}
			}
			if !dup {
				cands = append(cands, cand)
			}
		}
	}
	return cands
}

type absText struct {
	text     string
	layout   string
	expected int64
	class    string // unambiguous | agreeing | other_meaning | fold
}

func layoutClass(l string) string {
	if l == epochLayout {
		return "epoch"
	}
	c := "local_layout"
	if hasZone(l) {
		c = "offset_layout"
	}
	if !hasSecond(l) {
		c += "_minutes"
	}
	return c
}

// genAbs produces one absolute time text with its expected instant and ambiguity class.
func genAbs(c *fw.Case, r *rand.Rand, loc *time.Location, cache map[int][]int64) absText {
	sec, near := genInstant(r, loc, cache)
	t := time.Unix(sec, 0)
	if near {
		c.Count("texts_near_dst_transition", 1)
	}
	if r.Intn(40) == 0 {
		return absText{text: strconv.FormatInt(sec, 10), layout: epochLayout, expected: sec, class: "unambiguous"}
	}
	l := layouts[r.Intn(len(layouts))]
	prec := int64(1)
	if !hasSecond(l) {
		prec = 60
		c.Count("texts_minute_precision", 1)
	}
	if twoDigitYear(l) {
		c.Count("texts_two_digit_year", 1)
	}
	a := absText{layout: l}
	if hasZone(l) {
		c.Count("texts_offset_layout", 1)
		off := offsets[r.Intn(len(offsets))]
		switch r.Intn(6) {
		case 0:
			_, off = t.In(loc).Zone() // the local offset itself
		case 1:
			off = 0
		}
		a.text = t.In(time.FixedZone("", off)).Format(l)
		a.expected = sec - sec%prec
	} else {
		c.Count("texts_local_layout", 1)
		a.text = t.In(loc).Format(l)
		a.expected = sec - sec%prec
		if cands := wallCandidates(t, loc, prec); len(cands) != 1 {
			a.class = "fold"
			return a
		}
	}
	// ambiguity analysis: which supported layouts accept the text, and with which instant?
	other, differs := false, false
	if _, err := strconv.ParseInt(a.text, 10, 64); err == nil {
		other, differs = true, true
	}
	for _, l2 := range allLayouts {
		pt, err := time.ParseInLocation(l2, a.text, loc)
		if err != nil {
			continue
		}
		if l2 != l {
			other = true
		}
		if pt.Unix() != a.expected {
			differs = true
			if l2 == l {
				// the text does not even denote the instant under its own layout (cannot happen for the
				// generated domain; counted so that it would be noticed)
				c.Count("texts_own_layout_disagrees", 1)
			}
		}
	}
	switch {
	case differs:
		a.class = "other_meaning"
	case other:
		a.class = "agreeing"
	default:
		a.class = "unambiguous"
	}
	return a
}

func checkAbs(c *fw.Case, zone string, a absText) bool {
	c.Count("texts", 1)
	switch a.class {
	case "fold":
		c.Count("texts_skipped_dst_fold", 1)
		return false
	case "other_meaning":
		c.Count("texts_exempt_other_meaning", 1)
		return false
	case "agreeing":
		c.Count("texts_checked_agreeing_layouts", 1)
	default:
		c.Count("texts_checked_unambiguous", 1)
	}
	c.Nontrivial(zone + "|" + a.text)
	got, err := query.ParseTimeArgument(a.text)
	cls := layoutClass(a.layout)
	if a.class == "agreeing" {
		cls += "|agreeing_layouts"
	}
	if err != nil {
		c.Violatef("absolute_rejected|"+cls, "TZ=%s: ParseTimeArgument(%q) (layout %q, instant %d = %s) failed: %v", zone, a.text, a.layout, a.expected, time.Unix(a.expected, 0).UTC().Format(time.RFC3339), err)
		return false
	}
	if got != a.expected {
		c.Violatef("absolute_wrong_instant|"+cls, "TZ=%s: ParseTimeArgument(%q) = %d (%s), the text was written with layout %q for instant %d (%s); off by %d s",
			zone, a.text, got, time.Unix(got, 0).UTC().Format(time.RFC3339), a.layout, a.expected, time.Unix(a.expected, 0).UTC().Format(time.RFC3339), got-a.expected)
		return false
	}
	return true
}

// ---- relative ---------------------------------------------------------------------------------------

type relSpec struct {
	text string
	back int64 // seconds
	form string
}

func genRel(r *rand.Rand) relSpec {
	num := func(max int64) int64 {
		switch r.Intn(4) {
		case 0:
			return 0
		case 1:
			return 1 + r.Int63n(9)
		default:
			return r.Int63n(max)
		}
	}
	d, h, m, s := num(20000), num(100), num(600), num(600)
	pad := func(v int64) string {
		if r.Intn(4) == 0 {
			return fmt.Sprintf("%02d", v)
		}
		return strconv.FormatInt(v, 10)
	}
	useD, useH, useM := r.Intn(3) != 0, r.Intn(2) == 0, r.Intn(2) == 0
	useS := r.Intn(6) == 0
	if !useD && !useH && !useM && !useS {
		switch r.Intn(3) {
		case 0:
			useD = true
		case 1:
			useH = true
		default:
			useM = true
		}
	}
	var parts []string
	var back int64
	if useD {
		parts = append(parts, pad(d)+"d")
		back += d * 86400
	}
	if useH {
		parts = append(parts, pad(h)+"h")
		back += h * 3600
	}
	if useM {
		parts = append(parts, pad(m)+"m")
		back += m * 60
	}
	if useS {
		parts = append(parts, pad(s)+"s")
		back += s
	}
	if r.Intn(2) == 0 && len(parts) > 1 {
		return relSpec{"-" + strings.Join(parts, ":"), back, "colon"}
	}
	return relSpec{"-" + strings.Join(parts, ""), back, "duration"}
}

func checkRel(c *fw.Case, rs relSpec) {
	c.Count("relative_specs", 1)
	c.Count("relative_"+rs.form+"_form", 1)
	if rs.back == 0 {
		c.Count("relative_zero", 1)
	}
	before := time.Now().Unix()
	got, err := query.ParseTimeArgument(rs.text)
	after := time.Now().Unix()
	if err != nil {
		c.Violatef("relative_rejected|"+rs.form, "ParseTimeArgument(%q) failed: %v (denotes now - %d s)", rs.text, err, rs.back)
		return
	}
	if got < before-rs.back || got > after-rs.back {
		c.Violatef("relative_wrong_instant|"+rs.form, "ParseTimeArgument(%q) = %d, expected now - %d s, i.e. within [%d, %d]; off by %d s", rs.text, got, rs.back, before-rs.back, after-rs.back, got-(before-rs.back))
	}
}

// ---- ranges -----------------------------------------------------------------------------------------

type bound struct {
	text string
	lo   int64 // the instant lies in [lo, hi] (lo == hi for absolute texts)
	hi   int64
	rel  int64 // >=0: relative, seconds back
}

func checkRange(c *fw.Case, zone string, r *rand.Rand, f, l bound) {
	resolve := func(b bound) (int64, int64) {
		if b.rel >= 0 {
			now := time.Now().Unix()
			return now - b.rel - 2, now - b.rel + 2
		}
		return b.lo, b.hi
	}
	flo, fhi := resolve(f)
	llo, lhi := resolve(l)
	var after, beforeOrEq bool
	switch {
	case flo > lhi:
		after = true
		c.Count("ranges_start_after_end", 1)
	case fhi < llo:
		beforeOrEq = true
		c.Count("ranges_valid", 1)
	default:
		c.Count("ranges_start_equals_end_or_too_close", 1)
		return
	}
	api := r.Intn(3)
	var first, last int64
	var rejected bool
	var how string
	switch api {
	case 0:
		how = "ParseTimeRange"
		var err error
		first, last, err = query.ParseTimeRange(f.text, l.text)
		rejected = err != nil
		how += fmt.Sprintf(" err=%v", err)
	case 1:
		how = "ParseTimeRangeCollectErrors"
		var n int
		first, last, n = collect(f.text, l.text)
		rejected = n > 0
		how += fmt.Sprintf(" details=%d", n)
	default:
		how = "Args.Prepare"
		a := query.NewArgs("sip", "eth0")
		a.First, a.Last = f.text, l.text
		a.Format = "json"
		stmt, err := a.Prepare()
		rejected = err != nil
		if stmt != nil {
			first, last = stmt.First, stmt.Last
		}
		how += fmt.Sprintf(" err=%v", err)
	}
	if after && !rejected {
		c.Violatef("range_start_after_end_accepted", "TZ=%s: first=%q (>= %d) lies after last=%q (<= %d) but %s accepted the range (first=%d last=%d)", zone, f.text, flo, l.text, lhi, how, first, last)
		return
	}
	if beforeOrEq {
		if rejected {
			c.Violatef("range_valid_rejected", "TZ=%s: first=%q (<= %d) lies before last=%q (>= %d) but was rejected: %s", zone, f.text, fhi, l.text, llo, how)
			return
		}
		if first < flo || first > fhi || last < llo || last > lhi {
			c.Violatef("range_wrong_bounds", "TZ=%s: range first=%q last=%q parsed to [%d, %d], expected first in [%d,%d] and last in [%d,%d] (%s)", zone, f.text, l.text, first, last, flo, fhi, llo, lhi, how)
		}
	}
}

func collect(f, l string) (int64, int64, int) {
	first, last, det := query.ParseTimeRangeCollectErrors(f, l)
	return first, last, len(det)
}

func run(c *fw.Case) {
	r := c.Rng
	eng.QuietLogs(nil)
	zone := zoneNames[c.Idx%len(zoneNames)]
	loc, err := time.LoadLocation(zone)
	if err != nil {
		c.Inconclusive("zone %s unavailable: %v", zone, err)
		return
	}
	time.Local = loc
	nAbs, nRel, nRange := 3000, 150, 150
	cache := map[int][]int64{}
	var good []absText
	c.Note("absolute texts, TZ=%s", zone)
	for i := 0; i < nAbs; i++ {
		a := genAbs(c, r, loc, cache)
		if checkAbs(c, zone, a) && len(good) < 400 {
			good = append(good, a)
		}
		if i == 0 {
			c.Sample(map[string]any{"zone": zone, "text": a.text, "layout": a.layout, "instant": a.expected, "class": a.class})
		}
	}
	c.Note("relative specs")
	for i := 0; i < nRel; i++ {
		checkRel(c, genRel(r))
	}
	c.Note("ranges")
	if len(good) < 2 {
		return
	}
	pick := func() bound {
		if r.Intn(4) == 0 {
			rs := genRel(r)
			return bound{text: rs.text, rel: rs.back}
		}
		a := good[r.Intn(len(good))]
		return bound{text: a.text, lo: a.expected, hi: a.expected, rel: -1}
	}
	for i := 0; i < nRange; i++ {
		f, l := pick(), pick()
		if r.Intn(3) == 0 && f.rel < 0 {
			// neighbouring instants: start one second/minute after or before the end
			l = f
			d := []int64{-86400, -60, -1, 1, 60, 86400}[r.Intn(6)]
			l.text = strconv.FormatInt(f.lo+d, 10)
			l.lo, l.hi = f.lo+d, f.lo+d
		}
		checkRange(c, zone, r, f, l)
	}
}
