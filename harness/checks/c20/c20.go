// Package c20: captured traffic is fully accounted for across write-outs.
//
// The real capture.Manager (real flow log, real GoDBHandler / DBWriter) runs on scripted packet
// sources. Packets are fed between operations (no packet arrives while a capture is paused — that
// is C21), rotations are triggered at seeded script positions, and everything that reaches the
// database or stays in memory is compared with an independent flow-log oracle.
package c20

import (
	"fmt"
	"math/rand"
	"sort"

	"verifharness/capx"
	"verifharness/fw"
	"verifharness/gen"
)

func init() {
	fw.Register(&fw.Check{
		ID:    "C20",
		Level: "exploration",
		Rule: "case = 1-3 interfaces, each with a seeded script of 8-40 conversations (TCP/UDP to common, registered, high and identical ports, ICMP/ICMPv6 echo and timestamp, ESP/GRE/other, multicast; IPv4 and IPv6; both interface directions) and 200-20000 packets incl. non-first fragments, truncated and invalid packets; " +
			"3-9 rotations at seeded positions incl. back-to-back and idle intervals; final in-memory remainder via GetFlowMaps. Oracle: per interface and interval, per unordered address pair+protocol the four counters equal those of the parsed packets (conservation); on pairs whose conversations are all decisive the stored records equal exactly one record per conversation keyed (client, server, service port, proto); no all-zero record. " +
			"Distinct = (case, interface, interval) with traffic in both families.",
		Assumptions: []string{"the scripted source delivers packets only while the capture is not paused (pauses are C21)", "decisive = orientation fixed by the documented heuristics independent of the first packet"},
		NumCases: func(tier, variant string) int {
			if variant == "race" {
				if tier == "thorough" {
					return 150
				}
				return 12
			}
			if tier == "thorough" {
				return 1500
			}
			return 48
		},
		Variants: func(tier string) []string { return []string{"default", "race"} },
		Run:      run,
		Require:  []string{"intervals_checked", "intervals_with_both_families", "idle_intervals", "decisive_records_checked", "memory_remainder_checked", "bad_packets_fed", "ifaces_ipv6_only", "ifaces_ipv4_only"},
	})
}

const baseTS = 1_700_000_100 // on the 300 s grid? no: deliberately arbitrary; rotations use explicit timestamps

func run(c *fw.Case) {
	r := c.Rng
	nIf := 1 + r.Intn(3)
	ifaces := []string{"eth0", "eth1", "tun0"}[:nIf]
	dbPath := c.Tmp + "/db"
	rig, err := capx.NewRig(capx.DefaultConfig(dbPath, ifaces...), capx.Options{})
	if err != nil {
		c.Inconclusive("rig: %v", err)
		return
	}
	defer rig.Close()

	big := r.Intn(6) == 0
	scripts := map[string]*capx.Script{}
	pos := map[string]int{}
	for _, i := range ifaces {
		n := 200 + r.Intn(1800)
		if big {
			n = 5000 + r.Intn(15000)
		}
		v6p := 0.45
		switch {
		case c.Idx%5 == 4 && i == ifaces[0]:
			v6p = 1 // an IPv6-only interface (its IPv4 flow table stays empty for the whole run)
			c.Count("ifaces_ipv6_only", 1)
		case c.Idx%7 == 6 && i == ifaces[0]:
			v6p = 0 // an IPv4-only interface
			c.Count("ifaces_ipv4_only", 1)
		}
		scripts[i] = capx.GenScript(r, capx.ScriptOpts{NConvs: 8 + r.Intn(33), NPkts: n, V6Prob: v6p})
	}
	nRot := 3 + r.Intn(7)
	day := gen.DayStart(gen.MinTS) + 86400*int64(1+r.Intn(11000))
	ts := day + 86400 - 300*int64(1+r.Intn(4)) // cross a day boundary
	cur := map[string]*capx.Interval{}
	expected := map[string]map[int64]*capx.Interval{}
	for _, i := range ifaces {
		cur[i] = capx.NewInterval()
		expected[i] = map[int64]*capx.Interval{}
	}
	var rotTS []int64
	feed := func(iface string, n int) {
		s := scripts[iface]
		src := rig.Source(iface)
		for k := 0; k < n && pos[iface] < len(s.Pkts); k++ {
			p := s.Pkts[pos[iface]]
			pos[iface]++
			if !p.OK {
				c.Count("bad_packets_fed", 1)
			}
			cur[iface].Add(p)
			src.Feed(p.Spec.Packet())
		}
		src.WaitIdle()
	}
	for rot := 0; rot < nRot; rot++ {
		// traffic before this rotation (sometimes none at all: idle interval / back-to-back rotation)
		if r.Intn(5) != 0 {
			for _, i := range ifaces {
				if nIf > 1 && r.Intn(4) == 0 {
					continue
				}
				remaining := len(scripts[i].Pkts) - pos[i]
				feed(i, 1+r.Intn(1+2*remaining/(nRot-rot+1)))
			}
		}
		c.Note("rotation %d at %d", rot, ts)
		rig.Writeout(ts)
		for _, i := range ifaces {
			expected[i][ts] = cur[i]
			cur[i] = capx.NewInterval()
		}
		rotTS = append(rotTS, ts)
		ts += 300
	}
	// remainder stays in memory
	for _, i := range ifaces {
		feed(i, len(scripts[i].Pkts))
	}
	mem := rig.FlowMaps()

	for _, i := range ifaces {
		exact := capx.DecisivePairs(scripts[i].Convs)
		stored, err := capx.ReadDB(dbPath, i)
		if err != nil {
			c.Violatef("db_read_error", "iface %s: %v", i, err)
			continue
		}
		var tss []int64
		for t := range stored {
			tss = append(tss, t)
		}
		sort.Slice(tss, func(a, b int) bool { return tss[a] < tss[b] })
		for _, t := range tss {
			if _, ok := expected[i][t]; !ok {
				c.Violatef("unexpected_block", "iface %s: database holds flows at timestamp %d which is not a rotation timestamp %v", i, t, rotTS)
			}
		}
		for k, t := range rotTS {
			iv := expected[i][t]
			c.Count("intervals_checked", 1)
			if iv.Empty() {
				c.Count("idle_intervals", 1)
			}
			v4, v6 := false, false
			for p := range iv.Pairs {
				if p.A.Is4() {
					v4 = true
				} else {
					v6 = true
				}
			}
			if v4 && v6 {
				c.Count("intervals_with_both_families", 1)
				c.Nontrivial(fmt.Sprintf("%d/%s/%d", c.Idx, i, k))
			}
			c.Count("decisive_records_checked", countDecisive(iv, scripts[i].Convs, exact))
			for _, m := range capx.CompareInterval(iv, stored[t], scripts[i].Convs, exact) {
				c.Violatef("stored|"+m.Clause, "iface %s, interval %d (write-out at %d, %d packets fed before it in total): %s", i, k, t, pos[i], m.Detail)
			}
		}
		c.Count("memory_remainder_checked", 1)
		for _, m := range capx.CompareInterval(cur[i], mem[i], scripts[i].Convs, exact) {
			c.Violatef("memory|"+m.Clause, "iface %s, flows still in memory after the last write-out: %s", i, m.Detail)
		}
	}
	c.Sample(map[string]any{"ifaces": ifaces, "rotations": rotTS, "packets": pos, "conversations": len(scripts[ifaces[0]].Convs), "first_packets": samplePkts(scripts[ifaces[0]], 4)})
}

func countDecisive(iv *capx.Interval, convs []capx.Conv, exact map[capx.PairKey]bool) int {
	n := 0
	for ci := range iv.Convs {
		if convs[ci].Decisive {
			n++
		}
	}
	return n
}

func samplePkts(s *capx.Script, n int) []string {
	var out []string
	for i := 0; i < n && i < len(s.Pkts); i++ {
		p := s.Pkts[i].Spec
		out = append(out, fmt.Sprintf("%v:%d>%v:%d proto %d flags %#x out=%v size=%d ok=%v", p.Src, p.Sport, p.Dst, p.Dport, p.Proto, p.TCPFlags, p.Outgoing, p.Size, s.Pkts[i].OK))
	}
	return out
}

var _ = rand.Int
