// Package c07: every compressor restores exactly the bytes it was given, and reports the number of
// bytes it actually emitted — for every supported level, any input and any caller-supplied scratch
// buffer, in the cgo and the pure-Go builds.
package c07

import (
	"bytes"
	"fmt"
	"io"
	"math/rand"
	"os"
	"path/filepath"
	"time"

	"github.com/els0r/goProbe/v4/pkg/goDB/encoder"
	"github.com/els0r/goProbe/v4/pkg/goDB/encoder/encoders"
	"verifharness/fw"
	"verifharness/stor"
)

func init() {
	fw.Register(&fw.Check{
		ID:    "C07",
		Level: "exploration",
		Rule: "case = one encoder instance (null|lz4|zstd from encoder.New, level = every supported level 1..12 / 1..19 or the default; a few out-of-range levels are recorded only) reused for a sequence of " +
			"Compress/Decompress calls. Each call draws data (size 0..300 KiB quick / ..1 MiB thorough at the 4 KiB, 8 KiB, 64 KiB, 128 KiB boundaries; classes zeros/text/PRNG/PRNG+zeros/column/mixed/low-entropy) " +
			"and a scratch buffer from {nil, len0cap0, len0 big cap, len 8192 cap 16384 junk-filled (what gpfile passes), len>bound, len 1, too small, capacity just above the input length, random}. The destination is a recording writer; " +
			"the emitted bytes are decompressed by the same or a fresh instance from a file-like reader into an exactly sized poisoned buffer. " +
			"Oracle: no error, reported n == bytes emitted, decompressed length and bytes == pristine copy of the input. " +
			"The same case list runs in the cgo, CGO_ENABLED=0, goprobe_noliblz4, goprobe_nolibzstd builds and (cgo) under ASan and with checkptr instrumentation. " +
			"A call is non-trivial iff the encoder is not null and the scratch buffer has non-zero length or is too small for the bound, or the data is incompressible; distinct by (encoder, level, scratch class, data class, size bucket).",
		Assumptions: []string{
			"the reader handed to Decompress behaves like a file / goProbe's MemFile (a Read of k available bytes returns k bytes)",
			"in/out buffers are sized exactly as gpfile sizes them (len(in) = emitted bytes, len(out) = original length)",
			"system liblz4/libzstd are not ASan-instrumented; ASan only polices the Go<->C boundary buffers",
		},
		NumCases: func(tier, variant string) int {
			n := map[string]int{"default": 240, "nocgo": 240, "nolz4": 160, "nozstd": 160, "asan": 80, "checkptr": 80}[variant]
			if tier == "thorough" {
				n *= 20
			}
			return stor.DevCases(n)
		},
		Variants: func(tier string) []string {
			return []string{"default", "nocgo", "nolz4", "nozstd", "asan", "checkptr"}
		},
		Run:         run,
		CaseTimeout: 10 * time.Minute,
		// single-threaded workloads: keep the Go runtime of the 16 parallel children from fighting over the cores
		Env: func(tier, variant string) []string { return []string{"GOMAXPROCS=2"} },
		Require: []string{"calls_lz4", "calls_zstd", "calls_null", "calls_scratch_gpfile", "calls_scratch_too_small",
			"calls_incompressible", "calls_reused_instance", "calls_fresh_decoder", "calls_empty_input", "calls_ge_64k"},
	})
}

// recWriter records everything written to it (copying, because the encoder may reuse its buffer).
type recWriter struct {
	buf    []byte
	writes int
}

func (w *recWriter) Write(p []byte) (int, error) {
	w.buf = append(w.buf, p...)
	w.writes++
	return len(p), nil
}

// fileLikeReader returns min(len(p), remaining) bytes per Read, (0, nil) for an empty p and io.EOF
// only when asked for data at the end — the behaviour of *os.File.
type fileLikeReader struct {
	b   []byte
	pos int
}

func (f *fileLikeReader) Read(p []byte) (int, error) {
	if len(p) == 0 {
		return 0, nil
	}
	if f.pos >= len(f.b) {
		return 0, io.EOF
	}
	n := copy(p, f.b[f.pos:])
	f.pos += n
	return n, nil
}

// Scratch buffer classes.
const (
	scNil       = "nil"
	scEmpty     = "len0cap0"
	scLen0Big   = "len0capbig"
	scGpfile    = "len8192cap16384"
	scBigLen    = "len>bound"
	scLen1      = "len1"
	scTooSmall  = "toosmall"
	scJustAbove = "just_above_len" // capacity a few bytes above the input length: holds the input but not the compress bound
	scRandom    = "random"
)

var scratchClasses = []string{scNil, scEmpty, scLen0Big, scGpfile, scGpfile, scGpfile, scBigLen, scLen1, scTooSmall, scJustAbove, scRandom}

func makeScratch(r *rand.Rand, cls string, dataLen int) []byte {
	junk := func(b []byte) []byte {
		full := b[:cap(b)]
		for i := range full {
			full[i] = 0xA5 ^ byte(i)
		}
		return b
	}
	bound := dataLen + dataLen/100 + 1024 // generous upper bound of any compressBound for these sizes
	switch cls {
	case scNil:
		return nil
	case scEmpty:
		return []byte{}
	case scLen0Big:
		return junk(make([]byte, 0, 2*bound))
	case scGpfile:
		return junk(make([]byte, 8192, 16384))
	case scBigLen:
		return junk(make([]byte, bound+1+r.Intn(4096), 2*bound+8192))
	case scLen1:
		return junk(make([]byte, 1, 1+r.Intn(64)))
	case scJustAbove:
		n := dataLen + 1 + r.Intn(128)
		return junk(make([]byte, r.Intn(n+1), n))
	case scTooSmall:
		n := 1 + r.Intn(dataLen/2+16)
		return junk(make([]byte, r.Intn(n+1), n))
	default:
		c := r.Intn(3*bound + 1)
		return junk(make([]byte, r.Intn(c+1), c))
	}
}

type encSpec struct {
	t     encoders.Type
	name  string
	level int // 0 = leave the default
	oob   bool
}

func pickEncoder(r *rand.Rand) encSpec {
	var s encSpec
	switch r.Intn(9) {
	case 0:
		s.t, s.name = encoders.EncoderTypeNull, "null"
	case 1, 2, 3, 4:
		s.t, s.name = encoders.EncoderTypeLZ4, "lz4"
	default:
		s.t, s.name = encoders.EncoderTypeZSTD, "zstd"
	}
	maxLevel := map[string]int{"null": 0, "lz4": 12, "zstd": 19}[s.name]
	switch x := r.Intn(100); {
	case x < 15 || maxLevel == 0:
		s.level = 0
	case x < 97:
		s.level = 1 + r.Intn(maxLevel)
		// over-weight the extremes
		if r.Intn(5) == 0 {
			s.level = []int{1, maxLevel}[r.Intn(2)]
		}
	default:
		s.level = []int{-1, maxLevel + 1, 100, -100}[r.Intn(4)]
		s.oob = true
	}
	return s
}

func run(c *fw.Case) {
	r := c.Rng
	spec := pickEncoder(r)
	enc, err := encoder.New(spec.t)
	if err != nil {
		c.Violatef("new_error|"+spec.name, "encoder.New(%v): %v", spec.t, err)
		return
	}
	defer enc.Close()
	if enc.Type() != spec.t {
		c.Violatef("type_mismatch|"+spec.name, "encoder.New(%v).Type() = %v", spec.t, enc.Type())
	}
	if spec.level != 0 {
		enc.SetLevel(spec.level)
	}
	nCalls := 8
	huge := false
	if c.Tier == "thorough" {
		nCalls = 16
		huge = true
	}
	maxSize := 0
	if c.Variant == "asan" || c.Variant == "checkptr" {
		maxSize = 140000
	}
	// very high zstd levels on large inputs are slow; keep the case within budget by capping the
	// number (not the size) of large inputs
	largeBudget := 3
	for i := 0; i < nCalls; i++ {
		size := stor.PickSize(r, huge, maxSize)
		if size > 65536 {
			if largeBudget == 0 {
				size = stor.SizesBoundary[r.Intn(len(stor.SizesBoundary))]
			} else {
				largeBudget--
			}
		}
		cls := stor.PickClass(r)
		data := stor.Gen(r, cls, size)
		scCls := scratchClasses[r.Intn(len(scratchClasses))]
		scratch := makeScratch(r, scCls, size)
		freshDecoder := r.Intn(2) == 0
		viaFile := r.Intn(12) == 0
		relevel := 0
		if !spec.oob && spec.name != "null" && r.Intn(10) == 0 {
			// changing the level of a used instance must not break the round trip
			relevel = 1 + r.Intn(map[string]int{"lz4": 12, "zstd": 19}[spec.name])
			enc.SetLevel(relevel)
		}
		desc := fmt.Sprintf("call %d: encoder=%s level=%d relevel=%d data=%s/%d scratch=%s(len %d cap %d) fresh_decoder=%v via_file=%v",
			i, spec.name, spec.level, relevel, cls, size, scCls, len(scratch), cap(scratch), freshDecoder, viaFile)
		c.Note("%s", desc)
		ok := oneCall(c, spec, enc, data, scratch, scCls, freshDecoder, viaFile, desc)

		// coverage
		c.Count("calls", 1)
		c.Count("calls_"+spec.name, 1)
		if spec.oob {
			c.Count("calls_out_of_range_level", 1)
			if !ok {
				c.Count("out_of_range_level_failures", 1)
			}
			continue
		}
		if scCls == scGpfile {
			c.Count("calls_scratch_gpfile", 1)
		}
		tooSmall := cap(scratch) < size
		if tooSmall {
			c.Count("calls_scratch_too_small", 1)
		}
		if stor.Incompressible(cls) && size > 64 {
			c.Count("calls_incompressible", 1)
		}
		if i > 0 {
			c.Count("calls_reused_instance", 1)
		}
		if freshDecoder {
			c.Count("calls_fresh_decoder", 1)
		}
		if size == 0 {
			c.Count("calls_empty_input", 1)
		}
		if size >= 65536 {
			c.Count("calls_ge_64k", 1)
		}
		if relevel != 0 {
			c.Count("calls_after_level_change", 1)
		}
		if spec.name != "null" && (len(scratch) > 0 || tooSmall || stor.Incompressible(cls)) {
			c.Nontrivial(fmt.Sprintf("%s|%d|%s|%s|%s", spec.name, spec.level, scCls, cls, stor.SizeBucket(size)))
		}
		if i == 0 {
			c.Sample(map[string]any{"variant": c.Variant, "call": desc})
		}
	}
}

// oneCall performs one compress + decompress round trip and applies the oracle. Returns false if
// any clause failed.
func oneCall(c *fw.Case, spec encSpec, enc encoder.Encoder, data, scratch []byte, scCls string, freshDecoder, viaFile bool, desc string) (ok bool) {
	violate := func(clause, format string, args ...any) {
		ok = false
		if spec.oob {
			return // unsupported level: recorded by the caller, not a violation
		}
		c.Violatef(clause+"|"+spec.name+"|scratch:"+scCls, desc+": "+format, args...)
	}
	ok = true
	if spec.oob {
		defer func() {
			if p := recover(); p != nil {
				ok = false
				c.Count("out_of_range_level_panics", 1)
			}
		}()
	}
	pristine := append([]byte(nil), data...)
	w := &recWriter{}
	n, err := enc.Compress(data, scratch, w)
	if err != nil {
		violate("compress_error", "Compress returned error %v (n=%d, emitted=%d)", err, n, len(w.buf))
		return
	}
	if n != len(w.buf) {
		violate("count_mismatch", "Compress reported n=%d but emitted %d bytes in %d Write call(s)", n, len(w.buf), w.writes)
	}
	emitted := w.buf

	dec := enc
	if freshDecoder {
		d, err := encoder.New(spec.t)
		if err != nil {
			violate("new_error", "encoder.New for decoding: %v", err)
			return
		}
		defer d.Close()
		dec = d
	}
	// buffers sized as gpfile sizes them: slices of larger, dirty buffers
	inBack := make([]byte, len(emitted)+64)
	for i := range inBack {
		inBack[i] = 0xC3
	}
	in := inBack[:len(emitted)]
	outBack := make([]byte, len(pristine)+64)
	for i := range outBack {
		outBack[i] = 0x5A
	}
	out := outBack[:len(pristine)]

	var src io.Reader = &fileLikeReader{b: emitted}
	if viaFile {
		p := filepath.Join(c.Tmp, "blk")
		if err := os.WriteFile(p, emitted, 0o600); err != nil {
			c.Inconclusive("scratch file: %v", err)
			return
		}
		f, err := os.Open(p)
		if err != nil {
			c.Inconclusive("scratch file: %v", err)
			return
		}
		defer f.Close()
		src = f
	}
	if len(emitted) == 0 && len(pristine) > 0 {
		violate("nothing_emitted", "Compress emitted 0 bytes for %d input bytes", len(pristine))
		return
	}
	nOut, err := dec.Decompress(in, out, src)
	if err != nil {
		violate("decompress_error", "Decompress of the %d emitted bytes failed: %v (emitted prefix % x)", len(emitted), err, head(emitted, 16))
		return
	}
	if nOut != len(pristine) {
		violate("decompress_len", "Decompress returned %d bytes, input had %d", nOut, len(pristine))
		return
	}
	if !bytes.Equal(out, pristine) {
		violate("roundtrip_mismatch", "decompressed bytes differ from the input at offset %d (emitted %d bytes)", firstDiff(out, pristine), len(emitted))
		return
	}
	return
}

func head(b []byte, n int) []byte {
	if len(b) > n {
		return b[:n]
	}
	return b
}

func firstDiff(a, b []byte) int {
	n := len(a)
	if len(b) < n {
		n = len(b)
	}
	for i := 0; i < n; i++ {
		if a[i] != b[i] {
			return i
		}
	}
	return n
}
