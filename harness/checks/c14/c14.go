// Package c14: result ordering is deterministic and the row limit keeps the top rows.
//
// Oracle is metamorphic (no re-implementation of goProbe's tie-break order):
//   - sortedness: adjacent output rows respect the selected key / direction / ascending flag,
//   - permutation invariance: every input order of one row multiset yields the same output sequence,
//   - prefix: a limited result equals the first rows of the unlimited result.
//
// Driven through results.By(..).Sort, query.Statement.PostProcess (statements from Args.Prepare), the
// distributed QueryRunner (aggregateResults/finalizeResult) with a scripted Querier, and the local query engine.
package c14

import (
	"context"
	"fmt"
	"math"
	"math/rand"
	"strings"
	"time"
	_ "time/tzdata"

	"github.com/danielgtaylor/huma/v2/sse"
	gqdist "github.com/els0r/goProbe/v4/cmd/global-query/pkg/distributed"
	"github.com/els0r/goProbe/v4/pkg/api"
	"github.com/els0r/goProbe/v4/pkg/distributed/hosts"
	"github.com/els0r/goProbe/v4/pkg/goDB/encoder/encoders"
	"github.com/els0r/goProbe/v4/pkg/query"
	"github.com/els0r/goProbe/v4/pkg/results"
	"github.com/els0r/goProbe/v4/pkg/types"
	"verifharness/eng"
	"verifharness/fw"
	"verifharness/gen"
	"verifharness/resgen"
)

func init() {
	fw.Register(&fw.Check{
		ID:    "C14",
		Level: "exploration",
		Rule: "case = (a) N row multisets (distinct semantic keys over tiny alphabets: <=3 instants each in up to 5 zone representations or no time label, 4 ifaces, 4 hosts, v4/v6/absent addresses; counters from a 4-value alphabet so sort keys tie constantly; " +
			"occasional exact duplicates) sorted by results.By for all 24 (key in packets/bytes/time, direction in sum/in/out/both, asc/desc) from P random input orders; " +
			"(b) the sorted rows cut by Statement.PostProcess (statement from Args.Prepare with sort_by/sort_ascending/in/out/sum/num_results, incl. time queries with a coarser time_resolution) for several limits; " +
			"(c) 2-5 scripted hosts (own zone each) answering a distributed QueryRunner.Run in random delivery orders, unlimited and limited, and RunStreaming with >100 rows whose partial results (capped at 100 rows) are compared with the unlimited result of the hosts merged so far; (d) every 8th case a generated DB queried through the local engine with each sort argument. " +
			"A multiset is non-trivial iff at least two rows with different semantic keys tie on the selected sort key; distinct by (rows, key, direction, asc).",
		Assumptions: []string{
			"rows that agree in instant, labels and attributes are the same row (same counters): results never contain two rows for one (labels, attributes) group",
			"host id is a function of the hostname (documented assumption of Labels.Less)",
			"direction 'both' orders by the sum of both directions like 'sum'",
			"sort keys do not overflow uint64",
			"equal instants in different zone representations denote the same time label",
		},
		NumCases: func(tier, variant string) int {
			if tier == "thorough" {
				return 1600
			}
			return 64
		},
		Run: run,
		Require: []string{"sorts", "sorts_with_key_ties", "sorts_with_equal_instant_other_zone_ties", "sorts_v4_v6_mixed", "multisets_with_duplicates",
			"limit_checks", "limit_checks_cutting", "limit_checks_time_binned", "dist_runs", "dist_runs_with_cross_host_ties", "dist_limit_checks_cutting", "dist_streaming_runs", "dist_streaming_partials_cut", "engine_queries"},
	})
}

type combo struct {
	key results.SortOrder
	dir types.Direction
	asc bool
}

func (cb combo) String() string {
	return fmt.Sprintf("sort=%s dir=%s asc=%v", cb.key, cb.dir, cb.asc)
}

var allCombos = func() []combo {
	var out []combo
	for _, k := range []results.SortOrder{results.SortPackets, results.SortTraffic, results.SortTime} {
		for _, d := range []types.Direction{types.DirectionSum, types.DirectionIn, types.DirectionOut, types.DirectionBoth} {
			for _, a := range []bool{false, true} {
				out = append(out, combo{k, d, a})
			}
		}
	}
	return out
}()

// sortKey is the harness' reading of "the order selected by sort key and direction".
func sortKey(id resgen.Ident, cb combo) (v uint64, ts int64) {
	switch cb.key {
	case results.SortTime:
		if id.ZeroTS {
			return 0, math.MinInt64
		}
		return 0, id.UnixNano
	case results.SortPackets:
		switch cb.dir {
		case types.DirectionIn:
			return id.PR, 0
		case types.DirectionOut:
			return id.PS, 0
		}
		return id.PR + id.PS, 0
	default:
		switch cb.dir {
		case types.DirectionIn:
			return id.BR, 0
		case types.DirectionOut:
			return id.BS, 0
		}
		return id.BR + id.BS, 0
	}
}

// cmpKey returns -1/0/+1 of the sort keys of a and b.
func cmpKey(a, b resgen.Ident, cb combo) int {
	av, at := sortKey(a, cb)
	bv, bt := sortKey(b, cb)
	switch {
	case av < bv || at < bt:
		return -1
	case av > bv || at > bt:
		return 1
	}
	return 0
}

// checkSorted verifies sortedness of a sequence w.r.t. cb; returns a description of the first offence.
func checkSorted(ids []resgen.Ident, cb combo) string {
	for i := 1; i < len(ids); i++ {
		cm := cmpKey(ids[i-1], ids[i], cb)
		if (cb.asc && cm > 0) || (!cb.asc && cm < 0) {
			return fmt.Sprintf("rows %d and %d are out of order: %v then %v", i-1, i, ids[i-1], ids[i])
		}
	}
	return ""
}

// genMultiset draws a row multiset with heavy ties.
func genMultiset(r *rand.Rand) (rows results.Rows, hasDup bool) {
	ao := resgen.RandAttrOpts(r)
	timeMode := r.Intn(3) // 0: no time label, 1: all time labelled, 2: mix
	base := 1_000_080_000 + r.Int63n(1_000_000_000)
	instants := []int64{base, base + 300, base + 86400}
	nKeys := 2 + r.Intn(14)
	seen := map[resgen.Key]bool{}
	ties := r.Intn(4) != 0
	for len(seen) < nKeys {
		h := resgen.Hosts[r.Intn(len(resgen.Hosts))]
		row := results.Row{Labels: results.Labels{Iface: resgen.Ifaces[r.Intn(len(resgen.Ifaces))], Hostname: h, HostID: resgen.HostID(h)}, Attributes: resgen.RandAttrs(r, ao)}
		sec := int64(-1)
		if timeMode == 1 || (timeMode == 2 && r.Intn(2) == 0) {
			sec = instants[r.Intn(len(instants))]
			row.Labels.Timestamp = resgen.InZone(sec, r.Intn(len(resgen.Zones)))
		}
		k := resgen.KeyOf(row)
		if seen[k] {
			if len(seen) > 1 && r.Intn(30) == 0 {
				break // key space exhausted
			}
			continue
		}
		seen[k] = true
		row.Counters = resgen.RandCounters(r, ties)
		rows = append(rows, row)
		// exact duplicate of the same semantic row, possibly in another zone representation
		if r.Intn(12) == 0 {
			d := row
			if sec >= 0 {
				d.Labels.Timestamp = resgen.InZone(sec, r.Intn(len(resgen.Zones)))
			}
			rows = append(rows, d)
			hasDup = true
		}
	}
	return rows, hasDup
}

func shuffled(r *rand.Rand, rows results.Rows) results.Rows {
	out := append(results.Rows(nil), rows...)
	r.Shuffle(len(out), func(i, j int) { out[i], out[j] = out[j], out[i] })
	return out
}

func sameMultiset(a, b []resgen.Ident) bool {
	if len(a) != len(b) {
		return false
	}
	m := make(map[resgen.Ident]int, len(a))
	for _, x := range a {
		m[x]++
	}
	for _, x := range b {
		m[x]--
		if m[x] < 0 {
			return false
		}
	}
	return true
}

func equalIdents(a, b []resgen.Ident) int {
	if len(a) != len(b) {
		return 0
	}
	for i := range a {
		if a[i] != b[i] {
			return i
		}
	}
	return -1
}

// tieClass classifies what kind of rows tie on the sort key (for coverage and signatures).
type tieInfo struct {
	keyTies      bool // two different semantic keys share the sort key
	zoneTies     bool // ... and additionally share the instant in different zone representations
	v4v6         bool
	sameReprTies bool
}

func analyse(rows results.Rows, cb combo) tieInfo {
	var ti tieInfo
	has4, has6 := false, false
	for _, r := range rows {
		if r.Attributes.SrcIP.IsValid() {
			if r.Attributes.SrcIP.Is4() {
				has4 = true
			} else {
				has6 = true
			}
		}
		if r.Attributes.DstIP.IsValid() {
			if r.Attributes.DstIP.Is4() {
				has4 = true
			} else {
				has6 = true
			}
		}
	}
	ti.v4v6 = has4 && has6
	ids := resgen.Idents(rows)
	for i := range rows {
		for j := i + 1; j < len(rows); j++ {
			if ids[i].Key == ids[j].Key || cmpKey(ids[i], ids[j], cb) != 0 {
				continue
			}
			ti.keyTies = true
			a, b := rows[i].Labels.Timestamp, rows[j].Labels.Timestamp
			if !a.IsZero() && !b.IsZero() && a.Equal(b) && rows[i].Attributes == rows[j].Attributes {
				if a != b {
					ti.zoneTies = true
				} else {
					ti.sameReprTies = true
				}
			}
		}
	}
	return ti
}

// zoneClass is the feature class of an input for signatures: does it hold the same instant in two
// different time.Time representations (zones)?
func zoneClass(rows results.Rows) string {
	for i := range rows {
		for j := i + 1; j < len(rows); j++ {
			a, b := rows[i].Labels.Timestamp, rows[j].Labels.Timestamp
			if !a.IsZero() && !b.IsZero() && a.Equal(b) && a != b {
				return "equal_instants_in_different_zones"
			}
		}
	}
	return "single_zone_per_instant"
}

func checkSortDirect(c *fw.Case, r *rand.Rand, rows results.Rows, hasDup bool, perms int, sample bool) {
	if hasDup {
		c.Count("multisets_with_duplicates", 1)
	}
	c.Note("By(..).Sort of %s", resgen.RowsString(rows, 40))
	inIDs := resgen.Idents(rows)
	for _, cb := range allCombos {
		ti := analyse(rows, cb)
		c.Count("sorts", 1)
		if ti.keyTies {
			c.Count("sorts_with_key_ties", 1)
			c.Nontrivial(cb.String() + resgen.RowsString(rows, 100))
		}
		if ti.zoneTies {
			c.Count("sorts_with_equal_instant_other_zone_ties", 1)
		}
		if ti.v4v6 {
			c.Count("sorts_v4_v6_mixed", 1)
		}
		var ref []resgen.Ident
		var refIn, refOut results.Rows
		for p := 0; p < perms; p++ {
			in := shuffled(r, rows)
			work := append(results.Rows(nil), in...)
			results.By(cb.key, cb.dir, cb.asc).Sort(work)
			out := resgen.Idents(work)
			// permutation of the input?
			if !sameMultiset(out, inIDs) {
				c.Violatef("rows_changed_by_sort", "%s: output is not a permutation of the input; in=%s out=%s", cb, resgen.RowsString(in, 20), resgen.RowsString(work, 20))
				return
			}
			if msg := checkSorted(out, cb); msg != "" {
				c.Violatef("not_sorted|"+cb.key.String(), "%s: %s; in=%s out=%s", cb, msg, resgen.RowsString(in, 20), resgen.RowsString(work, 20))
				return
			}
			if p == 0 {
				ref, refIn, refOut = out, in, work
				continue
			}
			if at := equalIdents(ref, out); at != -1 {
				cls := zoneClass(rows)
				w := witness2(rows, cb)
				c.Violatef("order_depends_on_input_order|"+cls, "%s: two input orders of one multiset sort differently (first difference at position %d).%s input A=%s -> %s ; input B=%s -> %s",
					cb, at, w, resgen.RowsString(refIn, 8), resgen.RowsString(refOut, 8), resgen.RowsString(in, 8), resgen.RowsString(work, 8))
				return
			}
		}
		if sample && cb.key == results.SortTraffic && cb.dir == types.DirectionSum && !cb.asc {
			c.Sample(map[string]any{"combo": cb.String(), "input": resgen.RowsString(refIn, 8), "sorted": resgen.RowsString(refOut, 8)})
		}
	}
}

// witness2 tries to shrink an order dependence to two rows.
func witness2(rows results.Rows, cb combo) string {
	for i := range rows {
		for j := i + 1; j < len(rows); j++ {
			p1 := results.Rows{rows[i], rows[j]}
			p2 := results.Rows{rows[j], rows[i]}
			results.By(cb.key, cb.dir, cb.asc).Sort(p1)
			results.By(cb.key, cb.dir, cb.asc).Sort(p2)
			if equalIdents(resgen.Idents(p1), resgen.Idents(p2)) != -1 {
				return fmt.Sprintf(" MINIMAL: rows x=%s y=%s: [x y] sorts to %s but [y x] sorts to %s.", resgen.RowString(rows[i]), resgen.RowString(rows[j]), resgen.RowsString(p1, 2), resgen.RowsString(p2, 2))
			}
		}
	}
	return ""
}

// requested returns the order a query asks for: time queries are documented to be forced to ascending
// time order, everything else follows sort_by / in,out,sum / sort_ascending.
func requested(cb combo, timeQuery bool) combo {
	if timeQuery {
		return combo{results.SortTime, cb.dir, true}
	}
	return cb
}

// stmtMatches reports (as a violation) a prepared statement that does not carry the requested order.
func stmtMatches(c *fw.Case, a *query.Args, stmt *query.Statement, want combo) bool {
	if stmt.SortBy == want.key && stmt.Direction == want.dir && stmt.SortAscending == want.asc {
		return true
	}
	sig := "statement_order_args"
	if stmt.SortBy == want.key && stmt.Direction == want.dir {
		sig = "ascending_flag_ignored"
	}
	c.Violatef(sig, "Args.Prepare(%s) requested {%s} but the statement carries {sort=%s dir=%s asc=%v}", a.ToJSONString(), want, stmt.SortBy, stmt.Direction, stmt.SortAscending)
	return false
}

// ---- (b) the row limit through Statement.PostProcess -----------------------------------------

func argsFor(cb combo, qtype string, limit uint64) *query.Args {
	a := query.NewArgs(qtype, "any")
	a.First, a.Last = "1000080000", "2100000000"
	a.Format = "json"
	a.NumResults = limit
	a.SortAscending = cb.asc
	switch cb.key {
	case results.SortPackets:
		a.SortBy = "packets"
	case results.SortTraffic:
		a.SortBy = "bytes"
	case results.SortTime:
		a.SortBy = "time"
	}
	switch cb.dir {
	case types.DirectionSum:
		a.Sum = true
	case types.DirectionIn:
		a.In = true
	case types.DirectionOut:
		a.Out = true
	case types.DirectionBoth:
		a.In, a.Out = true, true
	}
	return a
}

func checkLimit(c *fw.Case, r *rand.Rand, rows results.Rows) {
	cb := allCombos[r.Intn(len(allCombos))]
	timeQuery := r.Intn(3) == 0
	qtype := "sip,dip,dport,proto"
	binSec := int64(300)
	var resolution string
	if timeQuery {
		qtype = "time," + qtype
		if r.Intn(2) == 0 {
			binSec = []int64{600, 3600, 86400}[r.Intn(3)]
			resolution = fmt.Sprintf("%ds", binSec)
		}
	}
	eff := requested(cb, timeQuery)
	prep := func(limit uint64) *query.Statement {
		a := argsFor(cb, qtype, limit)
		a.TimeResolution = resolution
		stmt, err := a.Prepare()
		if err != nil {
			c.Violatef("prepare_error", "Args.Prepare(%s): %v", a.ToJSONString(), err)
			return nil
		}
		if !stmtMatches(c, a, stmt, eff) {
			return nil
		}
		return stmt
	}
	full := prep(math.MaxUint32)
	if full == nil {
		return
	}
	// the order under test: rows sorted by the real sorter with the statement's parameters
	sorted := append(results.Rows(nil), rows...)
	results.By(full.SortBy, full.Direction, full.SortAscending).Sort(sorted)
	resFull := results.New()
	resFull.Rows = append(results.Rows(nil), sorted...)
	if err := full.PostProcess(context.Background(), resFull); err != nil {
		c.Violatef("postprocess_error", "%v", err)
		return
	}
	fullIDs := resgen.Idents(resFull.Rows)
	if binSec == 300 {
		if at := equalIdents(fullIDs, resgen.Idents(sorted)); at != -1 {
			c.Violatef("limit_changes_order", "%s: PostProcess without an effective limit changed the sorted rows at position %d: %s -> %s", eff, at, resgen.RowsString(sorted, 12), resgen.RowsString(resFull.Rows, 12))
			return
		}
	} else {
		c.Count("limit_checks_time_binned", 1)
		if msg := checkSorted(fullIDs, eff); msg != "" {
			c.Violatef("not_sorted|binned", "%s bin=%ds: %s", eff, binSec, msg)
			return
		}
	}
	for _, n := range []int{1, len(fullIDs) / 2, len(fullIDs) - 1, len(fullIDs), len(fullIDs) + 1} {
		if n < 1 {
			continue
		}
		st := prep(uint64(n))
		if st == nil {
			return
		}
		res := results.New()
		res.Rows = append(results.Rows(nil), sorted...)
		c.Note("PostProcess limit=%d of %d rows (%s)", n, len(sorted), eff)
		if err := st.PostProcess(context.Background(), res); err != nil {
			c.Violatef("postprocess_error", "%v", err)
			return
		}
		c.Count("limit_checks", 1)
		want := fullIDs
		if n < len(want) {
			want = want[:n]
			c.Count("limit_checks_cutting", 1)
		}
		if at := equalIdents(want, resgen.Idents(res.Rows)); at != -1 {
			c.Violatef("limit_not_prefix|postprocess", "%s query=%q resolution=%q limit=%d: limited rows %s are not the first %d of the unlimited result %s", eff, qtype, resolution, n,
				resgen.RowsString(res.Rows, 12), n, resgen.RowsString(resFull.Rows, 12))
			return
		}
	}
}

// ---- (c) distributed query runner ----------------------------------------------------------------

type listResolver struct{}

func (listResolver) Resolve(_ context.Context, q string) (hosts.Hosts, error) {
	return hosts.Hosts(strings.Split(q, ",")), nil
}

type scriptedQuerier struct {
	byHost map[string]*results.Result
	order  []string
}

func (s *scriptedQuerier) Query(_ context.Context, _ hosts.Hosts, _ *query.Args) (<-chan *results.Result, <-chan struct{}) {
	rc := make(chan *results.Result, len(s.order))
	kc := make(chan struct{})
	for _, h := range s.order {
		rc <- s.byHost[h]
	}
	close(rc)
	close(kc)
	return rc, kc
}

type hostData struct {
	name string
	rows results.Rows
}

func hostResult(h hostData) *results.Result {
	res := results.New()
	res.Start()
	res.Hostname = h.name
	res.Rows = append(results.Rows(nil), h.rows...)
	res.Summary.Hits.Total = len(res.Rows)
	res.Summary.Interfaces = []string{"eth0", "eth1"}
	res.Summary.DataAvailable = true
	res.Summary.First = time.Unix(1_000_080_000, 0)
	res.Summary.Last = time.Unix(2_100_000_000, 0)
	for _, r := range res.Rows {
		res.Summary.Totals.Add(r.Counters)
	}
	res.HostsStatuses[h.name] = results.Status{Code: types.StatusOK}
	return res
}

func checkDistributed(c *fw.Case, r *rand.Rand) {
	cb := allCombos[r.Intn(len(allCombos))]
	timeQuery := r.Intn(2) == 0
	nHosts := 2 + r.Intn(4)
	names := []string{"hostA", "hostB", "hostC", "hostD", "hostE"}[:nHosts]
	ao := resgen.RandAttrOpts(r)
	base := 1_000_080_000 + 300*r.Int63n(1_000_000)
	instants := []int64{base, base + 300, base + 600}
	nAttrs := 1 + r.Intn(4)
	attrs := make([]results.Attributes, nAttrs)
	for i := range attrs {
		attrs[i] = resgen.RandAttrs(r, ao)
	}
	ties := r.Intn(4) != 0
	var hds []hostData
	crossTies := false
	type ak struct {
		a  results.Attributes
		ts int64
	}
	seenAcross := map[ak]int{}
	for hi, name := range names {
		zone := r.Intn(len(resgen.Zones))
		if hi == 0 {
			zone = 0
		}
		hd := hostData{name: name}
		seen := map[resgen.Key]bool{}
		n := r.Intn(8)
		for i := 0; i < n; i++ {
			row := results.Row{Labels: results.Labels{Iface: []string{"eth0", "eth1"}[r.Intn(2)], Hostname: name, HostID: resgen.HostID(name)}, Attributes: attrs[r.Intn(nAttrs)]}
			sec := int64(0)
			if timeQuery {
				sec = instants[r.Intn(len(instants))]
				row.Labels.Timestamp = resgen.InZone(sec, zone)
			}
			k := resgen.KeyOf(row)
			if seen[k] {
				continue
			}
			seen[k] = true
			row.Counters = resgen.RandCounters(r, ties)
			hd.rows = append(hd.rows, row)
			seenAcross[ak{row.Attributes, sec}]++
		}
		hds = append(hds, hd)
	}
	for _, n := range seenAcross {
		if n > 1 {
			crossTies = true
		}
	}
	qtype := "sip,dip,dport,proto"
	if timeQuery {
		qtype = "time," + qtype
	}
	runOnce := func(limit uint64) (results.Rows, *query.Statement, bool) {
		sq := &scriptedQuerier{byHost: map[string]*results.Result{}}
		for _, hd := range hds {
			sq.byHost[hd.name] = hostResult(hd)
		}
		perm := r.Perm(len(hds))
		for _, i := range perm {
			sq.order = append(sq.order, hds[i].name)
		}
		rm := hosts.NewResolverMap()
		rm.Set("string", listResolver{})
		a := argsFor(cb, qtype, limit)
		a.QueryHosts = strings.Join(names, ",")
		stmt, err := a.Prepare()
		if err != nil {
			c.Violatef("prepare_error", "Args.Prepare(%s): %v", a.ToJSONString(), err)
			return nil, nil, false
		}
		if !stmtMatches(c, a, stmt, requested(cb, timeQuery)) {
			return nil, nil, false
		}
		c.Note("distributed run %s hosts=%v order=%v", a.ToJSONString(), names, sq.order)
		res, err := gqdist.NewQueryRunner(rm, sq).Run(context.Background(), a)
		if err != nil {
			c.Violatef("distributed_run_error", "QueryRunner.Run(%s): %v", a.ToJSONString(), err)
			return nil, nil, false
		}
		return res.Rows, stmt, true
	}
	describe := func() string {
		var sb strings.Builder
		for _, hd := range hds {
			fmt.Fprintf(&sb, "%s=%s ", hd.name, resgen.RowsString(hd.rows, 8))
		}
		return sb.String()
	}
	full, _, ok := runOnce(math.MaxUint32)
	if !ok {
		return
	}
	eff := requested(cb, timeQuery)
	c.Count("dist_runs", 1)
	if crossTies {
		c.Count("dist_runs_with_cross_host_ties", 1)
	}
	total := 0
	for _, hd := range hds {
		total += len(hd.rows)
	}
	fullIDs := resgen.Idents(full)
	if len(full) != total {
		c.Violatef("distributed_rows_lost", "%s: %d rows delivered by the hosts, %d in the final result; hosts: %s", eff, total, len(full), describe())
		return
	}
	if msg := checkSorted(fullIDs, eff); msg != "" {
		c.Violatef("not_sorted|distributed", "%s: %s; hosts: %s", eff, msg, describe())
		return
	}
	for rep := 0; rep < 3; rep++ {
		again, _, ok := runOnce(math.MaxUint32)
		if !ok {
			return
		}
		if at := equalIdents(fullIDs, resgen.Idents(again)); at != -1 {
			var all results.Rows
			for _, hd := range hds {
				all = append(all, hd.rows...)
			}
			cls := zoneClass(all)
			// shrink: two rows of two hosts
			min := ""
			saved := hds
		shrink:
			for i := range all {
				for j := i + 1; j < len(all); j++ {
					if all[i].Labels.Hostname == all[j].Labels.Hostname {
						continue
					}
					hds = []hostData{{all[i].Labels.Hostname, results.Rows{all[i]}}, {all[j].Labels.Hostname, results.Rows{all[j]}}}
					names = []string{all[i].Labels.Hostname, all[j].Labels.Hostname}
					first, _, ok := runOnce(math.MaxUint32)
					for k := 0; ok && k < 12; k++ {
						nxt, _, ok2 := runOnce(math.MaxUint32)
						if ok2 && equalIdents(resgen.Idents(first), resgen.Idents(nxt)) != -1 {
							min = fmt.Sprintf(" MINIMAL: two hosts with one row each, %s and %s: one run returns %s, another %s.", resgen.RowString(all[i]), resgen.RowString(all[j]), resgen.RowsString(first, 2), resgen.RowsString(nxt, 2))
							break shrink
						}
					}
				}
			}
			hds = saved
			c.Violatef("distributed_order_differs_between_runs|"+cls, "%s query=%q: two runs over the same host results differ at position %d.%s run A=%s run B=%s; hosts: %s", eff, qtype, at, min,
				resgen.RowsString(full, 8), resgen.RowsString(again, 8), describe())
			return
		}
	}
	if len(full) >= 2 {
		n := 1 + r.Intn(len(full)-1)
		lim, _, ok := runOnce(uint64(n))
		if !ok {
			return
		}
		c.Count("dist_limit_checks_cutting", 1)
		if at := equalIdents(fullIDs[:n], resgen.Idents(lim)); at != -1 {
			c.Violatef("limit_not_prefix|distributed", "%s query=%q limit=%d: limited result %s is not the first %d rows of the unlimited result %s; hosts: %s", eff, qtype, n,
				resgen.RowsString(lim, 12), n, resgen.RowsString(full, 12), describe())
		}
	}
}

// checkStreaming drives RunStreaming: every partial result is capped at 100 rows (and at num_results) and must
// be the first rows of the order of everything merged so far; the final result honours num_results only.
func checkStreaming(c *fw.Case, r *rand.Rand) {
	cb := allCombos[r.Intn(len(allCombos))]
	timeQuery := r.Intn(3) == 0
	nHosts := 2 + r.Intn(3)
	names := []string{"hostA", "hostB", "hostC", "hostD"}[:nHosts]
	base := 1_000_080_000 + 300*r.Int63n(1_000_000)
	var hds []hostData
	for hi, name := range names {
		zone := r.Intn(len(resgen.Zones))
		if hi == 0 {
			zone = 0
		}
		hd := hostData{name: name}
		seen := map[resgen.Key]bool{}
		n := 40 + r.Intn(50)
		for i := 0; i < n; i++ {
			row := results.Row{Labels: results.Labels{Iface: []string{"eth0", "eth1"}[r.Intn(2)], Hostname: name, HostID: resgen.HostID(name)},
				Attributes: results.Attributes{SrcIP: resgen.V4[r.Intn(len(resgen.V4))], DstPort: uint16(r.Intn(40))}}
			if timeQuery {
				row.Labels.Timestamp = resgen.InZone(base+300*r.Int63n(4), zone)
			}
			k := resgen.KeyOf(row)
			if seen[k] {
				continue
			}
			seen[k] = true
			row.Counters = resgen.RandCounters(r, true)
			hd.rows = append(hd.rows, row)
		}
		hds = append(hds, hd)
	}
	qtype := "sip,dport"
	if timeQuery {
		qtype = "time," + qtype
	}
	limit := uint64(math.MaxUint32)
	if r.Intn(2) == 0 {
		limit = uint64(5 + r.Intn(150))
	}
	order := r.Perm(nHosts)
	run := func(k int, lim uint64, streaming bool) (final results.Rows, partials []results.Rows, ok bool) {
		sq := &scriptedQuerier{byHost: map[string]*results.Result{}}
		var hostNames []string
		for _, i := range order[:k] {
			sq.byHost[hds[i].name] = hostResult(hds[i])
			sq.order = append(sq.order, hds[i].name)
			hostNames = append(hostNames, hds[i].name)
		}
		rm := hosts.NewResolverMap()
		rm.Set("string", listResolver{})
		a := argsFor(cb, qtype, lim)
		a.QueryHosts = strings.Join(hostNames, ",")
		qr := gqdist.NewQueryRunner(rm, sq)
		c.Note("distributed streaming=%v %s order=%v", streaming, a.ToJSONString(), sq.order)
		var res *results.Result
		var err error
		if streaming {
			res, err = qr.RunStreaming(context.Background(), a, sse.Sender(func(m sse.Message) error {
				if pr, isPartial := m.Data.(*api.PartialResult); isPartial && pr.Result != nil {
					partials = append(partials, append(results.Rows(nil), pr.Rows...))
				}
				return nil
			}))
		} else {
			res, err = qr.Run(context.Background(), a)
		}
		if err != nil {
			c.Violatef("distributed_run_error", "QueryRunner run(%s): %v", a.ToJSONString(), err)
			return nil, nil, false
		}
		return res.Rows, partials, true
	}
	final, partials, ok := run(nHosts, limit, true)
	if !ok {
		return
	}
	c.Count("dist_streaming_runs", 1)
	if len(partials) != nHosts {
		c.Count("dist_streaming_unexpected_partial_count", 1)
		return
	}
	eff := requested(cb, timeQuery)
	for k := 1; k <= nHosts; k++ {
		ref, _, ok := run(k, math.MaxUint32, false)
		if !ok {
			return
		}
		refIDs := resgen.Idents(ref)
		want := refIDs
		capAt := min(limit, 100)
		if uint64(len(want)) > capAt {
			want = want[:capAt]
			c.Count("dist_streaming_partials_cut", 1)
		}
		if at := equalIdents(want, resgen.Idents(partials[k-1])); at != -1 {
			c.Violatef("limit_not_prefix|streaming_partial", "%s query=%q num_results=%d: partial result %d (%d rows) is not the first %d rows of the order of the %d rows merged so far (first difference at %d): partial=%s expected=%s",
				eff, qtype, limit, k, len(partials[k-1]), len(want), len(ref), at, resgen.RowsString(partials[k-1], 6), resgen.RowsString(ref, 6))
			return
		}
		if k == nHosts {
			wantFinal := refIDs
			if uint64(len(wantFinal)) > limit {
				wantFinal = wantFinal[:limit]
			}
			if at := equalIdents(wantFinal, resgen.Idents(final)); at != -1 {
				c.Violatef("limit_not_prefix|streaming_final", "%s query=%q num_results=%d: final streaming result (%d rows) is not the first %d rows of the unlimited result (%d rows), first difference at %d", eff, qtype, limit, len(final), len(wantFinal), len(ref), at)
				return
			}
		}
	}
}

// ---- (d) local engine ----------------------------------------------------------------------------

func checkEngine(c *fw.Case, r *rand.Rand) {
	db := gen.RandRefDB(r, gen.DBOpts{Flow: gen.FlowOpts{V6Prob: 0.4, ZeroProb: 0.05}, OffGrid: false})
	dbPath := c.Tmp + "/db"
	if err := db.Write(dbPath, encoders.EncoderTypeLZ4, 0); err != nil {
		c.Inconclusive("writing generated DB failed: %v", err)
		return
	}
	tss := db.AllTimestamps()
	for _, cb := range allCombos {
		if r.Intn(3) != 0 {
			continue
		}
		qtype := []string{"sip,dip", "dport,proto", "sip", "time,proto", "time,iface,dport", "iface,dip,proto"}[r.Intn(6)]
		a := argsFor(cb, qtype, math.MaxUint32)
		a.First, a.Last = fmt.Sprint(tss[0]-1000), fmt.Sprint(tss[len(tss)-1]+1000)
		a.MaxMemPct = 90
		stmt, err := a.Prepare()
		if err != nil {
			c.Violatef("prepare_error", "Args.Prepare(%s): %v", a.ToJSONString(), err)
			return
		}
		eff := requested(cb, strings.HasPrefix(qtype, "time"))
		if !stmtMatches(c, a, stmt, eff) {
			return
		}
		c.Note("engine query %s", a.ToJSONString())
		res, err, pmsg := eng.Run(dbPath, a)
		if pmsg != "" || err != nil {
			c.Violatef("engine_error", "query %s: err=%v panic=%s", a.ToJSONString(), err, pmsg)
			return
		}
		c.Count("engine_queries", 1)
		c.Count("engine_rows", len(res.Rows))
		ids := resgen.Idents(res.Rows)
		if msg := checkSorted(ids, eff); msg != "" {
			c.Violatef("not_sorted|engine", "query %s: %s", a.ToJSONString(), msg)
			return
		}
		// Out of scope here (C08's group_split): the engine can return two rows for one (labels, attributes)
		// group (an IPv6 address with 12 trailing zero bytes is rendered as IPv4). Such rows cannot be ordered
		// by labels and attributes, so the permutation check is skipped for those results.
		dupKeys := false
		seenK := map[resgen.Key]bool{}
		for _, id := range ids {
			if seenK[id.Key] {
				dupKeys = true
			}
			seenK[id.Key] = true
		}
		if dupKeys {
			c.Count("engine_results_with_split_groups_skipped", 1)
			continue
		}
		// the engine's order must be the order any other input order sorts to
		sh := shuffled(r, res.Rows)
		results.By(stmt.SortBy, stmt.Direction, stmt.SortAscending).Sort(sh)
		if at := equalIdents(ids, resgen.Idents(sh)); at != -1 {
			lo, hi := max(at-1, 0), min(at+3, len(sh))
			c.Violatef("order_depends_on_input_order|engine", "query %s: engine order and re-sorted shuffled rows differ at %d.%s engine[%d:%d]=%s vs resorted[%d:%d]=%s", a.ToJSONString(), at, witness2(res.Rows, eff), lo, hi, resgen.RowsString(res.Rows[lo:hi], 10), lo, hi, resgen.RowsString(sh[lo:hi], 10))
			return
		}
		if len(res.Rows) >= 2 {
			n := 1 + r.Intn(len(res.Rows)-1)
			a2 := *a
			a2.NumResults = uint64(n)
			st2, err := a2.Prepare()
			if err != nil {
				c.Violatef("prepare_error", "Args.Prepare(%s): %v", a2.ToJSONString(), err)
				return
			}
			res2, err, pmsg := eng.Run(dbPath, &a2)
			if pmsg != "" || err != nil {
				c.Violatef("engine_error", "query %s: err=%v panic=%s", a2.ToJSONString(), err, pmsg)
				return
			}
			if err := st2.PostProcess(context.Background(), res2); err != nil {
				c.Violatef("postprocess_error", "%v", err)
				return
			}
			c.Count("limit_checks", 1)
			c.Count("limit_checks_cutting", 1)
			if at := equalIdents(ids[:n], resgen.Idents(res2.Rows)); at != -1 {
				c.Violatef("limit_not_prefix|engine", "query %s: limited rows %s are not the first %d of %s", a2.ToJSONString(), resgen.RowsString(res2.Rows, 10), n, resgen.RowsString(res.Rows, 10))
				return
			}
		}
	}
}

func run(c *fw.Case) {
	r := c.Rng
	eng.QuietLogs(nil)
	zones := []string{"UTC", "Europe/Zurich", "America/Los_Angeles", "Asia/Tehran", "Australia/Lord_Howe"}
	if loc, err := time.LoadLocation(zones[c.Idx%len(zones)]); err == nil {
		time.Local = loc
	}
	nSets, perms, nDist := 32, 6, 30
	if c.Tier == "thorough" {
		nSets, perms, nDist = 120, 20, 120
	}
	t0 := time.Now()
	var dSort, dLimit time.Duration
	for i := 0; i < nSets; i++ {
		rows, dup := genMultiset(r)
		t := time.Now()
		checkSortDirect(c, r, rows, dup, perms, i == 0)
		dSort += time.Since(t)
		t = time.Now()
		checkLimit(c, r, rows)
		dLimit += time.Since(t)
	}
	t1 := time.Now()
	for i := 0; i < nDist; i++ {
		checkDistributed(c, r)
		if i%10 == 0 {
			checkStreaming(c, r)
		}
	}
	t2 := time.Now()
	if c.Idx%8 == 0 {
		checkEngine(c, r)
	}
	c.Logf("timing (informational): sort %s limit %s dist %s engine %s total %s", dSort, dLimit, t2.Sub(t1), time.Since(t2), time.Since(t0))
}
