package c11
