// Package c11: query results do not depend on parallelism or memory mode, and queries end.
//
// Part A (in-process, also under the race detector): a seeded multi-day RefDB (up to ~200 day
// directories, i.e. several 32-directory workloads) is written by the production DBWriter; generated
// queries are executed by the real engine under every combination of worker count {1,2,3,4,8,16}
// (engine.VerifSetNumProcessingUnits) × low-memory {off,on}, each repeated under seeded GOMAXPROCS
// values {1,4,16} and with scheduler noise goroutines; every run must equal the reference run
// (1 worker, low-memory off) in rows, totals and hit count; the reference run must equal the
// independent query oracle.
//
// Part A' (shared runner): the queries of a case are additionally executed concurrently on ONE
// engine.QueryRunner (the API server serves all parallel requests through a single runner); every
// result must equal the query's own reference run.
//
// Part B' (termination with keepalives): a child process repeats a query over several hundred days with a
// tiny keepalive interval and an enabled log level on all CPUs; it must finish. If it does not, the
// verdict is state based: violation only if the runtime's goroutine dump shows a goroutine waiting for a
// mutex for two minutes or more while no goroutine with a goProbe frame is running or runnable.
//
// Part B (termination): databases with N tiny one-block days (N up to several thousand) are queried
// by a separate, un-hooked process pinned to one CPU (`taskset -c 0 <self> -role c11-query ...`, so
// runtime.NumCPU()==1 and the engine uses a single worker). The child must finish within a generous
// watchdog and its result must equal the oracle. A watchdog expiry alone is inconclusive; it is a
// violation only with the structural witness: three consecutive goroutine dumps (2× SIGUSR1, then
// SIGQUIT) all show a goroutine blocked in `chan send` inside (*DBWorkManager).CreateWorkerJobs while
// no worker goroutine (grabAndProcessWorkload) exists — workers are only started after
// CreateWorkerJobs returns, so that state can never change.
package c11

import (
	"bytes"
	"context"
	"encoding/json"
	"fmt"
	"os"
	"os/exec"
	"os/signal"
	"regexp"
	"runtime"
	"strconv"
	"strings"
	"sync"
	"sync/atomic"
	"syscall"
	"time"

	"github.com/els0r/goProbe/v4/pkg/goDB/encoder/encoders"
	"github.com/els0r/goProbe/v4/pkg/goDB/engine"
	"verifharness/checks/c08"
	"verifharness/eng"
	"verifharness/fw"
	"verifharness/gen"
	"verifharness/rdr"
	"verifharness/ref"
)

func nEquiv(tier, variant string) int {
	switch {
	case tier == "thorough" && variant == "race":
		return 24
	case tier == "thorough":
		return 120
	case variant == "race":
		return 4
	}
	return 16
}

// dayCounts are the sizes of the termination databases (default variant only).
func dayCounts(tier, variant string) []int {
	if variant != "default" {
		return nil
	}
	if tier == "thorough" {
		return []int{100, 2048, 2049, 2100, 5000}
	}
	return []int{300, 2049}
}

var workerCounts = []int{1, 2, 3, 4, 8, 16}

func init() {
	fw.Register(&fw.Check{
		ID:    "C11",
		Level: "exploration",
		Rule: "part A: case = one seeded RefDB (1-2 ifaces, up to 200 day directories) + generated queries (attribute sets, time, ranges, single-family conjunctive conditions, direction filters), each run under workers {1,2,3,4,8,16} x low-mem {off,on} x 2 repetitions with seeded GOMAXPROCS {1,4,16} and scheduler noise, compared with the 1-worker reference run and the query oracle; " +
			"non-trivial iff the query covers >= 33 day directories of one interface (>= 2 workloads), returns rows and runs with >= 2 workers; distinct by (db, query, config). " +
			"part B: one case per database size N (one-block days), queried by an un-hooked child process pinned to one CPU with a watchdog and goroutine-dump witness.",
		Assumptions: []string{
			"conditions are restricted to conjunctions of single-family `=` address leaves and port/protocol trees (other shapes hit defects owned by C08/C09 identically in every configuration)",
			"a watchdog expiry without the producer-blocked/no-consumer witness is reported as inconclusive, never as a violation",
			"block timestamps >= 1000080000 (10-digit day directories)",
		},
		NumCases: func(tier, variant string) int {
			return nEquiv(tier, variant) + len(dayCounts(tier, variant)) + keepaliveCases(tier, variant)
		},
		Variants: func(tier string) []string { return []string{"default", "race"} },
		Run:      run,
		Require: []string{"shared_runner_concurrent_queries", "config_runs", "config_runs_nontrivial", "runs_lowmem", "runs_workers_16", "runs_gomaxprocs_1", "queries_multi_workload",
			"termination_children", "termination_days_over_channel_capacity", "keepalive_queries_finished"},
		CaseTimeout: 400 * time.Second,
	})
	fw.RegisterRole("c11-query", roleQuery)
}

// keepaliveCases is the number of keepalive-termination cases (default variant only).
func keepaliveCases(tier, variant string) int {
	if variant != "default" {
		return 0
	}
	if tier == "thorough" {
		return 6
	}
	return 2
}

func run(c *fw.Case) {
	ne := nEquiv(c.Tier, c.Variant)
	if c.Idx < ne {
		runEquiv(c)
		return
	}
	nd := len(dayCounts(c.Tier, c.Variant))
	if c.Idx < ne+nd {
		runTermination(c, dayCounts(c.Tier, c.Variant)[c.Idx-ne])
		return
	}
	runKeepalive(c)
}

// ---------------------------------------------------------------------------------------------
// Part A

type config struct {
	Workers    int
	LowMem     bool
	GoMaxProcs int
	Noise      int
}

func (cf config) String() string {
	return fmt.Sprintf("workers=%d lowmem=%v GOMAXPROCS=%d noise=%d", cf.Workers, cf.LowMem, cf.GoMaxProcs, cf.Noise)
}

// withNoise runs f while n goroutines keep the scheduler busy (yielding constantly).
func withNoise(n int, f func()) {
	var stop atomic.Bool
	var wg sync.WaitGroup
	for i := 0; i < n; i++ {
		wg.Add(1)
		go func(i int) {
			defer wg.Done()
			x := uint64(i)
			for !stop.Load() {
				for k := 0; k < 200; k++ {
					x = x*6364136223846793005 + 1442695040888963407
				}
				runtime.Gosched()
			}
			_ = x
		}(i)
	}
	f()
	stop.Store(true)
	wg.Wait()
}

func runConfig(c *fw.Case, dbPath string, q c08.Query, cf config) (rdr.Canon, bool) {
	prevW := engine.VerifSetNumProcessingUnits(cf.Workers)
	prevP := runtime.GOMAXPROCS(cf.GoMaxProcs)
	defer func() {
		engine.VerifSetNumProcessingUnits(prevW)
		runtime.GOMAXPROCS(prevP)
	}()
	a := eng.Args(q.Type, q.Ifaces, q.Cond, q.Spec.First, q.Spec.Last)
	a.LowMem = cf.LowMem
	c.Note("%s | %s", q.Describe(), cf)
	var (
		canon rdr.Canon
		ok    bool
	)
	withNoise(cf.Noise, func() {
		res, err, pmsg := eng.Run(dbPath, a)
		switch {
		case pmsg != "":
			c.Violatef("panic|"+c08.CondClass(q), "%s | %s: panic: %s", q.Describe(), cf, firstLines(pmsg, 14))
		case err != nil:
			c.Violatef("query_error|"+c08.CondClass(q), "%s | %s: error: %v", q.Describe(), cf, err)
		default:
			canon, ok = rdr.Canonical(res, q.Spec), true
		}
	})
	return canon, ok
}

func runEquiv(c *fw.Case) {
	r := c.Rng
	maxDays := []int{3, 40, 70, 130, 200}[r.Intn(5)]
	if c.Idx < 2 {
		maxDays = 200
	}
	db := gen.RandRefDB(r, gen.DBOpts{MaxIfaces: 2, MaxDays: maxDays, MaxBlocksDay: 2, MaxFlows: 6,
		Flow: gen.FlowOpts{V6Prob: 0.4, ZeroProb: 0.02, BigCounters: true}, OffGrid: r.Intn(2) == 0,
		BaseDay: gen.DayStart(gen.MinTS) + 86400*int64(1+r.Intn(9000))})
	rdr.Sanitize(db)
	dbPath := c.Tmp + "/db"
	enc := []encoders.Type{encoders.EncoderTypeLZ4, encoders.EncoderTypeZSTD, encoders.EncoderTypeNull}[r.Intn(3)]
	if err := db.Write(dbPath, enc, 0); err != nil {
		c.Violatef("write_error", "writing generated DB failed: %v", err)
		return
	}
	nq := 8
	if c.Tier == "thorough" {
		nq = 12
	}
	if c.Variant == "race" {
		nq = 4
	}
	type refRun struct {
		q     c08.Query
		canon rdr.Canon
	}
	var refs []refRun
	defer func() {
		runShared(c, dbPath, db.Summary(), len(refs), func(i int) (c08.Query, rdr.Canon) { return refs[i].q, refs[i].canon })
	}()
	for qi := 0; qi < nq; qi++ {
		q := rdr.SafeQuery(r, db, rdr.QueryOpts{FullRange: qi%2 == 0})
		// number of day directories per selected interface inside the range
		maxDirs := 0
		for _, name := range q.Spec.Ifaces {
			days := map[int64]bool{}
			for _, b := range db.Iface(name).Blocks {
				if b.TS >= q.Spec.First && b.TS <= q.Spec.Last {
					days[gen.DayStart(b.TS)] = true
				}
			}
			if len(days) > maxDirs {
				maxDirs = len(days)
			}
		}
		multi := maxDirs > 32
		c.Count("queries", 1)
		if multi {
			c.Count("queries_multi_workload", 1)
		}
		refCf := config{Workers: 1, LowMem: false, GoMaxProcs: 4}
		refCanon, ok := runConfig(c, dbPath, q, refCf)
		if !ok {
			continue
		}
		want := ref.Query(db, q.Spec)
		oracle := rdr.Canon{Rows: rdr.RowStrings(want), Totals: want.Totals(), Hits: len(want)}
		if refCanon.Dup != "" {
			c.Violatef("group_split|"+c08.CondClass(q), "%s | %s: two result rows share the group key %s", q.Describe(), refCf, refCanon.Dup)
		}
		if d := rdr.DiffCanon(oracle, refCanon); d != "" {
			c.Violatef("reference_run_vs_oracle|"+c08.CondClass(q), "db{%s} %s | %s: oracle vs result: %s", db.Summary(), q.Describe(), refCf, d)
			continue
		}
		refs = append(refs, refRun{q, refCanon})
		if qi == 0 {
			c.Sample(map[string]any{"db": db.Summary(), "encoder": enc.String(), "query": q.Describe(), "rows": len(refCanon.Rows), "day_dirs_in_range": maxDirs,
				"configs": "workers{1,2,3,4,8,16} x lowmem{off,on} x 2 reps (seeded GOMAXPROCS{1,4,16}, noise goroutines)"})
		}
		for _, w := range workerCounts {
			for _, lm := range []bool{false, true} {
				for rep := 0; rep < 2; rep++ {
					cf := config{Workers: w, LowMem: lm, GoMaxProcs: []int{1, 4, 16}[r.Intn(3)]}
					if r.Intn(2) == 0 {
						cf.Noise = 1 + r.Intn(6)
					}
					got, ok := runConfig(c, dbPath, q, cf)
					c.Count("config_runs", 1)
					if lm {
						c.Count("runs_lowmem", 1)
					}
					c.Count(fmt.Sprintf("runs_workers_%d", w), 1)
					c.Count(fmt.Sprintf("runs_gomaxprocs_%d", cf.GoMaxProcs), 1)
					if multi && len(refCanon.Rows) > 0 && w >= 2 {
						c.Count("config_runs_nontrivial", 1)
						c.Nontrivial(db.Summary() + q.Describe() + cf.String())
					}
					if !ok {
						continue
					}
					if got.Dup != "" {
						c.Violatef("group_split|"+c08.CondClass(q), "%s | %s: two result rows share the group key %s", q.Describe(), cf, got.Dup)
					}
					if d := rdr.DiffCanon(refCanon, got); d != "" {
						feat := "workers"
						if lm {
							feat = "lowmem"
						}
						c.Violatef("differs_from_reference_run|"+feat, "db{%s} %s: [%s] vs [%s]: %s", db.Summary(), q.Describe(), refCf, cf, d)
					}
				}
			}
		}
	}
}

// runShared executes the n queries of a case concurrently on ONE engine.QueryRunner, the way the API
// server serves parallel requests (it holds a single runner), several rounds with different worker
// counts; every result must equal the query's own single-threaded reference run.
func runShared(c *fw.Case, dbPath, dbSummary string, n int, get func(i int) (c08.Query, rdr.Canon)) {
	if n < 2 {
		return
	}
	ensure := func() { eng.Run(dbPath, eng.Args("sip", "eth0", "", 1, 2)) } // log setup as in eng.Run
	ensure()
	runner := engine.NewQueryRunner(dbPath)
	for round := 0; round < 3; round++ {
		prevW := engine.VerifSetNumProcessingUnits([]int{1, 4, 16}[round])
		type out struct {
			i     int
			canon rdr.Canon
			err   error
			pmsg  string
		}
		res := make(chan out, n)
		var wg sync.WaitGroup
		for i := 0; i < n; i++ {
			i := i
			q, _ := get(i)
			a := eng.Args(q.Type, q.Ifaces, q.Cond, q.Spec.First, q.Spec.Last)
			a.LowMem = (i+round)%2 == 1
			wg.Add(1)
			go func() {
				defer wg.Done()
				o := out{i: i}
				defer func() {
					if r := recover(); r != nil {
						o.pmsg = fmt.Sprint(r)
					}
					res <- o
				}()
				r, err := runner.Run(context.Background(), a)
				if err != nil {
					o.err = err
					return
				}
				o.canon = rdr.Canonical(r, q.Spec)
			}()
		}
		wg.Wait()
		close(res)
		engine.VerifSetNumProcessingUnits(prevW)
		for o := range res {
			q, want := get(o.i)
			c.Count("shared_runner_concurrent_queries", 1)
			switch {
			case o.pmsg != "":
				c.Violatef("shared_runner|panic", "db{%s} %s run concurrently with %d other queries on one QueryRunner: panic: %s", dbSummary, q.Describe(), n-1, firstLines(o.pmsg, 6))
			case o.err != nil:
				c.Violatef("shared_runner|query_error", "db{%s} %s run concurrently with %d other queries on one QueryRunner: error: %v", dbSummary, q.Describe(), n-1, o.err)
			default:
				if d := rdr.DiffCanon(want, o.canon); d != "" {
					c.Violatef("shared_runner|differs_from_reference_run", "db{%s} %s run concurrently with %d other (different) queries on one shared QueryRunner differs from its own single run: %s", dbSummary, q.Describe(), n-1, d)
				}
			}
		}
	}
}

// ---------------------------------------------------------------------------------------------
// Part B

type childOut struct {
	NumCPU int      `json:"num_cpu"`
	Rows   []string `json:"rows"`
	Totals ref.Ctr  `json:"totals"`
	Hits   int      `json:"hits"`
	Err    string   `json:"err"`
	Panic  string   `json:"panic"`
}

func termSpec(first, last int64) ref.QuerySpec {
	return ref.QuerySpec{Attrs: []string{"sip", "dip"}, Ifaces: []string{"eth0"}, First: first, Last: last}
}

// roleQuery is the child: `-role c11-query <db> <first> <last>`; runs one query un-hooked.
func roleQuery(args []string) int {
	if len(args) != 3 {
		fmt.Fprintln(os.Stderr, "usage: -role c11-query db first last")
		return 3
	}
	first, _ := strconv.ParseInt(args[1], 10, 64)
	last, _ := strconv.ParseInt(args[2], 10, 64)
	// non-fatal goroutine dumps on SIGUSR1
	sig := make(chan os.Signal, 4)
	signal.Notify(sig, syscall.SIGUSR1)
	go func() {
		n := 0
		for range sig {
			n++
			buf := make([]byte, 8<<20)
			buf = buf[:runtime.Stack(buf, true)]
			fmt.Fprintf(os.Stderr, "\n=== VERIF GOROUTINE DUMP %d ===\n%s\n=== END DUMP %d ===\n", n, buf, n)
		}
	}()
	out := childOut{NumCPU: runtime.NumCPU()}
	spec := termSpec(first, last)
	a := eng.Args("sip,dip", "eth0", "", first, last)
	if ka := os.Getenv("C11_KEEPALIVE"); ka != "" {
		// keepalive variant: the same query repeatedly with keepalive callbacks enabled (log level as
		// set through VERIF_DEBUG_LOG by the parent, so that the callbacks really format their output)
		d, _ := time.ParseDuration(ka)
		n, _ := strconv.Atoi(os.Getenv("C11_REPEAT"))
		for i := 0; i < n; i++ {
			a := eng.Args("sip,dip", "eth0", "", first, last)
			a.KeepAlive = d
			a.LowMem = i%2 == 1
			if _, err, pmsg := eng.Run(args[0], a); err != nil || pmsg != "" {
				out.Err = fmt.Sprintf("keepalive query %d: %v %s", i, err, firstLines(pmsg, 6))
				break
			}
			fmt.Fprintf(os.Stderr, "keepalive query %d done\n", i)
		}
		a.KeepAlive = d
	}
	res, err, pmsg := eng.Run(args[0], a)
	switch {
	case pmsg != "":
		out.Panic = pmsg
	case err != nil:
		out.Err = err.Error()
	default:
		cn := rdr.Canonical(res, spec)
		out.Rows, out.Totals, out.Hits = cn.Rows, cn.Totals, cn.Hits
	}
	b, _ := json.Marshal(out)
	fmt.Println(string(b))
	return 0
}

var (
	consumerRe = regexp.MustCompile(`grabAndProcessWorkload`)
	minutesRe  = regexp.MustCompile(`^goroutine \d+[^\[]*\[([^\],]+), (\d+) minutes`) // the SIGQUIT dump adds "gp=… m=…" before the state
)

// blockedForMinutes is the deadlock witness of the keepalive cases, read off the runtime's own
// goroutine dump: (a) at least one goroutine with a goProbe frame has been waiting for a sync.Mutex /
// sync.RWMutex for two minutes or more (the runtime annotates parked goroutines with "N minutes"), and
// (b) no goroutine with a goProbe frame is running, runnable or in a system call — all of them are
// parked (lock, channel, wait group, select on a timer). A goroutine that is merely starved is
// "runnable", so (b) excludes a slow machine; a query over such a database needs well under a second
// of CPU, so a lock that nobody has released for minutes while nothing runs is a deadlock.
func blockedForMinutes(dump string) (witness bool, summary string) {
	var lines []string
	nGoProbe, lockWait := 0, false
	stateRe := regexp.MustCompile(`^goroutine \d+[^\[]*\[([^\],]+)`)
	for _, g := range strings.Split(dump, "\n\n") {
		g = strings.TrimSpace(g)
		if !strings.HasPrefix(g, "goroutine ") || !strings.Contains(g, "github.com/els0r/goProbe") {
			continue
		}
		head, _, _ := strings.Cut(g, "\n")
		nGoProbe++
		st := stateRe.FindStringSubmatch(head)
		if st == nil {
			return false, "unparsable goroutine header: " + head
		}
		switch state := st[1]; {
		case state == "running", state == "runnable", state == "syscall", strings.HasPrefix(state, "GC "):
			return false, "goroutine not parked: " + head
		case strings.HasPrefix(state, "sync.RWMutex"), strings.HasPrefix(state, "sync.Mutex"):
			if m := minutesRe.FindStringSubmatch(head); m != nil {
				if n, _ := strconv.Atoi(m[2]); n >= 2 {
					lockWait = true
				}
			}
		}
		top := ""
		for _, l := range strings.Split(g, "\n") {
			if strings.HasPrefix(l, "github.com/els0r/goProbe") {
				top = strings.TrimSpace(l)
				break
			}
		}
		lines = append(lines, head+" "+top)
	}
	if !lockWait {
		return false, "no goroutine has been waiting for a mutex for two minutes or more"
	}
	return nGoProbe >= 2, strings.Join(lines, "\n")
}

// runKeepalive: termination with keepalives enabled. A database of several hundred one-block days
// (>= 10 workloads) is queried repeatedly by a child process with a tiny keepalive interval and an
// enabled log level, multi-threaded (no CPU pinning), so that keepalive callbacks, workers and the
// aggregator interleave. The child must finish; the verdict on a child that does not is state based.
func runKeepalive(c *fw.Case) {
	days := 320 + 32*c.Rng.Intn(12)
	db := &gen.RefDB{Ifaces: []gen.IfaceData{{Name: "eth0"}}}
	base := gen.DayStart(gen.MinTS) + 86400*int64(10+c.Rng.Intn(1000))
	for d := 0; d < days; d++ {
		f := gen.Flow{SIP: gen.V4Addrs[d%len(gen.V4Addrs)], DIP: gen.V4Addrs[(d/7)%len(gen.V4Addrs)], Dport: 443, Proto: 6,
			BR: uint64(100 + d), BS: uint64(3 * d), PR: uint64(1 + d%5), PS: uint64(d % 3)}
		db.Ifaces[0].Blocks = append(db.Ifaces[0].Blocks, gen.Block{TS: base + int64(d)*86400 + 300*int64(1+d%280), Flows: []gen.Flow{f}})
	}
	dbPath := c.Tmp + "/db"
	for i, b := range db.Ifaces[0].Blocks {
		if err := gen.WriteBlock(dbPath, "eth0", b, encoders.EncoderTypeLZ4, 0); err != nil {
			c.Violatef("write_error", "writing day %d failed: %v", i, err)
			return
		}
	}
	first, last := db.Ifaces[0].Blocks[0].TS-1000, db.Ifaces[0].Blocks[days-1].TS+1000
	want := ref.Query(db, termSpec(first, last))
	oracle := rdr.Canon{Rows: rdr.RowStrings(want), Totals: want.Totals(), Hits: len(want)}
	self, err := os.Executable()
	if err != nil {
		c.Inconclusive("os.Executable: %v", err)
		return
	}
	ka := []string{"1us", "20us", "1ms"}[c.Rng.Intn(3)]
	repeat := 25
	cmd := exec.Command(self, "-role", "c11-query", dbPath, strconv.FormatInt(first, 10), strconv.FormatInt(last, 10))
	cmd.Env = append(os.Environ(), "GOTRACEBACK=all", "VERIF_DEBUG_LOG=1", "C11_KEEPALIVE="+ka, "C11_REPEAT="+strconv.Itoa(repeat))
	var stdout bytes.Buffer
	errPath := c.Tmp + "/child.stderr"
	ef, _ := os.Create(errPath)
	cmd.Stdout, cmd.Stderr = &stdout, ef
	if err := cmd.Start(); err != nil {
		ef.Close()
		c.Inconclusive("cannot start child: %v", err)
		return
	}
	defer ef.Close()
	desc := fmt.Sprintf("%d one-block day directories (%d workloads), %d+1 queries sip,dip over the whole range with keepalive %s and an enabled log level", days, (days+31)/32, repeat, ka)
	done := make(chan error, 1)
	go func() { done <- cmd.Wait() }()
	var werr error
	finished := false
	// the runtime only says "N minutes" once a goroutine has been parked for a full minute: probe the
	// child after 100, 200 and 400 s (generous: a correct run takes seconds)
	for i := 0; i < 400 && !finished; i++ {
		select {
		case werr = <-done:
			finished = true
		case <-time.After(time.Second):
		}
		if finished || (i+1 != 100 && i+1 != 200 && i+1 != 400) {
			continue
		}
		progress, _ := os.ReadFile(errPath)
		c.Note("keepalive child still running after %d s (%d queries done)", i+1, strings.Count(string(progress), "keepalive query"))
		if i+1 < 400 {
			// a cheap look first: a non-fatal dump
			cmd.Process.Signal(syscall.SIGUSR1)
			time.Sleep(3 * time.Second)
			all, _ := os.ReadFile(errPath)
			if j := strings.LastIndex(string(all), "=== VERIF GOROUTINE DUMP"); j < 0 {
				continue
			} else if ok, _ := blockedForMinutes(string(all)[j:]); !ok {
				continue
			}
		}
		cmd.Process.Signal(syscall.SIGQUIT)
		select {
		case <-done:
		case <-time.After(15 * time.Second):
			cmd.Process.Kill()
			<-done
		}
		all, _ := os.ReadFile(errPath)
		dump := string(all)
		if j := strings.Index(dump, "SIGQUIT: quit"); j >= 0 {
			dump = dump[j:]
		}
		nDone := strings.Count(string(all), "keepalive query")
		if ok, sum := blockedForMinutes(dump); ok {
			c.Violatef("no_termination|mutex_wait_for_minutes_nothing_runnable", "%s: no result after %d s (%d queries had finished); in the goroutine dump a goroutine has been waiting for a mutex for two minutes or more and no goroutine with a goProbe frame is running or runnable:\n%s", desc, i+1, nDone, sum)
		} else {
			c.Inconclusive("%s: child still running after %d s (%d queries done) without the all-blocked witness (%s)", desc, i+1, nDone, firstLines(sum, 3))
		}
		return
	}
	if !finished {
		cmd.Process.Kill()
		<-done
		c.Inconclusive("%s: child did not finish", desc)
		return
	}
	var out childOut
	if werr != nil || json.Unmarshal(bytes.TrimSpace(stdout.Bytes()), &out) != nil {
		b, _ := os.ReadFile(errPath)
		kind := "child_died"
		if bytes.Contains(b, []byte("panic:")) || bytes.Contains(b, []byte("fatal error:")) {
			kind = "child_crashed"
		}
		c.Violatef(kind+"|keepalive", "%s: child failed (%v): stdout %q stderr tail: %s", desc, werr, lastBytes(stdout.String(), 300), lastBytes(string(b), 3000))
		return
	}
	if out.Err != "" || out.Panic != "" {
		c.Violatef("query_error|keepalive", "%s: %s %s", desc, out.Err, firstLines(out.Panic, 8))
		return
	}
	c.Count("keepalive_queries_finished", repeat+1)
	c.Nontrivial(fmt.Sprintf("keepalive/%d/%s", days, ka))
	if d := rdr.DiffCanon(oracle, rdr.Canon{Rows: out.Rows, Totals: out.Totals, Hits: out.Hits}); d != "" {
		c.Violatef("keepalive_result_vs_oracle", "%s: %s", desc, d)
	}
}

// witnessIn reports whether a goroutine dump shows the producer blocked in a channel send inside
// CreateWorkerJobs and no worker goroutine.
func witnessIn(dump string) bool {
	// examine goroutine by goroutine so that the frames belong to the blocked goroutine
	found := false
	for _, g := range strings.Split(dump, "\n\n") {
		if !strings.HasPrefix(strings.TrimSpace(g), "goroutine ") {
			continue
		}
		if consumerRe.MatchString(g) {
			return false
		}
		head, _, _ := strings.Cut(strings.TrimSpace(g), "\n")
		if strings.Contains(head, "[chan send") && strings.Contains(g, "(*DBWorkManager).CreateWorkerJobs") {
			found = true
		}
	}
	return found
}

func runTermination(c *fw.Case, days int) {
	// N one-block days, one flow each; a few distinct (sip,dip) groups so the result is small
	db := &gen.RefDB{Ifaces: []gen.IfaceData{{Name: "eth0"}}}
	base := gen.DayStart(gen.MinTS) + 86400*int64(10+c.Rng.Intn(1000))
	for d := 0; d < days; d++ {
		f := gen.Flow{SIP: gen.V4Addrs[d%len(gen.V4Addrs)], DIP: gen.V4Addrs[(d/7)%len(gen.V4Addrs)], Dport: 443, Proto: 6,
			BR: uint64(100 + d), BS: uint64(3 * d), PR: uint64(1 + d%5), PS: uint64(d % 3)}
		db.Ifaces[0].Blocks = append(db.Ifaces[0].Blocks, gen.Block{TS: base + int64(d)*86400 + 300*int64(1+d%280), Flows: []gen.Flow{f}})
	}
	dbPath := c.Tmp + "/db"
	c.Note("writing %d one-block days", days)
	for i, b := range db.Ifaces[0].Blocks {
		if err := gen.WriteBlock(dbPath, "eth0", b, encoders.EncoderTypeLZ4, 0); err != nil {
			c.Violatef("write_error", "writing day %d failed: %v", i, err)
			return
		}
		if i%500 == 0 {
			c.Note("writing day %d/%d", i, days)
		}
	}
	first, last := db.Ifaces[0].Blocks[0].TS-1000, db.Ifaces[0].Blocks[days-1].TS+1000
	want := ref.Query(db, termSpec(first, last))
	oracle := rdr.Canon{Rows: rdr.RowStrings(want), Totals: want.Totals(), Hits: len(want)}

	self, err := os.Executable()
	if err != nil {
		c.Inconclusive("os.Executable: %v", err)
		return
	}
	cmd := exec.Command("taskset", "-c", "0", self, "-role", "c11-query", dbPath, strconv.FormatInt(first, 10), strconv.FormatInt(last, 10))
	cmd.Env = append(os.Environ(), "GOTRACEBACK=all")
	var stdout bytes.Buffer
	errPath := c.Tmp + "/child.stderr"
	ef, _ := os.Create(errPath)
	cmd.Stdout, cmd.Stderr = &stdout, ef
	if err := cmd.Start(); err != nil {
		ef.Close()
		c.Inconclusive("cannot start pinned child: %v", err)
		return
	}
	c.Count("termination_children", 1)
	if days > 2048 {
		c.Count("termination_days_over_channel_capacity", 1)
	}
	done := make(chan error, 1)
	go func() { done <- cmd.Wait() }()
	// watchdog: the query normally needs well under a second per thousand days; allow 120 s. The
	// structural witness is probed earlier (after 15, 40 and 80 s): because it describes a state that
	// can never change, seeing it in three consecutive dumps decides the case without waiting longer.
	const watchdog = 120
	var werr error
	finished := false
	desc := fmt.Sprintf("%d one-block day directories, query sip,dip over the whole range, child pinned to one CPU (1 worker, channel capacity 64 workloads x 32 directories = 2048)", days)
	readErr := func() string { b, _ := os.ReadFile(errPath); return string(b) }
	nDump := 0
	// softDump asks the child for a non-fatal goroutine dump and returns it ("" if none arrived).
	softDump := func() string {
		nDump++
		cmd.Process.Signal(syscall.SIGUSR1)
		s := fmt.Sprintf("=== VERIF GOROUTINE DUMP %d ===", nDump)
		e := fmt.Sprintf("=== END DUMP %d ===", nDump)
		for w := 0; w < 40; w++ {
			time.Sleep(250 * time.Millisecond)
			all := readErr()
			if i := strings.Index(all, s); i >= 0 {
				if j := strings.Index(all[i:], e); j >= 0 {
					return all[i : i+j]
				}
			}
		}
		return ""
	}
	// hardDump sends SIGQUIT and returns the runtime's goroutine dump.
	hardDump := func() string {
		cmd.Process.Signal(syscall.SIGQUIT)
		select {
		case <-done:
		case <-time.After(15 * time.Second):
			cmd.Process.Kill()
			<-done
		}
		all := readErr()
		if i := strings.Index(all, "SIGQUIT: quit"); i >= 0 {
			return all[i:]
		}
		return ""
	}
	for i := 0; i < watchdog && !finished; i++ {
		select {
		case werr = <-done:
			finished = true
		case <-time.After(time.Second):
			if i%10 == 9 {
				c.Note("pinned query over %d days running for %d s", days, i+1)
			}
		}
		if finished || (i+1 != 15 && i+1 != 40 && i+1 != 80) {
			continue
		}
		c.Note("probing for the deadlock witness after %d s", i+1)
		if !witnessIn(softDump()) {
			continue
		}
		time.Sleep(2 * time.Second)
		if !witnessIn(softDump()) {
			continue
		}
		time.Sleep(2 * time.Second)
		select {
		case werr = <-done:
			finished = true
			continue
		default:
		}
		d3 := hardDump()
		ef.Close()
		if witnessIn(d3) {
			c.Violatef("no_termination|producer_blocked_before_workers_start", "%s: no result after %d s; 3 consecutive goroutine dumps (2 s apart) show the producer blocked in chan send inside CreateWorkerJobs and no worker goroutine, a state that cannot change because workers are started only after CreateWorkerJobs returns:\n%s",
				desc, i+5, extractGoroutine(d3, "CreateWorkerJobs"))
		} else {
			c.Inconclusive("%s: witness seen in two dumps but not in the final one; stderr tail: %s", desc, lastBytes(readErr(), 3000))
		}
		return
	}
	if !finished {
		d := hardDump()
		ef.Close()
		c.Inconclusive("%s: watchdog (%d s) expired without the structural deadlock witness (witness in final dump: %v); stderr tail: %s", desc, watchdog, witnessIn(d), lastBytes(readErr(), 3000))
		return
	}
	ef.Close()
	var out childOut
	if werr != nil || json.Unmarshal(bytes.TrimSpace(stdout.Bytes()), &out) != nil {
		b, _ := os.ReadFile(errPath)
		kind := "child_died"
		if bytes.Contains(b, []byte("panic:")) || bytes.Contains(b, []byte("fatal error:")) {
			kind = "child_crashed"
		}
		c.Violatef(kind, "%s: pinned child failed (%v): stdout %q stderr tail: %s", desc, werr, lastBytes(stdout.String(), 300), lastBytes(string(b), 3000))
		return
	}
	switch {
	case out.NumCPU != 1:
		c.Inconclusive("taskset did not pin the child: runtime.NumCPU()=%d", out.NumCPU)
	case out.Panic != "":
		c.Violatef("panic|pinned_child", "%s: panic: %s", desc, firstLines(out.Panic, 14))
	case out.Err != "":
		c.Violatef("query_error|pinned_child", "%s: error: %s", desc, out.Err)
	default:
		got := rdr.Canon{Rows: out.Rows, Totals: out.Totals, Hits: out.Hits}
		if d := rdr.DiffCanon(oracle, got); d != "" {
			c.Violatef("pinned_child_vs_oracle", "%s: oracle vs result: %s", desc, d)
		}
		c.Count("termination_children_finished", 1)
		c.Nontrivial(fmt.Sprintf("termination|%d", days))
		c.Sample(map[string]any{"days": days, "pinned_cpus": out.NumCPU, "rows": len(out.Rows), "totals": out.Totals})
	}
}

func extractGoroutine(dump, frame string) string {
	for _, g := range strings.Split(dump, "\n\n") {
		if strings.Contains(g, frame) {
			return firstLines(strings.TrimSpace(g), 14)
		}
	}
	return firstLines(dump, 20)
}

func lastBytes(s string, n int) string {
	if len(s) > n {
		return "…" + s[len(s)-n:]
	}
	return s
}

func firstLines(s string, n int) string {
	l := strings.Split(s, "\n")
	if len(l) > n {
		l = l[:n]
	}
	return strings.Join(l, "\n")
}
