// Package c18: the flow hash map behaves as a map with additive updates.
//
// The real hashmap.Map / AggFlowMap is driven with seeded operation sequences (Set, SetOrUpdate,
// Merge, the AggFlowMap wrappers) and compared, after every operation while small and at every
// growth stage afterwards, with a Go map[string]Counters shadow: Len, Get of known and unknown keys,
// full iteration (every entry exactly once), MetaIter with and without filter, Flatten. All keys are
// handed over in one reused buffer that is overwritten right after each call.
package c18

import (
	"encoding/binary"
	"fmt"
	"math/rand"
	"reflect"
	"time"

	"github.com/els0r/goProbe/v4/pkg/types"
	"github.com/els0r/goProbe/v4/pkg/types/hashmap"
	"github.com/zeebo/xxh3"

	"verifharness/fw"
)

func init() {
	fw.Register(&fw.Check{
		ID:    "C18",
		Level: "exploration",
		Rule: "case = several seeded sequences on an AggFlowMap (primary map: 11/19-byte keys, secondary: 35/43-byte keys, optionally mixed widths with shared prefixes): " +
			"small (<=40 keys, <=250 ops, full check after every op), medium (up to 6500 keys, full iteration check after every op up to 1200/6000 entries, then at every growth-stage change, at quarter marks of the evacuation and every 997 ops), " +
			"large (30k quick / 200k thorough keys, stage-driven checks), and colliding-key sequences (keys forced into one bucket via the map's hash seed, long overflow chains). Ops: SetOrUpdate 70%, Set 15%, Merge of another map " +
			"(itself possibly mid-growth, into a destination possibly mid-growth) and the AggFlowMap wrappers; size hints {0,1,8,9,100,1000,n,2n}; counter values from {0,1,255,2^32-1,2^32,2^63,2^64-1,random}. " +
			"A sequence is non-trivial iff a full check ran while the table was growing; distinct by (key widths, hint class, bucket count at the check, growth kind, last operation).",
		Assumptions: []string{
			"single goroutine; no map modification during an iteration",
			"reuse after Clear/ClearFast, nil maps and self-merge are outside the statement and not exercised",
			"same-size growth is counted when seen but not required: without deletions it needs nOverflow >= nBuckets (>= 8 entries per bucket) while doubling already happens at 6.5 entries per bucket",
			"the hash seed is read by reflection only to construct colliding keys (inputs), never for the verdict",
		},
		NumCases: func(tier, variant string) int {
			if tier == "thorough" {
				if variant != "default" {
					return 32
				}
				return 240
			}
			return 48
		},
		Variants: func(tier string) []string {
			if tier == "thorough" {
				return []string{"default", "race"}
			}
			return []string{"default"}
		},
		Run:         run,
		CaseTimeout: 10 * time.Minute,
		Require: []string{"full_checks", "full_checks_while_growing", "iter_entries_compared", "get_known_checked", "get_unknown_checked", "merges", "merge_src_growing", "merge_dst_growing",
			"keybuf_poisoned_calls", "flatten_checks", "metaiter_filter_checks", "ops_set_overwrite", "ops_update_existing", "overflow_buckets_seen", "colliding_key_sequences", "keydata_arena_grown"},
		Env: func(tier, variant string) []string { return []string{"GOMAXPROCS=4"} },
	})
}

// ---------------------------------------------------------------------------------------------
// shadow model

type ent struct {
	val  types.Counters
	seen uint32
}

// stampCtr hands out fresh "seen" stamps for exactly-once checks.
var stampCtr uint32

func nextStamp() uint32 {
	stampCtr++
	return stampCtr
}

type model struct {
	name   string
	m      *hashmap.Map
	sh     map[string]*ent
	keys   []string // shadow keys in insertion order (deterministic sampling)
	lastOp string
	ops    int
	// growth bookkeeping
	lastNB      int
	lastGrowing bool
	lastQuarter int
	keyBytes    int
}

func newModel(name string, hint int, useNew bool) *model {
	var m *hashmap.Map
	if useNew {
		if hint == 0 {
			m = hashmap.New()
		} else {
			m = hashmap.New(hint)
		}
	} else {
		m = hashmap.NewHint(hint)
	}
	return &model{name: name, m: m, sh: map[string]*ent{}, lastOp: "init"}
}

var counterVals = []uint64{0, 1, 255, 1<<32 - 1, 1 << 32, 1 << 63, 1<<64 - 1}

func randCounter(r *rand.Rand) uint64 {
	if r.Intn(3) == 0 {
		return r.Uint64()
	}
	if r.Intn(2) == 0 {
		return uint64(r.Intn(1500))
	}
	return counterVals[r.Intn(len(counterVals))]
}

func randVal(r *rand.Rand) types.Counters {
	return types.Counters{BytesRcvd: randCounter(r), BytesSent: randCounter(r), PacketsRcvd: randCounter(r), PacketsSent: randCounter(r)}
}

// callKey copies key into the shared caller buffer and returns the slice handed to the map.
type callBuf struct {
	buf []byte
}

func (cb *callBuf) load(key []byte) []byte {
	if cap(cb.buf) < 64 {
		cb.buf = make([]byte, 64)
	}
	b := cb.buf[:len(key)]
	copy(b, key)
	return b
}

// poison overwrites the caller's buffer after the call returned.
func (cb *callBuf) poison(c *fw.Case, r *rand.Rand) {
	switch r.Intn(3) {
	case 0:
		for i := range cb.buf[:cap(cb.buf)] {
			cb.buf[:cap(cb.buf)][i] = 0xaa
		}
	case 1:
		for i := range cb.buf[:cap(cb.buf)] {
			cb.buf[:cap(cb.buf)][i] = 0
		}
	default:
		r.Read(cb.buf[:cap(cb.buf)])
	}
	c.Count("keybuf_poisoned_calls", 1)
}

func (mm *model) update(c *fw.Case, r *rand.Rand, cb *callBuf, key []byte, v types.Counters) {
	k := cb.load(key)
	mm.m.SetOrUpdate(k, v.BytesRcvd, v.BytesSent, v.PacketsRcvd, v.PacketsSent)
	cb.poison(c, r)
	mm.shadowAdd(c, key, v)
	mm.lastOp = "update"
	mm.ops++
}

func (mm *model) shadowAdd(c *fw.Case, key []byte, v types.Counters) {
	if e, ok := mm.sh[string(key)]; ok {
		e.val.BytesRcvd += v.BytesRcvd
		e.val.BytesSent += v.BytesSent
		e.val.PacketsRcvd += v.PacketsRcvd
		e.val.PacketsSent += v.PacketsSent
		c.Count("ops_update_existing", 1)
	} else {
		mm.sh[string(key)] = &ent{val: v}
		mm.keys = append(mm.keys, string(key))
		mm.keyBytes += len(key)
		c.Count("ops_insert_new", 1)
	}
}

func (mm *model) set(c *fw.Case, r *rand.Rand, cb *callBuf, key []byte, v types.Counters) {
	k := cb.load(key)
	mm.m.Set(k, v)
	cb.poison(c, r)
	if e, ok := mm.sh[string(key)]; ok {
		e.val = v
		c.Count("ops_set_overwrite", 1)
	} else {
		mm.sh[string(key)] = &ent{val: v}
		mm.keys = append(mm.keys, string(key))
		mm.keyBytes += len(key)
		c.Count("ops_set_new", 1)
	}
	mm.lastOp = "set"
	mm.ops++
}

func (mm *model) mergeShadow(c *fw.Case, src *model) {
	for _, k := range src.keys {
		mm.shadowAdd(c, []byte(k), src.sh[k].val)
	}
	mm.lastOp = "merge"
	mm.ops++
}

func growthKind(st hashmap.VerifMapState) string {
	switch {
	case st.Growing && st.SameSizeGrow:
		return "samesize"
	case st.Growing:
		return "growing"
	}
	return "steady"
}

func (mm *model) ctx() string {
	return growthKind(mm.m.VerifState()) + "|after_" + mm.lastOp
}

func (mm *model) describe() string {
	st := mm.m.VerifState()
	return fmt.Sprintf("map %s: %d shadow entries, %d ops, state{growing=%v samesize=%v buckets=%d oldbuckets=%d evacuated=%d overflow=%d count=%d}", mm.name, len(mm.sh), mm.ops, st.Growing, st.SameSizeGrow, st.NBuckets, st.NOldBuckets, st.NEvacuate, st.NOverflow, st.Count)
}

// stageChanged reports whether the growth stage moved since the last call (bucket count, growing
// flag, or a quarter mark of the evacuation).
func (mm *model) stageChanged() bool {
	st := mm.m.VerifState()
	q := 0
	if st.Growing && st.NOldBuckets > 0 {
		q = 1 + 4*st.NEvacuate/st.NOldBuckets
	}
	ch := st.NBuckets != mm.lastNB || st.Growing != mm.lastGrowing || q != mm.lastQuarter
	mm.lastNB, mm.lastGrowing, mm.lastQuarter = st.NBuckets, st.Growing, q
	return ch
}

// unknownKeys derives keys that are not in the shadow from a known key.
func (mm *model) unknownKeys(r *rand.Rand, known []byte) [][]byte {
	var out [][]byte
	add := func(k []byte) {
		if _, ok := mm.sh[string(k)]; !ok && len(k) > 0 {
			out = append(out, k)
		}
	}
	f := append([]byte(nil), known...)
	f[r.Intn(len(f))] ^= 1 << uint(r.Intn(8))
	add(f)
	if len(known) > 8 {
		add(append([]byte(nil), known[:len(known)-8]...)) // prefix (key without time extension)
	}
	add(append(append([]byte(nil), known...), 0, 0, 0, 0, 0, 0, 0, 0)) // extended with a zero timestamp
	rk := make([]byte, len(known))
	r.Read(rk)
	add(rk)
	return out
}

// check compares the real map with the shadow. getAll: look up every known key, else a sample.
func (mm *model) check(c *fw.Case, r *rand.Rand, cb *callBuf, getAll bool) bool {
	st := mm.m.VerifState()
	c.Count("full_checks", 1)
	if st.Growing {
		c.Count("full_checks_while_growing", 1)
		if st.SameSizeGrow {
			c.Count("full_checks_same_size_grow", 1)
		}
		c.Count(fmt.Sprintf("growing_checks_buckets_%d", st.NBuckets), 1)
		nontrivial(c, fmt.Sprintf("%s|nb=%d|%s|%s", mm.name, st.NBuckets, growthKind(st), mm.lastOp))
	}
	if st.NOverflow > 0 {
		c.Count("overflow_buckets_seen", 1)
	}
	if mm.keyBytes > 65536 {
		c.Count("keydata_arena_grown", 1)
	}
	ctx := mm.ctx()
	ok := true
	if n := mm.m.Len(); n != len(mm.sh) {
		c.Violatef("len|"+ctx, "Len() = %d, shadow holds %d entries; %s", n, len(mm.sh), mm.describe())
		ok = false
	}
	// iteration: every entry exactly once
	gen := nextStamp()
	n := 0
	for it := mm.m.Iter(); it.Next(); {
		n++
		k := it.Key()
		e, found := mm.sh[string(k)]
		switch {
		case !found:
			c.Violatef("iter_unknown_key|"+ctx, "iteration yielded key % x (len %d) that was never inserted (value %+v); %s", k, len(k), it.Val(), mm.describe())
			ok = false
		case e.seen == gen:
			c.Violatef("iter_duplicate|"+ctx, "iteration yielded key % x twice; %s", k, mm.describe())
			ok = false
		default:
			e.seen = gen
			if it.Val() != e.val {
				c.Violatef("iter_value|"+ctx, "iteration yielded %+v for key % x, shadow has %+v; %s", it.Val(), k, e.val, mm.describe())
				ok = false
			}
		}
		if n > len(mm.sh)+8 {
			c.Violatef("iter_too_many|"+ctx, "iteration yielded more than %d entries; %s", len(mm.sh)+8, mm.describe())
			ok = false
			break
		}
		if !ok && n > 64 {
			break
		}
	}
	c.Count("iter_entries_compared", n)
	if ok && n != len(mm.sh) {
		missing := ""
		for _, k := range mm.keys {
			if mm.sh[k].seen != gen {
				missing = fmt.Sprintf("% x", k)
				break
			}
		}
		c.Violatef("iter_missing|"+ctx, "iteration yielded %d of %d entries; e.g. key %s was never yielded; %s", n, len(mm.sh), missing, mm.describe())
		ok = false
	}
	if !ok {
		return false
	}
	// lookups
	nLook := len(mm.keys)
	if !getAll && nLook > 48 {
		nLook = 48
	}
	for i := 0; i < nLook; i++ {
		k := mm.keys[i]
		if !getAll {
			k = mm.keys[r.Intn(len(mm.keys))]
			if i < 8 {
				k = mm.keys[len(mm.keys)-1-i] // the most recent insertions
			}
		}
		e := mm.sh[k]
		kk := cb.load([]byte(k))
		v, found := mm.m.Get(kk)
		c.Count("get_known_checked", 1)
		if !found {
			c.Violatef("get_missing|"+ctx, "Get(% x) reports no entry, shadow has %+v; %s", k, e.val, mm.describe())
			return false
		}
		if v != e.val {
			c.Violatef("get_value|"+ctx, "Get(% x) = %+v, shadow has %+v; %s", k, v, e.val, mm.describe())
			return false
		}
		if (getAll && i%4 == 0) || (!getAll && i%8 == 0) {
			for _, uk := range mm.unknownKeys(r, []byte(k)) {
				c.Count("get_unknown_checked", 1)
				if v, found := mm.m.Get(uk); found {
					c.Violatef("get_phantom|"+ctx, "Get(% x) = %+v for a key that was never inserted (derived from % x); %s", uk, v, k, mm.describe())
					return false
				}
			}
		}
	}
	if len(mm.sh) == 0 {
		uk := make([]byte, 11)
		r.Read(uk)
		c.Count("get_unknown_checked", 1)
		if _, found := mm.m.Get(uk); found {
			c.Violatef("get_phantom|"+ctx, "Get on an empty map found key % x; %s", uk, mm.describe())
			return false
		}
	}
	return true
}

// checkAgg checks the AggFlowMap level views over a primary and a secondary model.
func checkAgg(c *fw.Case, r *rand.Rand, p, s *model) bool {
	agg := &hashmap.AggFlowMap{PrimaryMap: p.m, SecondaryMap: s.m}
	ctx := growthKind(p.m.VerifState()) + "+" + growthKind(s.m.VerifState())
	if n := agg.Len(); n != len(p.sh)+len(s.sh) {
		c.Violatef("agg_len|"+ctx, "AggFlowMap.Len() = %d, shadows hold %d + %d; %s; %s", n, len(p.sh), len(s.sh), p.describe(), s.describe())
		return false
	}
	lookup := func(k []byte) *ent {
		if e, ok := p.sh[string(k)]; ok {
			return e
		}
		if e, ok := s.sh[string(k)]; ok {
			return e
		}
		return nil
	}
	// MetaIter without filter
	stamp := func(e *ent, g uint32) bool {
		if e.seen == g {
			return false
		}
		e.seen = g
		return true
	}
	g := nextStamp()
	n := 0
	for it := agg.Iter(); it.Next(); {
		n++
		e := lookup(it.Key())
		if e == nil {
			c.Violatef("metaiter_unknown_key|"+ctx, "MetaIter yielded key % x that was never inserted; %s; %s", it.Key(), p.describe(), s.describe())
			return false
		}
		if !stamp(e, g) {
			c.Violatef("metaiter_duplicate|"+ctx, "MetaIter yielded key % x twice; %s; %s", it.Key(), p.describe(), s.describe())
			return false
		}
		if it.Val() != e.val {
			c.Violatef("metaiter_value|"+ctx, "MetaIter yielded %+v for key % x, shadow has %+v", it.Val(), it.Key(), e.val)
			return false
		}
		if n > len(p.sh)+len(s.sh) {
			break
		}
	}
	if n != len(p.sh)+len(s.sh) {
		c.Violatef("metaiter_missing|"+ctx, "MetaIter yielded %d of %d entries; %s; %s", n, len(p.sh)+len(s.sh), p.describe(), s.describe())
		return false
	}
	c.Count("metaiter_checks", 1)
	// MetaIter with filter
	thr := randCounter(r)
	mode := r.Intn(3)
	filter := func(v hashmap.Val) bool {
		switch mode {
		case 0:
			return v.PacketsRcvd >= thr
		case 1:
			return v.BytesSent%2 == 0
		}
		return v.BytesRcvd != 0 || v.PacketsSent != 0
	}
	want := 0
	for _, e := range p.sh {
		if filter(e.val) {
			want++
		}
	}
	for _, e := range s.sh {
		if filter(e.val) {
			want++
		}
	}
	g = nextStamp()
	n = 0
	for it := agg.Iter(hashmap.WithFilter(filter)); it.Next(); {
		n++
		e := lookup(it.Key())
		if e == nil || !stamp(e, g) || it.Val() != e.val || !filter(it.Val()) {
			c.Violatef("metaiter_filter|"+ctx, "filtered MetaIter yielded key % x value %+v (unknown, duplicate, wrong value or not matching the filter); %s; %s", it.Key(), it.Val(), p.describe(), s.describe())
			return false
		}
		if n > want {
			break
		}
	}
	if n != want {
		c.Violatef("metaiter_filter_count|"+ctx, "filtered MetaIter yielded %d entries, %d shadow entries satisfy the filter; %s; %s", n, want, p.describe(), s.describe())
		return false
	}
	c.Count("metaiter_filter_checks", 1)
	// Flatten
	pl, sl := agg.Flatten()
	for li, pair := range []struct {
		l  hashmap.List
		mm *model
	}{{pl, p}, {sl, s}} {
		if len(pair.l) != len(pair.mm.sh) {
			c.Violatef("flatten_len|"+ctx, "Flatten list %d has %d items, shadow %d; %s", li, len(pair.l), len(pair.mm.sh), pair.mm.describe())
			return false
		}
		fg := nextStamp()
		for _, item := range pair.l {
			e, ok := pair.mm.sh[string(item.Key)]
			if !ok || e.seen == fg || item.Val != e.val {
				c.Violatef("flatten_item|"+ctx, "Flatten list %d holds item key % x val %+v (unknown key, duplicate or wrong value); %s", li, item.Key, item.Val, pair.mm.describe())
				return false
			}
			e.seen = fg
		}
	}
	c.Count("flatten_checks", 1)
	return true
}

var seenNT map[string]bool

func nontrivial(c *fw.Case, key string) {
	if !seenNT[key] {
		seenNT[key] = true
		c.Nontrivial(key)
	}
}

// ---------------------------------------------------------------------------------------------
// key populations

type population struct {
	keys [][]byte
}

// widthsFor returns the key widths of a map: primary (IPv4: 11, extended 19), secondary (IPv6: 35, 43).
func genPopulation(r *rand.Rand, n int, widths []int, sharedPrefix bool) population {
	var p population
	seen := map[string]bool{}
	for len(p.keys) < n {
		w := widths[r.Intn(len(widths))]
		k := make([]byte, w)
		switch r.Intn(4) {
		case 0:
			// structured like a flow key: few varying bytes
			base := w
			if w == 19 || w == 43 {
				base = w - 8
			}
			k[0], k[1] = 10, byte(r.Intn(3))
			binary.BigEndian.PutUint16(k[2:4], uint16(r.Intn(4096)))
			k[base-3], k[base-2] = byte(r.Intn(2)), byte(r.Intn(256))
			k[base-1] = []byte{6, 17, 1}[r.Intn(3)]
			if base != w {
				binary.BigEndian.PutUint64(k[base:], uint64(1_000_080_000+300*r.Intn(50)))
			}
		default:
			r.Read(k)
		}
		if sharedPrefix && len(p.keys) > 0 && r.Intn(3) == 0 {
			// share a prefix with an existing key (key and its time-extended sibling)
			o := p.keys[r.Intn(len(p.keys))]
			copy(k, o)
		}
		if seen[string(k)] {
			continue
		}
		seen[string(k)] = true
		p.keys = append(p.keys, k)
	}
	return p
}

// mapSeed reads the hash seed of a map (used only to construct colliding inputs).
func mapSeed(m *hashmap.Map) (seed uint64, ok bool) {
	defer func() {
		if recover() != nil {
			ok = false
		}
	}()
	f := reflect.ValueOf(m).Elem().FieldByName("seed")
	if !f.IsValid() || f.Kind() != reflect.Uint64 {
		return 0, false
	}
	return f.Uint(), true
}

// collidingPopulation builds keys whose hash has the low `bits` bits zero (all land in bucket 0 of
// any table with up to 2^bits buckets and stay together through every doubling up to that size).
func collidingPopulation(r *rand.Rand, seed uint64, n, width, bits int) population {
	var p population
	mask := uint64(1)<<uint(bits) - 1
	k := make([]byte, width)
	r.Read(k)
	for ctr := uint64(0); len(p.keys) < n; ctr++ {
		binary.LittleEndian.PutUint64(k[width-8:], ctr)
		if xxh3.HashSeed(k, seed)&mask == 0 {
			p.keys = append(p.keys, append([]byte(nil), k...))
		}
	}
	return p
}

// ---------------------------------------------------------------------------------------------
// sequences

type seqOpts struct {
	nKeysP, nKeysS int  // population sizes of primary / secondary map
	ops            int  // number of operations
	perOpUntil     int  // full check after every op while the touched map has <= this many entries
	mixedWidths    bool // 11+19 in primary, 35+43 in secondary
	merges         int
	colliding      bool
	kind           string
}

func hintFor(r *rand.Rand, n int) (hint int, class string) {
	switch r.Intn(8) {
	case 0:
		return 0, "0"
	case 1:
		return 1, "1"
	case 2:
		return 8, "8"
	case 3:
		return 9, "9"
	case 4:
		return 100, "100"
	case 5:
		return 1000, "1000"
	case 6:
		return n, "n"
	}
	return 2 * n, "2n"
}

func runSequence(c *fw.Case, seed int64, o seqOpts, sample bool) {
	// r drives the operation stream (consumed in a fixed pattern per operation); rc drives check
	// sampling and each merge has its own stream, so that decisions depending on the map's internal
	// (randomly seeded) state never shift the operation stream.
	r := rand.New(rand.NewSource(seed))
	rc := rand.New(rand.NewSource(r.Int63()))
	mergeSeeds := make([]int64, 0, o.merges+1)
	for i := 0; i <= o.merges; i++ {
		mergeSeeds = append(mergeSeeds, r.Int63())
	}
	nextMergeRng := func() *rand.Rand {
		sd := mergeSeeds[0]
		if len(mergeSeeds) > 1 {
			mergeSeeds = mergeSeeds[1:]
		} else {
			mergeSeeds[0] = sd + 1
		}
		return rand.New(rand.NewSource(sd))
	}
	cb := &callBuf{}
	wP, wS := []int{11}, []int{35}
	switch {
	case o.mixedWidths:
		wP, wS = []int{11, 19}, []int{35, 43}
	case r.Intn(2) == 0:
		wP, wS = []int{19}, []int{43}
	}
	hp, hpc := hintFor(r, o.nKeysP)
	hs, hsc := hintFor(r, o.nKeysS)
	P := newModel(fmt.Sprintf("primary(w=%v,hint=%s)", wP, hpc), hp, r.Intn(2) == 0)
	S := newModel(fmt.Sprintf("secondary(w=%v,hint=%s)", wS, hsc), hs, r.Intn(2) == 0)
	var popP, popS population
	if o.colliding {
		c.Count("colliding_key_sequences", 1)
		seedP, ok1 := mapSeed(P.m)
		seedS, ok2 := mapSeed(S.m)
		if !ok1 || !ok2 {
			c.Count("colliding_keys_unavailable", 1)
			return
		}
		bits := 6 + r.Intn(5)
		popP = collidingPopulation(r, seedP, o.nKeysP*3/4, wP[0], bits)
		popS = collidingPopulation(r, seedS, o.nKeysS*3/4, wS[0], bits)
		popP.keys = append(popP.keys, genPopulation(r, o.nKeysP-len(popP.keys), wP, false).keys...)
		popS.keys = append(popS.keys, genPopulation(r, o.nKeysS-len(popS.keys), wS, false).keys...)
		r.Shuffle(len(popP.keys), func(i, j int) { popP.keys[i], popP.keys[j] = popP.keys[j], popP.keys[i] })
		r.Shuffle(len(popS.keys), func(i, j int) { popS.keys[i], popS.keys[j] = popS.keys[j], popS.keys[i] })
	} else {
		popP = genPopulation(r, o.nKeysP, wP, o.mixedWidths)
		popS = genPopulation(r, o.nKeysS, wS, o.mixedWidths)
	}
	c.Note("sequence kind=%s keys=%d/%d ops=%d hints=%s/%s mixed=%v colliding=%v", o.kind, o.nKeysP, o.nKeysS, o.ops, hpc, hsc, o.mixedWidths, o.colliding)

	// initial state
	if !P.check(c, rc, cb, true) || !S.check(c, rc, cb, true) || !checkAgg(c, rc, P, S) {
		return
	}
	mergeAt := map[int]bool{}
	armed := false
	for i := 0; i < o.merges; i++ {
		mergeAt[r.Intn(o.ops)] = true
	}
	// keys are introduced progressively so that the maps keep growing over the whole sequence
	for op := 0; op < o.ops; op++ {
		if op%4000 == 3999 {
			c.Note("sequence kind=%s op %d/%d", o.kind, op, o.ops)
		}
		primary := r.Intn(2) == 0
		mm, pop := P, popP
		if !primary {
			mm, pop = S, popS
		}
		// window of the population that is "live": grows linearly with the op index
		live := 1 + (len(pop.keys)-1)*(op+1)/o.ops
		var key []byte
		if r.Intn(10) < 6 {
			key = pop.keys[r.Intn(live)]
		} else {
			key = pop.keys[live-1-r.Intn(1+live/8)] // bias to new keys
		}
		switch x := r.Intn(100); {
		case x < 15:
			mm.set(c, r, cb, key, randVal(r))
		case x < 25:
			// through the AggFlowMap wrapper
			v := randVal(r)
			k := cb.load(key)
			hashmap.AggFlowMap{PrimaryMap: P.m, SecondaryMap: S.m}.SetOrUpdate(k, primary, v.BytesRcvd, v.BytesSent, v.PacketsRcvd, v.PacketsSent)
			cb.poison(c, r)
			mm.shadowAdd(c, key, v)
			mm.lastOp = "update"
			mm.ops++
		default:
			mm.update(c, r, cb, key, randVal(r))
		}
		if mergeAt[op] {
			if op%2 == 0 && !armed {
				armed = true // fire at the next moment a destination map is mid-growth
			} else if !doMerge(c, nextMergeRng(), rc, cb, P, S, popP, popS) {
				return
			}
		}
		if armed && (P.m.VerifState().Growing || S.m.VerifState().Growing) {
			armed = false
			if !doMerge(c, nextMergeRng(), rc, cb, P, S, popP, popS) {
				return
			}
		}
		small := len(mm.sh) <= o.perOpUntil
		changed := mm.stageChanged()
		if small || changed || op%997 == 0 || op == o.ops-1 {
			getAll := len(mm.sh) <= 200 || (changed && len(mm.sh) <= 8000) || op == o.ops-1
			if !mm.check(c, rc, cb, getAll) {
				return
			}
			if len(P.sh)+len(S.sh) <= 300 || changed || op%997 == 0 || op == o.ops-1 {
				other := S
				if !primary {
					other = P
				}
				if changed || op == o.ops-1 {
					if !other.check(c, rc, cb, len(other.sh) <= 200) {
						return
					}
				}
				if !checkAgg(c, rc, P, S) {
					return
				}
			}
		}
	}
	c.Count("sequences_"+o.kind, 1)
	c.Logf("sequence %s done: %s / %s", o.kind, P.describe(), S.describe())
	if sample {
		c.Sample(map[string]any{"kind": o.kind, "primary": P.describe(), "secondary": S.describe(), "ops": o.ops})
	}
}

// doMerge builds another AggFlowMap (possibly stopped mid-growth) and merges it into (P,S).
func doMerge(c *fw.Case, r, rc *rand.Rand, cb *callBuf, P, S *model, popP, popS population) bool {
	build := func(pop population, name string) *model {
		n := 1 + r.Intn(len(pop.keys))
		if n > 3000 && r.Intn(3) != 0 {
			n = 1 + r.Intn(3000)
		}
		hint, hc := hintFor(r, n)
		src := newModel(name+"(hint="+hc+")", hint, r.Intn(2) == 0)
		if r.Intn(8) == 0 {
			return src // empty source
		}
		wantGrowing := r.Intn(3) != 0
		for i := 0; i < n; i++ {
			key := pop.keys[r.Intn(len(pop.keys))]
			if r.Intn(5) == 0 {
				// keys the destination does not know yet, of the same widths
				key = append([]byte(nil), key...)
				key[r.Intn(len(key))] ^= 0x80
			}
			if r.Intn(6) == 0 {
				src.set(c, r, cb, key, randVal(r))
			} else {
				src.update(c, r, cb, key, randVal(r))
			}
			if wantGrowing && i > 8 && src.m.VerifState().Growing && r.Intn(3) == 0 {
				break
			}
		}
		return src
	}
	srcP := build(popP, "merge-src-primary")
	srcS := build(popS, "merge-src-secondary")
	for _, pr := range []struct{ dst, src *model }{{P, srcP}, {S, srcS}} {
		c.Count("merges", 1)
		if pr.src.m.VerifState().Growing {
			c.Count("merge_src_growing", 1)
		}
		if pr.dst.m.VerifState().Growing {
			c.Count("merge_dst_growing", 1)
		}
		if len(pr.src.sh) == 0 {
			c.Count("merge_src_empty", 1)
		}
	}
	c.Note("merge: src %s / %s into %s / %s", srcP.describe(), srcS.describe(), P.describe(), S.describe())
	switch r.Intn(3) {
	case 0:
		P.m.Merge(srcP.m)
		S.m.Merge(srcS.m)
	case 1:
		hashmap.AggFlowMap{PrimaryMap: P.m, SecondaryMap: S.m}.Merge(hashmap.AggFlowMap{PrimaryMap: srcP.m, SecondaryMap: srcS.m})
	default:
		a := hashmap.AggFlowMapWithMetadata{AggFlowMap: &hashmap.AggFlowMap{PrimaryMap: P.m, SecondaryMap: S.m}}
		b := hashmap.AggFlowMapWithMetadata{AggFlowMap: &hashmap.AggFlowMap{PrimaryMap: srcP.m, SecondaryMap: srcS.m}}
		a.Merge(b)
	}
	P.mergeShadow(c, srcP)
	S.mergeShadow(c, srcS)
	getAll := len(P.sh)+len(S.sh) <= 20000
	if !P.check(c, rc, cb, getAll) || !S.check(c, rc, cb, getAll) {
		return false
	}
	// the sources must be unchanged by the merge ...
	srcP.lastOp, srcS.lastOp = "merge_source", "merge_source"
	if !srcP.check(c, rc, cb, len(srcP.sh) <= 5000) || !srcS.check(c, rc, cb, len(srcS.sh) <= 5000) {
		return false
	}
	// ... and later changes to the source maps must not reach the destination (own key copies)
	for i := 0; i < 20 && len(popP.keys) > 0; i++ {
		srcP.update(c, r, cb, popP.keys[r.Intn(len(popP.keys))], randVal(r))
		srcS.update(c, r, cb, popS.keys[r.Intn(len(popS.keys))], randVal(r))
	}
	if !srcP.check(c, rc, cb, false) || !srcS.check(c, rc, cb, false) {
		return false
	}
	if len(P.sh)+len(S.sh) <= 20000 {
		if !P.check(c, rc, cb, false) || !S.check(c, rc, cb, false) {
			return false
		}
	}
	return checkAgg(c, rc, P, S)
}

func run(c *fw.Case) {
	seenNT = map[string]bool{}
	r := c.Rng
	seqSeed := func() int64 { return r.Int63() }
	thorough := c.Tier == "thorough"
	race := c.Variant == "race"
	// small sequences: everything checked after every operation
	nSmall := 24
	if race {
		nSmall = 8
	}
	for i := 0; i < nSmall && !c.Failed(); i++ {
		n := 1 + r.Intn(40)
		runSequence(c, seqSeed(), seqOpts{nKeysP: n, nKeysS: 1 + r.Intn(40), ops: 20 + r.Intn(230), perOpUntil: 1 << 30, mixedWidths: r.Intn(3) == 0, merges: r.Intn(3), kind: "small"}, false)
	}
	// colliding keys: long overflow chains in one bucket
	if !c.Failed() {
		n := 60 + r.Intn(400)
		runSequence(c, seqSeed(), seqOpts{nKeysP: n, nKeysS: 60 + r.Intn(200), ops: 3 * n, perOpUntil: 1 << 30, merges: 1, colliding: true, kind: "colliding"}, false)
	}
	// medium sequences: per-op checks through many growth stages
	perOp := 1200
	if thorough || c.Idx%16 == 1 {
		perOp = 6000
	}
	if race {
		perOp = 600
	}
	if !c.Failed() {
		n := 1500 + r.Intn(2500)
		if perOp == 6000 {
			n = 6500
		}
		if race {
			n = 1500
		}
		runSequence(c, seqSeed(), seqOpts{nKeysP: n, nKeysS: n/2 + r.Intn(n), ops: 3 * n, perOpUntil: perOp, mixedWidths: r.Intn(2) == 0, merges: 2, kind: "medium"}, c.Idx == 0)
	}
	// large sequences: stage-driven checks
	if !c.Failed() && !race && c.Idx%8 == 0 {
		n := 30000
		if thorough {
			n = 200000
		}
		runSequence(c, seqSeed(), seqOpts{nKeysP: n, nKeysS: n / 4, ops: n * 2, perOpUntil: 300, mixedWidths: r.Intn(2) == 0, merges: 2, kind: "large"}, false)
	}
}
