// Package c05: failed I/O during a write-out never damages committed data.
//
// The real writer runs under the ptrace tracer, which makes one chosen file-system call fail with
// ENOSPC / EIO / EACCES (the call is not executed; the process continues). While the writer is
// stopped at its next phase marker the database is read through goProbe's real reader paths
// (post-fault snapshot); the writer then finishes the history fault-free and the database is read
// again.
package c05

import (
	"fmt"
	"math/rand"
	"os"
	"strconv"
	"strings"
	"syscall"

	"github.com/els0r/goProbe/v4/pkg/goDB/encoder/encoders"
	"verifharness/checks/c04"
	"verifharness/dbx"
	"verifharness/fw"
	"verifharness/ptr"
	"verifharness/roles"
)

func slots(tier string) int {
	if tier == "thorough" {
		return 64
	}
	return 32
}

func histories(tier string) int {
	if tier == "thorough" {
		return 4 // measured: ~8 min per history on 16 idle cores (every FS call of every write-out x 3 errnos + fault pairs)
	}
	return 2
}

var errnos = []syscall.Errno{syscall.ENOSPC, syscall.EIO, syscall.EACCES}

func init() {
	fw.Register(&fw.Check{
		ID:    "C05",
		Level: "fault_enumeration",
		Rule: "history as in C04; one traced run per (file-system call of a selected write-out, errno in {ENOSPC,EIO,EACCES}) in which exactly that call fails (thorough: every write-out, plus a second fault at the same call position of the following write-out). " +
			"Oracle: if the write-out reports an error the post-fault snapshot equals the previously committed write-outs; if it reports success it equals previous + this one; all later write-outs succeed; final database equals all write-outs reported ok. " +
			"Distinct = (history, event index, errno, single/pair).",
		Assumptions: []string{"a failing call is modelled as not executed and returning -errno", "outcome 'write reports success and data is complete' is accepted for faults in calls whose failure is harmless (post-commit cleanup, existence probes)"},
		NumCases:    func(tier, variant string) int { return histories(tier) * slots(tier) },
		Run:         run,
		Require:     []string{"fault_runs", "fault_in_column_write", "fault_in_meta_write", "fault_in_rename", "write_reported_error", "later_writeouts_ok"},
		CaseTimeout: 300e9,
	})
}

type injection struct {
	at    int
	errno syscall.Errno
	pair  bool // second fault at the same relative position in the next write-out
}

func run(c *fw.Case) {
	P := slots(c.Tier)
	hidx, slot := c.Idx/P, c.Idx%P
	hr := rand.New(rand.NewSource(c.Seed*7919 + int64(hidx)*104729 + 5))
	h := c04.GenHistory(hr)
	histFile := c.Tmp + "/history.json"
	if err := h.Save(histFile); err != nil {
		c.Inconclusive("save history: %v", err)
		return
	}
	self, _ := os.Executable()
	n := len(h.Outs)
	argv := func(db string) []string {
		return []string{self, "-role", "dbwrite", db, histFile, "0", strconv.Itoa(n)}
	}
	db0 := c.Tmp + "/db-count"
	os.MkdirAll(db0, 0o755)
	cnt := ptr.Run(argv(db0), ptr.Options{Roots: []string{db0}})
	os.RemoveAll(db0)
	if cnt.Err != nil || cnt.TimedOut || cnt.ExitCode != 0 {
		c.Inconclusive("count run failed: err=%v timeout=%v exit=%d", cnt.Err, cnt.TimedOut, cnt.ExitCode)
		return
	}
	okSet, errSet, _ := c04.ParseMarkers(cnt.MarkerLog)
	if len(errSet) > 0 || len(okSet) != n {
		c.Violatef("fault_free_write_failed", "history %d: fault-free traced run: ok=%d of %d, errors=%v", hidx, len(okSet), n, errSet)
		return
	}
	// event -> write-out
	wo := make([]int, len(cnt.Events))
	cur := -1
	firstEvOf := map[int]int{}
	for i, e := range cnt.Events {
		if e.Sys == "marker" {
			f := strings.Fields(e.Marker)
			if len(f) >= 2 && f[0] == "B" {
				cur, _ = strconv.Atoi(f[1])
				firstEvOf[cur] = i
			}
			wo[i] = -1
			if len(f) >= 2 && f[0] == "E" {
				cur = -1
			}
			continue
		}
		wo[i] = cur
	}
	selected := map[int]bool{}
	if c.Tier == "thorough" {
		for k := 0; k < n; k++ {
			selected[k] = true
		}
	} else {
		selected[0] = true
		selected[1+hr.Intn(n-1)] = true
	}
	var points []injection
	for i, e := range cnt.Events {
		if e.Sys == "marker" || wo[i] < 0 || !selected[wo[i]] {
			continue
		}
		for _, en := range errnos {
			points = append(points, injection{at: i, errno: en})
		}
		if c.Tier == "thorough" && wo[i]+1 < n {
			points = append(points, injection{at: i, errno: syscall.ENOSPC, pair: true})
		}
	}
	if slot == 0 {
		c.Sample(map[string]any{"history": hidx, "writeouts": n, "encoder": encoders.Type(h.Encoder).String(), "fault_points": len(points), "events": len(cnt.Events)})
	}
	for j, inj := range points {
		if j%P != slot {
			continue
		}
		faultAt(c, h, histFile, hidx, cnt.Events, wo, inj, argv)
	}
}

func faultAt(c *fw.Case, h *roles.History, histFile string, hidx int, ref0 []ptr.Event, wo []int, inj injection, argv func(string) []string) {
	n := len(h.Outs)
	ev := ref0[inj.at]
	k := wo[inj.at]
	db := fmt.Sprintf("%s/db-%d-%d-%v", c.Tmp, inj.at, int(inj.errno), inj.pair)
	os.MkdirAll(db, 0o755)
	defer os.RemoveAll(db)
	desc := fmt.Sprintf("history %d (%d write-outs, encoder %s), %v injected at event %s (write-out %d)", hidx, n, encoders.Type(h.Encoder), inj.errno, ev.String(), k)
	if inj.pair {
		desc += " and at the same call of the next write-out"
	}
	c.Note("%s", desc)

	// position of the injection relative to the start of its write-out (for the paired fault)
	relPos := 0
	for i := inj.at - 1; i >= 0 && wo[i] == k; i-- {
		relPos++
	}
	var (
		injected      int
		curWO         = -1
		posInWO       = 0
		snapshots     = map[int]dbx.View{} // write-out index -> view taken when its E marker is written
		okAtSnap      = map[int]map[int]bool{}
		seenOK        = map[int]bool{}
		faultedWO     = map[int]bool{}
		diverged      bool
		secondPending = inj.pair
		// the call the second fault of a pair actually hit: write-outs differ in length, so "the same
		// position of the next write-out" is in general another call than the first fault's
		secondKind, secondDesc string
	)
	res := ptr.Run(argv(db), ptr.Options{Roots: []string{db}, Timeout: 120e9, Policy: func(e *ptr.Event) ptr.Decision {
		if e.Sys == "marker" {
			f := strings.Fields(e.Marker)
			if len(f) >= 2 {
				w, _ := strconv.Atoi(f[1])
				switch f[0] {
				case "B":
					curWO, posInWO = w, 0
					// snapshot of the state after the previous (faulted) write-out returned
					if faultedWO[w-1] {
						snapshots[w-1] = dbx.Observe(db)
						cp := map[int]bool{}
						for x := range seenOK {
							cp[x] = true
						}
						okAtSnap[w-1] = cp
					}
				case "E":
					if len(f) >= 3 && f[2] == "ok" {
						seenOK[w] = true
					}
					curWO = -1
				}
			}
			return ptr.Decision{}
		}
		defer func() { posInWO++ }()
		if injected == 0 {
			if e.Idx == inj.at {
				if e.Sys != ev.Sys || c04.NormPath(e.Path) != c04.NormPath(ev.Path) {
					diverged = true
					return ptr.Decision{}
				}
				injected++
				faultedWO[curWO] = true
				return ptr.Decision{Act: ptr.FailErrno, Errno: inj.errno}
			}
			return ptr.Decision{}
		}
		if secondPending && curWO == k+1 && posInWO == relPos {
			secondPending = false
			injected++
			faultedWO[curWO] = true
			secondKind, secondDesc = e.Kind(), e.String()
			return ptr.Decision{Act: ptr.FailErrno, Errno: inj.errno}
		}
		return ptr.Decision{}
	}})
	if res.Err != nil || res.TimedOut {
		c.Inconclusive("traced run failed: %v timeout=%v (%s)", res.Err, res.TimedOut, desc)
		return
	}
	if diverged || injected == 0 {
		c.Count("trace_diverged", 1)
		return
	}
	c.Count("fault_runs", 1)
	c.Count("fault_at_"+ev.Kind(), 1)
	// site of the fault(s) for signatures: a pair names both calls that failed
	site := ev.Kind()
	if secondKind != "" {
		site += "+" + secondKind
		desc += " (= " + secondDesc + ")"
	}
	switch ptr.FileClass(ev.Path) {
	case "column":
		if ev.Sys == "write" || ev.Sys == "pwrite64" {
			c.Count("fault_in_column_write", 1)
		}
	case "meta-tmp":
		if ev.Sys == "write" {
			c.Count("fault_in_meta_write", 1)
		}
	}
	if strings.HasPrefix(ev.Sys, "rename") {
		c.Count("fault_in_rename", 1)
	}
	if injected > 1 {
		c.Count("fault_pairs", 1)
	}
	c.Nontrivial(fmt.Sprintf("%d/%d/%d/%v", hidx, inj.at, int(inj.errno), inj.pair))
	if res.ExitCode != 0 {
		c.Violatef("writer_crashed|"+site, "%s: the writer process exited with %d", desc, res.ExitCode)
		return
	}
	okSet, errSet, _ := c04.ParseMarkers(res.MarkerLog)
	if len(okSet)+len(errSet) != n {
		c.Violatef("writer_incomplete|"+site, "%s: writer reported %d results for %d write-outs", desc, len(okSet)+len(errSet), n)
		return
	}
	for w := range errSet {
		if !faultedWO[w] {
			c.Violatef("later_write_failed|"+site, "%s: fault-free write-out %d failed after the fault cleared: %s", desc, w, errSet[w])
			return
		}
	}
	for w := range faultedWO {
		if _, failed := errSet[w]; failed {
			c.Count("write_reported_error", 1)
		} else {
			c.Count("write_reported_ok_despite_fault", 1)
		}
	}
	c.Count("later_writeouts_ok", n-len(faultedWO)-(k))
	// post-fault snapshots: exactly the write-outs reported ok so far
	for w, snap := range snapshots {
		okThen := okAtSnap[w]
		want := dbx.Expect(h.RefDBOf(func(x int) bool { return okThen[x] }))
		if mm := dbx.Compare(want, snap, false); len(mm) > 0 {
			outcome := "reported an error"
			if okThen[w] {
				outcome = "reported success"
			}
			c.Violatef("post_fault|"+mm[0].Clause+"|"+site, "%s: write-out %d %s; right afterwards the readers disagree with the write-outs reported ok %v: %s", desc, w, outcome, keys(okThen), mm[0].Detail)
			return
		}
		c.Count("post_fault_snapshots", 1)
	}
	// final state: all write-outs reported ok
	want := dbx.Expect(h.RefDBOf(func(x int) bool { return okSet[x] }))
	if mm := dbx.Compare(want, dbx.Observe(db), false); len(mm) > 0 {
		c.Violatef("final|"+mm[0].Clause+"|"+site, "%s: after the remaining fault-free write-outs the readers disagree with the write-outs reported ok %v (failed: %v): %s", desc, keys(okSet), errSet, mm[0].Detail)
	}
}

func keys(m map[int]bool) []int {
	var out []int
	for k := range m {
		out = append(out, k)
	}
	for i := 1; i < len(out); i++ {
		for j := i; j > 0 && out[j-1] > out[j]; j-- {
			out[j-1], out[j] = out[j], out[j-1]
		}
	}
	return out
}
