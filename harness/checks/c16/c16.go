// Package c16: interface selection matches the requested list and never crashes.
//
// Drive: the real engine.QueryRunner.Run on small databases (written by the production DBWriter)
// whose root holds a chosen set E of interface directories, every interface carrying one block with
// one flow that is unique to it (one member of E may be an empty directory). The interface argument
// enumerates ALL comma separated lists up to a maximum length over the token alphabet
// {eth0,eth1,eth2,lo,wan0} ∪ {any,ANY} ∪ {!eth0,...,!wan0}; further cases run generated
// regular-expression arguments and malformed arguments.
//
// Oracle (set semantics, shares no code with goProbe): selected = (E if any/ANY is listed, else the
// listed names that are in E) minus every name listed with a leading '!'. For /re/ arguments:
// the members of E matched by the expression between the slashes. Observed "interfaces queried" =
// Summary.Interfaces of the result (as a set) and the set of interface labels on the returned rows
// (every interface with data contributes exactly one row for a query over the full range).
package c16

import (
	"fmt"
	"regexp"
	"sort"
	"strings"

	"github.com/els0r/goProbe/v4/pkg/goDB/encoder/encoders"
	"github.com/els0r/goProbe/v4/pkg/goDB/engine"
	"verifharness/eng"
	"verifharness/fw"
	"verifharness/gen"
)

var names = []string{"eth0", "eth1", "eth2", "lo", "wan0"}

func tokensOf(ns []string) []string {
	t := append([]string{}, ns...)
	t = append(t, "any", "ANY")
	for _, n := range ns {
		t = append(t, "!"+n)
	}
	return t
}

// tokens is the full token alphabet (used by the random long lists).
var tokens = tokensOf(names)

// ifaceSet describes a database root: which interface directories exist and which of them is empty.
type ifaceSet struct {
	Members []string
	Empty   string // member that has a directory but no data ("" = none)
}

// plan is one exhaustive enumeration: all lists of length 1..MaxLen over Tokens against each of Sets.
type plan struct {
	Names  []string
	Tokens []string
	MaxLen int
	Sets   []ifaceSet
}

// subsets returns all subsets of ns plus a few variants in which one member is an empty directory.
func subsets(ns []string) []ifaceSet {
	var sets []ifaceSet
	for m := 0; m < 1<<len(ns); m++ {
		var mem []string
		for i, n := range ns {
			if m&(1<<i) != 0 {
				mem = append(mem, n)
			}
		}
		sets = append(sets, ifaceSet{Members: mem})
	}
	sets = append(sets, ifaceSet{Members: append([]string{}, ns...), Empty: ns[1]})
	sets = append(sets, ifaceSet{Members: []string{ns[0], ns[len(ns)-1]}, Empty: ns[len(ns)-1]})
	return sets
}

var names3 = []string{"eth0", "eth1", "lo"}

// plans: quick = all lists up to length 4 over the 3-name alphabet (8 tokens) against all 8 subsets of
// existing interfaces (+2 empty-directory variants); thorough = the same up to length 5, plus all lists
// up to length 4 over the 5-name alphabet (12 tokens) against all 32 subsets (+2 variants).
func plans(tier string) []plan {
	if tier == "thorough" {
		return []plan{
			{Names: names3, Tokens: tokensOf(names3), MaxLen: 5, Sets: subsets(names3)},
			{Names: names, Tokens: tokensOf(names), MaxLen: 4, Sets: subsets(names)},
		}
	}
	return []plan{{Names: names3, Tokens: tokensOf(names3), MaxLen: 4, Sets: subsets(names3)}}
}

// numLists = Σ_{k=1..L} |tokens|^k
func (p plan) numLists() int {
	n, q := 0, 1
	for k := 1; k <= p.MaxLen; k++ {
		q *= len(p.Tokens)
		n += q
	}
	return n
}

// listAt decodes the i-th list (all lists of length 1 first, then length 2, ...).
func (p plan) listAt(i int) []string {
	q := len(p.Tokens)
	k := 1
	for i >= q {
		i -= q
		q *= len(p.Tokens)
		k++
	}
	out := make([]string, k)
	for j := k - 1; j >= 0; j-- {
		out[j] = p.Tokens[i%len(p.Tokens)]
		i /= len(p.Tokens)
	}
	return out
}

const chunk = 1200

func (p plan) chunksPerSet() int { return (p.numLists() + chunk - 1) / chunk }
func (p plan) numCases() int     { return len(p.Sets) * p.chunksPerSet() }

func numExhaustive(tier string) int {
	n := 0
	for _, p := range plans(tier) {
		n += p.numCases()
	}
	return n
}

func numExtra(tier string) int {
	if tier == "thorough" {
		return 96
	}
	return 16
}

func init() {
	fw.Register(&fw.Check{
		ID:    "C16",
		Level: "exploration",
		Rule: "exhaustive part: every comma separated list of length 1..4 (thorough: 1..5) over the 8 tokens {eth0,eth1,lo,any,ANY,!eth0,!eth1,!lo} against all 8 sets of existing interface directories " +
			"(+2 variants with an empty interface directory); thorough also every list of length 1..4 over the 12 tokens of the 5-name alphabet {eth0,eth1,eth2,lo,wan0} against all 32 sets (+2); all run through engine.QueryRunner.Run. " +
			"Extra cases: generated /regexp/ arguments, random lists up to length 9 with unknown names and !any, malformed arguments. " +
			"A list is non-trivial iff it negates a name that it also selects (by name or through any); distinct by (existing set, argument).",
		Assumptions: []string{
			"the interfaces queried are observed as Summary.Interfaces (as a set; duplicates are recorded, not failed) and as the interface labels of the returned rows",
			"an empty selection may be reported as an error or as an empty result",
			"malformed arguments (empty names, illegal characters, over-long names, invalid regexps) are only required not to crash",
		},
		NumCases: func(tier, variant string) int { return numExhaustive(tier) + numExtra(tier) },
		Run:      run,
		Require: []string{"lists", "neg_of_selected", "neg_of_repeated_selected", "any_with_negation", "neg_of_absent",
			"unknown_listed", "regexp_args", "regexp_partial_match", "malformed_args", "expected_empty", "empty_dir_selected"},
		Exhaustive: func(tier string) bool { return true },
		// selection is decided on the calling goroutine; the engine's forced runtime.GC() calls are very
		// expensive with many Ps and 16 parallel children, so every child runs on one P
		Env: func(tier, variant string) []string { return []string{"GOMAXPROCS=1"} },
	})
}

const baseTS = int64(1_400_000_100) // some block timestamp (>= gen.MinTS)

// buildDB writes the database of an interface set; returns per interface the flow stored in it.
func buildDB(c *fw.Case, s ifaceSet) (string, bool) {
	dbPath := c.Tmp + "/db"
	if err := mkdir(dbPath); err != nil {
		c.Inconclusive("mkdir: %v", err)
		return "", false
	}
	for _, n := range s.Members {
		if n == s.Empty {
			if err := mkdir(dbPath + "/" + n); err != nil {
				c.Inconclusive("mkdir: %v", err)
				return "", false
			}
			continue
		}
		b := gen.Block{TS: baseTS, Flows: []gen.Flow{flowOf(n)}}
		if err := gen.WriteBlock(dbPath, n, b, encoders.EncoderTypeLZ4, 0); err != nil {
			c.Violatef("write_error", "writing DB for %v failed: %v", s, err)
			return "", false
		}
	}
	return dbPath, true
}

func flowOf(name string) gen.Flow {
	idx := sort.SearchStrings(names, name)
	return gen.Flow{SIP: gen.V4Addrs[idx%len(gen.V4Addrs)], DIP: gen.V4Addrs[(idx+1)%len(gen.V4Addrs)], Dport: 443, Proto: 6,
		BR: uint64(100 + idx), BS: uint64(200 + idx), PR: uint64(1 + idx), PS: uint64(2 + idx)}
}

// expectList is the oracle for comma separated lists of well-formed names.
func expectList(list []string, s ifaceSet) map[string]bool {
	exists := map[string]bool{}
	for _, m := range s.Members {
		exists[m] = true
	}
	sel := map[string]bool{}
	for _, t := range list {
		if strings.HasPrefix(t, "!") {
			continue
		}
		if strings.EqualFold(t, "any") {
			for m := range exists {
				sel[m] = true
			}
		} else if exists[t] {
			sel[t] = true
		}
	}
	for _, t := range list {
		if strings.HasPrefix(t, "!") {
			delete(sel, t[1:])
		}
	}
	return sel
}

func setString(m map[string]bool) string {
	var s []string
	for k := range m {
		s = append(s, k)
	}
	sort.Strings(s)
	return "{" + strings.Join(s, ",") + "}"
}

// listClass is the deterministic feature class of a list for signatures.
func listClass(list []string, s ifaceSet) string {
	pos := map[string]int{}
	anySel, neg := false, false
	for _, t := range list {
		switch {
		case strings.HasPrefix(t, "!"):
			neg = true
		case strings.EqualFold(t, "any"):
			anySel = true
		default:
			pos[t]++
		}
	}
	rep := false
	for _, n := range pos {
		if n > 1 {
			rep = true
		}
	}
	var f []string
	if anySel {
		f = append(f, "any")
	}
	if rep {
		f = append(f, "repeated")
	}
	if neg {
		f = append(f, "negated")
	}
	if len(f) == 0 {
		return "plain"
	}
	return strings.Join(f, "+")
}

type outcome struct {
	summary map[string]bool
	rows    map[string]bool
	dups    bool
	err     error
	panicS  string
}

func runArg(c *fw.Case, dbPath, arg string) outcome {
	var o outcome
	c.Note("ifaces=%q", arg)
	a := eng.Args("sip", arg, "", baseTS-1000, baseTS+1000)
	res, err, pmsg := eng.Run(dbPath, a)
	o.err, o.panicS = err, pmsg
	if pmsg != "" || err != nil || res == nil {
		return o
	}
	o.summary, o.rows = map[string]bool{}, map[string]bool{}
	for _, i := range res.Summary.Interfaces {
		if o.summary[i] {
			o.dups = true
		}
		o.summary[i] = true
	}
	for _, r := range res.Rows {
		o.rows[r.Labels.Iface] = true
	}
	return o
}

// judge compares an outcome with the expected selection. class is the signature feature class.
func judge(c *fw.Case, s ifaceSet, arg string, want map[string]bool, o outcome, class string) {
	desc := fmt.Sprintf("existing=%v (empty dir: %q) ifaces=%q", s.Members, s.Empty, arg)
	if o.panicS != "" {
		c.Violatef("panic|"+class, "%s: panic: %s", desc, firstLines(o.panicS, 12))
		return
	}
	if o.err != nil {
		if len(want) == 0 {
			c.Count("empty_selection_reported_as_error", 1)
			return
		}
		c.Violatef("error_on_nonempty_selection|"+class, "%s: expected to query %s, got error: %v", desc, setString(want), o.err)
		return
	}
	if setString(o.summary) != setString(want) {
		c.Violatef("selection|"+class, "%s: expected to query %s, Summary.Interfaces is %s", desc, setString(want), setString(o.summary))
		return
	}
	wantRows := map[string]bool{}
	for k := range want {
		if k != s.Empty {
			wantRows[k] = true
		}
	}
	if setString(o.rows) != setString(wantRows) {
		c.Violatef("rows_from_wrong_interfaces|"+class, "%s: expected rows from %s, got rows from %s", desc, setString(wantRows), setString(o.rows))
		return
	}
	if o.dups {
		c.Count("result_lists_interface_twice", 1)
	}
}

func run(c *fw.Case) {
	engine.VerifSetNumProcessingUnits(2)
	idx := c.Idx
	var p plan
	found := false
	for _, q := range plans(c.Tier) {
		if idx < q.numCases() {
			p, found = q, true
			break
		}
		idx -= q.numCases()
	}
	if !found {
		runExtra(c, idx)
		return
	}
	cps := p.chunksPerSet()
	s := p.Sets[idx/cps]
	ch := idx % cps
	dbPath, ok := buildDB(c, s)
	if !ok {
		return
	}
	exists := map[string]bool{}
	for _, m := range s.Members {
		exists[m] = true
	}
	total := p.numLists()
	for i := ch * chunk; i < (ch+1)*chunk && i < total; i++ {
		list := p.listAt(i)
		arg := strings.Join(list, ",")
		want := expectList(list, s)
		o := runArg(c, dbPath, arg)
		judge(c, s, arg, want, o, listClass(list, s))
		c.Count("lists", 1)
		c.Count(fmt.Sprintf("lists_len%d", len(list)), 1)
		account(c, s, exists, list, arg, want)
		if i == ch*chunk+7 {
			c.Sample(map[string]any{"existing": s.Members, "empty_dir": s.Empty, "ifaces_arg": arg, "expected": setString(want),
				"summary_interfaces": setString(o.summary), "row_interfaces": setString(o.rows), "error": fmt.Sprint(o.err)})
		}
	}
}

// account maintains the coverage counters / non-trivial keys of a well-formed list.
func account(c *fw.Case, s ifaceSet, exists map[string]bool, list []string, arg string, want map[string]bool) {
	pos := map[string]int{}
	anySel := false
	for _, t := range list {
		if strings.EqualFold(t, "any") {
			anySel = true
		} else if !strings.HasPrefix(t, "!") {
			pos[t]++
			if !exists[t] {
				c.Count("unknown_listed", 1)
			}
		}
	}
	nontrivial := false
	for _, t := range list {
		if !strings.HasPrefix(t, "!") {
			continue
		}
		n := t[1:]
		switch {
		case !exists[n]:
			c.Count("neg_of_absent", 1)
		case pos[n] > 1:
			c.Count("neg_of_repeated_selected", 1)
			c.Count("neg_of_selected", 1)
			nontrivial = true
		case pos[n] == 1 || anySel:
			c.Count("neg_of_selected", 1)
			nontrivial = true
		}
		if anySel {
			c.Count("any_with_negation", 1)
		}
	}
	if len(want) == 0 {
		c.Count("expected_empty", 1)
	}
	if s.Empty != "" && want[s.Empty] {
		c.Count("empty_dir_selected", 1)
	}
	if nontrivial {
		c.Nontrivial(strings.Join(s.Members, ",") + "|" + arg)
	}
}

var reFragments = []string{"eth", "eth[0-2]", `eth\d`, "^lo$", "wan", ".*", "0$", "^e", "(eth0|lo)", "[a-z]+0", "x", "eth1|wan0", "^$", "o", "^.{2}$", "[^e]", "eth[12]$", `\bwan0\b`, "ETH0", "(?i)ETH0", "/", "lo/", "^(eth|wan)[0-9]$", "."}

var malformed = []string{"", ",", "eth0,", ",eth0", "!", "!!eth0", "eth0,!,lo", "a-very-long-interface-name", "eth0 ,lo", "//", "/", "///", "/(/", "/eth[/", "/*/",
	"eth0;lo", "eth0,,eth1", "!,!", " ", "eth0\x00", "ethø", "/eth0", "eth0/", "!/eth0/", "any,", ",any", "!any,"}

func runExtra(c *fw.Case, k int) {
	r := c.Rng
	// a random set of existing interfaces (any subset), optionally with one empty directory
	var s ifaceSet
	for _, n := range names {
		if r.Intn(3) != 0 {
			s.Members = append(s.Members, n)
		}
	}
	if len(s.Members) > 1 && r.Intn(3) == 0 {
		s.Empty = s.Members[r.Intn(len(s.Members))]
	}
	dbPath, ok := buildDB(c, s)
	if !ok {
		return
	}
	exists := map[string]bool{}
	for _, m := range s.Members {
		exists[m] = true
	}
	// 1. regular expressions
	for i := 0; i < 120; i++ {
		var inner string
		switch r.Intn(4) {
		case 0:
			inner = reFragments[r.Intn(len(reFragments))]
		case 1:
			inner = reFragments[r.Intn(len(reFragments))] + "|" + reFragments[r.Intn(len(reFragments))]
		case 2:
			inner = "^(" + reFragments[r.Intn(len(reFragments))] + ")$"
		default:
			inner = reFragments[r.Intn(len(reFragments))] + reFragments[r.Intn(len(reFragments))]
		}
		arg := "/" + inner + "/"
		re, cerr := regexp.Compile(inner)
		o := runArg(c, dbPath, arg)
		c.Count("regexp_args", 1)
		if cerr != nil {
			c.Count("regexp_invalid", 1)
			if o.panicS != "" {
				c.Violatef("panic|regexp_invalid", "existing=%v ifaces=%q: panic: %s", s.Members, arg, firstLines(o.panicS, 12))
			}
			continue
		}
		want := map[string]bool{}
		for _, m := range s.Members {
			if re.MatchString(m) {
				want[m] = true
			}
		}
		judge(c, s, arg, want, o, "regexp")
		if len(want) > 0 && len(want) < len(s.Members) {
			c.Count("regexp_partial_match", 1)
			c.Nontrivial(strings.Join(s.Members, ",") + "|" + arg)
		}
		if len(want) == 0 {
			c.Count("expected_empty", 1)
		}
		if s.Empty != "" && want[s.Empty] {
			c.Count("empty_dir_selected", 1)
		}
		if i == 0 {
			c.Sample(map[string]any{"existing": s.Members, "ifaces_arg": arg, "expected": setString(want), "summary_interfaces": setString(o.summary)})
		}
	}
	// 2. longer well-formed lists with unknown names, !any and heavy repetition
	wide := append(append([]string{}, tokens...), "nope", "!nope", "!any", "!ANY", "eth00", "Eth0", "!Eth0", "a.b:c_d-e", "123456789012345")
	for i := 0; i < 150; i++ {
		n := 1 + r.Intn(9)
		if i == 0 {
			n = 300 // one very long, highly repetitive list
		}
		list := make([]string, n)
		for j := range list {
			if r.Intn(3) == 0 && i > 0 {
				list[j] = wide[r.Intn(len(wide))]
			} else {
				list[j] = tokens[r.Intn(len(tokens))]
			}
		}
		arg := strings.Join(list, ",")
		want := expectList(list, s)
		o := runArg(c, dbPath, arg)
		judge(c, s, arg, want, o, "long:"+listClass(list, s))
		c.Count("lists", 1)
		c.Count("long_lists", 1)
		account(c, s, exists, list, arg, want)
	}
	// 3. malformed arguments: must not crash (outcome otherwise free)
	for _, arg := range malformed {
		o := runArg(c, dbPath, arg)
		c.Count("malformed_args", 1)
		if o.panicS != "" {
			c.Violatef("panic|malformed", "existing=%v ifaces=%q: panic: %s", s.Members, arg, firstLines(o.panicS, 12))
		}
		if o.err == nil {
			c.Count("malformed_accepted", 1)
		}
	}
	_ = k
}

func firstLines(s string, n int) string {
	l := strings.Split(s, "\n")
	if len(l) > n {
		l = l[:n]
	}
	return strings.Join(l, "\n")
}
