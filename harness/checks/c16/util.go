package c16

import "os"

func mkdir(p string) error { return os.MkdirAll(p, 0o755) }
