package c12
