// Package c12: interface summaries equal the data stored in the listed range.
//
// Drive: seeded RefDBs (as C08, with non-zero drops on most blocks) written by the production
// DBWriter; for every interface the real (*goDB.DBWorkManager).ReadMetadata is called exactly as
// `goQuery list` does (metadata query, runtime.NumCPU() units) for (first,last) pairs drawn from
// {block ts, ts±1, ts±150, day boundaries ±1, before the first / after the last block, midpoints
// between blocks}. A sample of the ranges is also run through the real `goQuery list` binary.
//
// Oracle 1 (independent, on the RefDB): flows-v4/v6, drops and the four counters equal the sums over
// the stored blocks with first <= ts <= last.
// Oracle 2: packet/byte totals equal Summary.Totals of a real engine query (no condition) over the
// same interface and range.
package c12

import (
	"encoding/json"
	"fmt"
	"os"
	"os/exec"
	"path/filepath"
	"runtime"
	"runtime/debug"
	"sort"
	"strconv"
	"strings"

	"github.com/els0r/goProbe/v4/pkg/goDB"
	"github.com/els0r/goProbe/v4/pkg/goDB/encoder/encoders"
	"github.com/els0r/goProbe/v4/pkg/goDB/engine"
	"verifharness/eng"
	"verifharness/fw"
	"verifharness/gen"
)

func init() {
	fw.Register(&fw.Check{
		ID:    "C12",
		Level: "exploration",
		Rule: "case = one seeded RefDB (1-3 ifaces, 1-4 days incl. skipped days, 0-6 blocks per day, blocks on/off the 300 s grid and on day boundaries, drops on most blocks, both IP families) written by the production DBWriter; " +
			"per interface all (first<=last) pairs (capped by seeded sampling) over {block ts, ts±1, ts±150, day start/end ±1, far before / after the data, midpoints between blocks} through ReadMetadata; a sample also through an engine query and the goQuery list binary. " +
			"A (db,iface,range) is non-trivial iff the range holds at least one block but not all blocks of the interface; distinct by (db summary, iface, first, last).",
		Assumptions: []string{
			"a block lies in the range iff first <= block timestamp <= last (the rule the query engine applies, decided by C08)",
			"block timestamps >= 1000080000 (10-digit day directories)",
			"only the statistics of the summary are compared (the from/to columns are not part of the statement)",
		},
		NumCases: func(tier, variant string) int {
			if tier == "thorough" {
				return 500
			}
			return 32
		},
		Run:     run,
		Prepare: prepare,
		Require: []string{"ranges", "ranges_nontrivial", "last_between_blocks", "first_between_blocks", "last_on_block", "bound_on_day_boundary",
			"range_outside_data", "range_spans_days", "subtracted_blocks_with_drops", "query_crosschecks", "cli_list_checks"},
		Env: func(tier, variant string) []string { return []string{"GOMAXPROCS=2"} },
	})
}

const goQueryEnv = "VERIF_C12_GOQUERY"

// prepare builds the real goQuery binary from the tree under test.
func prepare(p *fw.Parent) error {
	out := filepath.Join(p.Scratch, "goQuery")
	args := []string{"build"}
	if mf := os.Getenv("VERIF_MODFILE"); mf != "" {
		args = append(args, "-modfile="+mf)
	}
	args = append(args, "-tags", "verif", "-o", out, "github.com/els0r/goProbe/v4/cmd/goQuery")
	cmd := exec.Command("go", args...)
	cmd.Dir = filepath.Join(fw.VerifDir, "harness")
	if b, err := cmd.CombinedOutput(); err != nil {
		return fmt.Errorf("building goQuery: %v\n%s", err, b)
	}
	p.ChildEnv = append(p.ChildEnv, goQueryEnv+"="+out)
	return nil
}

// Sum is what a summary reports.
type Sum struct {
	V4, V6, Drops  uint64
	BR, BS, PR, PS uint64
}

func (s Sum) String() string {
	return fmt.Sprintf("{v4:%d v6:%d drops:%d br:%d bs:%d pr:%d ps:%d}", s.V4, s.V6, s.Drops, s.BR, s.BS, s.PR, s.PS)
}

// Expect is the metadata-range oracle.
func Expect(id *gen.IfaceData, first, last int64) (s Sum, nBlocks int) {
	for _, b := range id.Blocks {
		if b.TS < first || b.TS > last {
			continue
		}
		nBlocks++
		s.Drops += b.Drops
		for _, f := range b.Flows {
			if f.IsV4() {
				s.V4++
			} else {
				s.V6++
			}
			s.BR += f.BR
			s.BS += f.BS
			s.PR += f.PR
			s.PS += f.PS
		}
	}
	return
}

// readMetadata calls the real code the way cmd/goQuery/cmd/list.go does.
func readMetadata(dbPath, iface string, first, last int64) (s Sum, err error, panicMsg string) {
	defer func() {
		if r := recover(); r != nil {
			panicMsg = fmt.Sprintf("%v\n%s", r, debug.Stack())
		}
	}()
	wm, err := goDB.NewDBWorkManager(goDB.NewMetadataQuery(), dbPath, iface, runtime.NumCPU())
	if err != nil {
		return s, err, ""
	}
	im, err := wm.ReadMetadata(first, last)
	if err != nil {
		return s, err, ""
	}
	s = Sum{V4: im.Traffic.NumV4Entries, V6: im.Traffic.NumV6Entries, Drops: im.Traffic.NumDrops,
		BR: im.Counts.BytesRcvd, BS: im.Counts.BytesSent, PR: im.Counts.PacketsRcvd, PS: im.Counts.PacketsSent}
	return s, nil, ""
}

// boundClass classifies a bound relative to the interface's blocks (deterministic, for signatures).
func boundClass(id *gen.IfaceData, t int64) string {
	n := len(id.Blocks)
	switch {
	case t < id.Blocks[0].TS:
		return "before_data"
	case t > id.Blocks[n-1].TS:
		return "after_data"
	}
	for _, b := range id.Blocks {
		if b.TS == t {
			return "on_block"
		}
	}
	return "between_blocks"
}

func points(id *gen.IfaceData) []int64 {
	set := map[int64]bool{}
	add := func(t int64) {
		if t >= gen.MinTS-200000 {
			set[t] = true
		}
	}
	for i, b := range id.Blocks {
		for _, d := range []int64{0, 1, -1, 150, -150} {
			add(b.TS + d)
		}
		ds := gen.DayStart(b.TS)
		for _, d := range []int64{0, -1, 1, 86400, 86399, 86401} {
			add(ds + d)
		}
		if i > 0 {
			add((id.Blocks[i-1].TS + b.TS) / 2)
		}
	}
	n := len(id.Blocks)
	add(id.Blocks[0].TS - 1000)
	add(id.Blocks[0].TS - 90000)
	add(id.Blocks[n-1].TS + 1000)
	add(id.Blocks[n-1].TS + 90000)
	out := make([]int64, 0, len(set))
	for t := range set {
		out = append(out, t)
	}
	sort.Slice(out, func(i, j int) bool { return out[i] < out[j] })
	return out
}

var queryTypes = []string{"time", "iface", "proto", "sip,dip", "time,dport", "raw"}

func run(c *fw.Case) {
	r := c.Rng
	engine.VerifSetNumProcessingUnits(1 + r.Intn(4))
	db := gen.RandRefDB(r, gen.DBOpts{MaxDays: 4, Flow: gen.FlowOpts{V6Prob: 0.45, ZeroProb: 0.03, BigCounters: r.Intn(2) == 0}, OffGrid: r.Intn(2) == 0})
	// drops on most blocks (the generator sets them on a quarter only)
	for i := range db.Ifaces {
		for j := range db.Ifaces[i].Blocks {
			if r.Intn(10) < 7 {
				db.Ifaces[i].Blocks[j].Drops = uint64(1 + r.Intn(1000))
			}
		}
	}
	dbPath := c.Tmp + "/db"
	enc := []encoders.Type{encoders.EncoderTypeLZ4, encoders.EncoderTypeZSTD, encoders.EncoderTypeNull}[r.Intn(3)]
	if err := db.Write(dbPath, enc, 0); err != nil {
		c.Violatef("write_error", "writing generated DB failed: %v", err)
		return
	}
	maxPairs, nQuery, nCLI := 400, 40, 3
	if c.Tier == "thorough" {
		maxPairs, nQuery, nCLI = 1500, 150, 4
	}
	goQuery := os.Getenv(goQueryEnv)
	for ii := range db.Ifaces {
		id := &db.Ifaces[ii]
		pts := points(id)
		type pair struct{ a, b int64 }
		var pairs []pair
		for i := range pts {
			for j := i; j < len(pts); j++ {
				pairs = append(pairs, pair{pts[i], pts[j]})
			}
		}
		if len(pairs) > maxPairs {
			r.Shuffle(len(pairs), func(i, j int) { pairs[i], pairs[j] = pairs[j], pairs[i] })
			pairs = pairs[:maxPairs]
		}
		c.Count("points", len(pts))
		for pi, p := range pairs {
			want, nb := Expect(id, p.a, p.b)
			fc, lc := boundClass(id, p.a), boundClass(id, p.b)
			class := "first=" + fc + ",last=" + lc
			desc := func() string {
				return fmt.Sprintf("db{%s} enc=%s iface=%s blocks=%s first=%d last=%d", db.Summary(), enc, id.Name, blockList(id), p.a, p.b)
			}
			c.Note("ReadMetadata iface=%s first=%d last=%d", id.Name, p.a, p.b)
			got, err, pmsg := readMetadata(dbPath, id.Name, p.a, p.b)
			c.Count("ranges", 1)
			account(c, db, id, p.a, p.b, nb, fc, lc)
			switch {
			case pmsg != "":
				c.Violatef("panic|"+class, "%s: ReadMetadata panicked: %s", desc(), firstLines(pmsg, 14))
				continue
			case err != nil:
				c.Violatef("error|"+class, "%s: ReadMetadata failed: %v", desc(), err)
				continue
			}
			if got.V4 != want.V4 || got.V6 != want.V6 {
				c.Violatef("flows|"+class, "%s: summary %s, stored in range (%d blocks) %s", desc(), got, nb, want)
			}
			if got.Drops != want.Drops {
				c.Violatef("drops|"+class, "%s: summary %s, stored in range (%d blocks) %s", desc(), got, nb, want)
			}
			if got.BR != want.BR || got.BS != want.BS || got.PR != want.PR || got.PS != want.PS {
				c.Violatef("counters|"+class, "%s: summary %s, stored in range (%d blocks) %s", desc(), got, nb, want)
			}
			if pi == 0 && ii == 0 {
				c.Sample(map[string]any{"db": db.Summary(), "iface": id.Name, "first": p.a, "last": p.b, "blocks_in_range": nb, "summary": got.String(), "oracle": want.String()})
			}
			// cross-check against a real query over the same interface and range
			if pi < nQuery {
				qt := queryTypes[r.Intn(len(queryTypes))]
				a := eng.Args(qt, id.Name, "", p.a, p.b)
				a.LowMem = r.Intn(3) == 0
				c.Note("query %s iface=%s first=%d last=%d", qt, id.Name, p.a, p.b)
				res, qerr, qp := eng.Run(dbPath, a)
				c.Count("query_crosschecks", 1)
				switch {
				case qp != "":
					c.Violatef("query_panic|"+class, "%s: query %q panicked: %s", desc(), qt, firstLines(qp, 14))
				case qerr != nil:
					c.Violatef("query_error|"+class, "%s: query %q failed: %v", desc(), qt, qerr)
				default:
					t := res.Summary.Totals
					if t.BytesRcvd != got.BR || t.BytesSent != got.BS || t.PacketsRcvd != got.PR || t.PacketsSent != got.PS {
						c.Violatef("query_totals|"+class, "%s: summary %s, query %q totals {br:%d bs:%d pr:%d ps:%d}", desc(), got, qt, t.BytesRcvd, t.BytesSent, t.PacketsRcvd, t.PacketsSent)
					}
				}
			}
			// end-to-end through the goQuery binary
			if pi < nCLI && goQuery != "" {
				cli, cerr := runCLI(goQuery, dbPath, id.Name, p.a, p.b)
				c.Count("cli_list_checks", 1)
				if cerr != nil {
					c.Violatef("cli_error|"+class, "%s: goQuery list failed: %v", desc(), cerr)
				} else if cli != got {
					c.Violatef("cli_differs|"+class, "%s: goQuery list reports %s, ReadMetadata %s", desc(), cli, got)
				}
			}
		}
	}
}

func account(c *fw.Case, db *gen.RefDB, id *gen.IfaceData, a, b int64, nb int, fc, lc string) {
	if nb > 0 && nb < len(id.Blocks) {
		c.Count("ranges_nontrivial", 1)
		c.Nontrivial(fmt.Sprintf("%s|%s|%d|%d", db.Summary(), id.Name, a, b))
	}
	if nb == 0 {
		c.Count("ranges_empty", 1)
	}
	c.Count("first_"+fc, 1)
	c.Count("last_"+lc, 1)
	if (fc == "before_data" && lc == "before_data") || (fc == "after_data" && lc == "after_data") {
		c.Count("range_outside_data", 1)
	}
	for _, t := range []int64{a, b} {
		if t%86400 == 0 || t%86400 == 86399 {
			c.Count("bound_on_day_boundary", 1)
			break
		}
	}
	if gen.DayStart(a) != gen.DayStart(b) {
		c.Count("range_spans_days", 1)
	}
	// blocks of the first / last touched day that lie outside the range and carry drops
	for _, blk := range id.Blocks {
		if blk.Drops > 0 && ((blk.TS < a && gen.DayStart(blk.TS) == gen.DayStart(a)) || (blk.TS > b && gen.DayStart(blk.TS) == gen.DayStart(b))) {
			c.Count("subtracted_blocks_with_drops", 1)
			break
		}
	}
}

func blockList(id *gen.IfaceData) string {
	var s []string
	for _, b := range id.Blocks {
		s = append(s, fmt.Sprintf("%d(%df,%dd)", b.TS, len(b.Flows), b.Drops))
	}
	return "[" + strings.Join(s, " ") + "]"
}

// runCLI executes `goQuery list -d db -f first -l last -e json iface`.
func runCLI(bin, dbPath, iface string, first, last int64) (Sum, error) {
	var s Sum
	cmd := exec.Command(bin, "list", "-d", dbPath, "-f", strconv.FormatInt(first, 10), "-l", strconv.FormatInt(last, 10), "-e", "json", iface)
	cmd.Env = append(os.Environ(), "GOMAXPROCS=2")
	out, err := cmd.Output()
	if err != nil {
		msg := ""
		if ee, ok := err.(*exec.ExitError); ok {
			msg = string(ee.Stderr)
		}
		return s, fmt.Errorf("%v: %s %s", err, firstLines(string(out), 5), firstLines(msg, 8))
	}
	var ims []struct {
		Iface  string `json:"iface"`
		Counts struct {
			BR uint64 `json:"br"`
			BS uint64 `json:"bs"`
			PR uint64 `json:"pr"`
			PS uint64 `json:"ps"`
		} `json:"counts"`
		Traffic struct {
			V4    uint64 `json:"num_v4_entries"`
			V6    uint64 `json:"num_v6_entries"`
			Drops uint64 `json:"num_drops"`
		} `json:"traffic"`
	}
	if err := json.Unmarshal(out, &ims); err != nil {
		return s, fmt.Errorf("unparsable output %q: %v", firstLines(string(out), 5), err)
	}
	if len(ims) != 1 || ims[0].Iface != iface {
		return s, fmt.Errorf("expected exactly the summary of %s, got %s", iface, firstLines(string(out), 5))
	}
	m := ims[0]
	return Sum{V4: m.Traffic.V4, V6: m.Traffic.V6, Drops: m.Traffic.Drops, BR: m.Counts.BR, BS: m.Counts.BS, PR: m.Counts.PR, PS: m.Counts.PS}, nil
}

func firstLines(s string, n int) string {
	l := strings.Split(s, "\n")
	if len(l) > n {
		l = l[:n]
	}
	return strings.Join(l, "\n")
}
