// Package c13: time binning conserves traffic and yields one aligned row per bin.
//
// Drives the real results.TimeBinner.BinTime, query.Statement.PostProcess (statement produced by the real
// Args.Prepare with a time_resolution) and results.CalcTimeBinSize (directly and through Args.Prepare with
// time_resolution=auto). The oracle is an independent integer re-binning in this file.
package c13

import (
	"context"
	"fmt"
	"math"
	"math/rand"
	"strconv"
	"time"
	_ "time/tzdata"

	"github.com/els0r/goProbe/v4/pkg/query"
	"github.com/els0r/goProbe/v4/pkg/results"
	"verifharness/fw"
	"verifharness/resgen"
)

func init() {
	fw.Register(&fw.Check{
		ID:    "C13",
		Level: "exploration",
		Rule: "case = (a) N seeded row sets (0-60 rows over tiny label/attribute alphabets; timestamps placed on, one second beside and far from bin edges, on and off the 300 s grid, " +
			"equal instants in several zone representations, rows without time label, duplicates of one key, a few pre-1970 instants) x a bin size 300 s*k, k in {1,2,3,12,288,289,random<=400}, " +
			"binned by TimeBinner.BinTime or by Statement.PostProcess of a statement prepared by Args.Prepare(time_resolution=<duration>), then binned a second time; " +
			"(b) M whole-second query durations (0, 1..600 s, every multiple of one day +-1 s up to 400 days, multiples of 5 min*288 +-1, random up to 50 years, the saturated maximum) through CalcTimeBinSize directly and through Args.Prepare(time_resolution=auto). " +
			"A row set is non-trivial iff binning merged rows with different original timestamps and left at least two bins; distinct by (bin size, input rows).",
		Assumptions: []string{
			"bins are aligned to the Unix epoch (bin k covers (k*B-B, k*B] and is labelled k*B), which is what 'end of the bin that contains the timestamp' means for a timestamp that itself denotes the end of a 5-minute interval",
			"row timestamps are whole seconds (what the engine and JSON decoding of engine results produce); rows without a time label stay unlabelled and are merged among themselves",
			"query durations are whole seconds (they are differences of Unix timestamps); 'a day's worth of bins or fewer' is read as ceil(duration/binsize) <= 288",
			"counters small enough that sums do not overflow uint64",
		},
		NumCases: func(tier, variant string) int {
			if tier == "thorough" {
				return 640
			}
			return 64
		},
		Run: run,
		Require: []string{"rowsets", "rowsets_merged_across_timestamps", "rows_on_bin_edge", "rows_one_past_bin_edge", "rows_off_grid", "rows_zero_ts", "rowsets_mixed_zones",
			"rowsets_via_postprocess", "rowsets_via_bintime", "idempotence_checked", "durations", "durations_exact_day_multiple", "durations_via_prepare", "durations_saturated"},
	})
}

const fiveMin = int64(300)

func ceilBin(ts, b int64) int64 {
	// smallest multiple of b that is >= ts (floor semantics for negative ts)
	q := ts / b
	if ts%b != 0 && ts > 0 {
		q++
	}
	return q * b
}

type rowSet struct {
	binSec int64
	rows   results.Rows
	first  int64
	last   int64
}

var kChoices = []int64{1, 2, 3, 12, 288, 289}

func genRowSet(c *fw.Case, r *rand.Rand) rowSet {
	var rs rowSet
	k := kChoices[r.Intn(len(kChoices))]
	if r.Intn(3) == 0 {
		k = 1 + r.Int63n(400)
	}
	rs.binSec = fiveMin * k
	b := rs.binSec
	// anchor: a bin edge somewhere in the realistic range (or near the epoch / before it)
	var anchor int64
	switch r.Intn(12) {
	case 0:
		anchor = b * r.Int63n(3) // near the epoch
	case 1:
		anchor = -b * (1 + r.Int63n(3)) // before the epoch
	default:
		anchor = ceilBin(1_000_080_000+r.Int63n(1_000_000_000), b)
	}
	nKeys := 1 + r.Intn(4)
	ao := resgen.RandAttrOpts(r)
	type la struct {
		iface, host string
		attrs       results.Attributes
	}
	keys := make([]la, nKeys)
	for i := range keys {
		h := resgen.Hosts[r.Intn(len(resgen.Hosts))]
		keys[i] = la{resgen.Ifaces[r.Intn(len(resgen.Ifaces))], h, resgen.RandAttrs(r, ao)}
	}
	n := r.Intn(61)
	spanBins := int64(1 + r.Intn(4))
	mixedZones := r.Intn(2) == 0
	ties := r.Intn(2) == 0
	for i := 0; i < n; i++ {
		kk := keys[r.Intn(nKeys)]
		row := results.Row{Labels: results.Labels{Iface: kk.iface, Hostname: kk.host, HostID: resgen.HostID(kk.host)}, Attributes: kk.attrs, Counters: resgen.RandCounters(r, ties)}
		if r.Intn(15) == 0 {
			// no time label
			rs.rows = append(rs.rows, row)
			continue
		}
		edge := anchor + b*r.Int63n(spanBins)
		var ts int64
		switch r.Intn(8) {
		case 0:
			ts = edge
		case 1:
			ts = edge + 1
		case 2:
			ts = edge - 1
		case 3:
			ts = edge - b + 1
		case 4:
			ts = edge - fiveMin*r.Int63n(k+1) // on the 300 s grid inside the bin
		case 5:
			ts = edge + fiveMin
		default:
			ts = edge - r.Int63n(b+1)
		}
		z := 0
		if mixedZones {
			z = r.Intn(len(resgen.Zones))
		}
		row.Labels.Timestamp = resgen.InZone(ts, z)
		rs.rows = append(rs.rows, row)
	}
	return rs
}

type expKey = resgen.Key

func oracle(rs rowSet) (map[expKey]resgen.Ctr, resgen.Ctr) {
	exp := map[expKey]resgen.Ctr{}
	var tot resgen.Ctr
	for _, row := range rs.rows {
		k := resgen.KeyOf(row)
		if !k.ZeroTS {
			sec := row.Labels.Timestamp.Unix()
			k.UnixNano = ceilBin(sec, rs.binSec) * 1e9
		}
		c := exp[k]
		c.Add(resgen.CtrOf(row))
		exp[k] = c
		tot.Add(resgen.CtrOf(row))
	}
	return exp, tot
}

func resolutionString(r *rand.Rand, sec int64) string {
	switch {
	case sec%3600 == 0 && r.Intn(2) == 0:
		return fmt.Sprintf("%dh", sec/3600)
	case r.Intn(3) == 0:
		return fmt.Sprintf("%ds", sec)
	case r.Intn(3) == 0 && sec >= 3600:
		return fmt.Sprintf("%dh%dm", sec/3600, (sec%3600)/60)
	default:
		return fmt.Sprintf("%dm", sec/60)
	}
}

func prepare(c *fw.Case, qtype, first, last, resolution string) *query.Statement {
	a := query.NewArgs(qtype, "eth0")
	a.First, a.Last = first, last
	a.TimeResolution = resolution
	a.Format = "json"
	a.NumResults = math.MaxUint32
	c.Note("Args.Prepare query=%q first=%s last=%s time_resolution=%q", qtype, first, last, resolution)
	stmt, err := a.Prepare()
	if err != nil {
		c.Violatef("prepare_rejects_valid_resolution", "Args.Prepare(query=%q first=%s last=%s time_resolution=%q) failed: %v", qtype, first, last, resolution, err)
		return nil
	}
	return stmt
}

func featureClass(rs rowSet) string {
	pre, zones := false, false
	for _, row := range rs.rows {
		if row.Labels.Timestamp.IsZero() {
			continue
		}
		if row.Labels.Timestamp.Unix() < 0 {
			pre = true
		}
		if row.Labels.Timestamp.Location() != time.Local {
			zones = true
		}
	}
	switch {
	case pre:
		return "pre_epoch"
	case zones:
		return "mixed_zones"
	}
	return "plain"
}

func checkRowSet(c *fw.Case, r *rand.Rand, rs rowSet, idx int) {
	exp, tot := oracle(rs)
	cls := featureClass(rs)
	in := append(results.Rows(nil), rs.rows...) // keep the input for witnesses
	res := results.New()
	res.Rows = append(results.Rows(nil), rs.rows...)
	res.Summary.Hits.Total = len(res.Rows)

	viaPost := rs.binSec != fiveMin && r.Intn(2) == 0
	var apply func(*results.Result) error
	mode := "BinTime"
	if viaPost {
		mode = "PostProcess"
		stmt := prepare(c, "time,sip,dip,dport,proto", "1000080000", "2100000000", resolutionString(r, rs.binSec))
		if stmt == nil {
			return
		}
		if stmt.TimeBinSize != time.Duration(rs.binSec)*time.Second {
			c.Violatef("prepare_bin_size", "Args.Prepare(time_resolution for %d s) produced TimeBinSize %s", rs.binSec, stmt.TimeBinSize)
			return
		}
		apply = func(res *results.Result) error { return stmt.PostProcess(context.Background(), res) }
		c.Count("rowsets_via_postprocess", 1)
	} else {
		tb := results.NewTimeBinner(time.Duration(rs.last-rs.first)*time.Second, time.Duration(rs.binSec)*time.Second)
		apply = func(res *results.Result) error { return tb.BinTime(context.Background(), res) }
		c.Count("rowsets_via_bintime", 1)
	}
	desc := func() string {
		return fmt.Sprintf("mode=%s bin=%ds input=%s", mode, rs.binSec, resgen.RowsString(in, 12))
	}
	c.Note("binning %d rows bin=%ds mode=%s", len(in), rs.binSec, mode)
	if err := apply(res); err != nil {
		c.Violatef("binning_error|"+cls, "%s: error %v", desc(), err)
		return
	}
	// coverage
	c.Count("rowsets", 1)
	c.Count("rows", len(in))
	distinctTS := map[expKey]map[int64]bool{}
	zonesSeen := map[string]bool{}
	for _, row := range in {
		if row.Labels.Timestamp.IsZero() {
			c.Count("rows_zero_ts", 1)
			continue
		}
		ts := row.Labels.Timestamp.Unix()
		zonesSeen[row.Labels.Timestamp.Location().String()] = true
		m := ts % rs.binSec
		switch {
		case m == 0:
			c.Count("rows_on_bin_edge", 1)
		case m == 1:
			c.Count("rows_one_past_bin_edge", 1)
		}
		if ts%fiveMin != 0 {
			c.Count("rows_off_grid", 1)
		}
		if ts < 0 {
			c.Count("rows_pre_epoch", 1)
		}
		k := resgen.KeyOf(row)
		k.UnixNano = ceilBin(ts, rs.binSec) * 1e9
		if distinctTS[k] == nil {
			distinctTS[k] = map[int64]bool{}
		}
		distinctTS[k][ts] = true
	}
	if len(zonesSeen) > 1 {
		c.Count("rowsets_mixed_zones", 1)
	}
	merged := false
	for _, m := range distinctTS {
		if len(m) > 1 {
			merged = true
		}
	}
	bins := map[int64]bool{}
	for k := range exp {
		if !k.ZeroTS {
			bins[k.UnixNano] = true
		}
	}
	if merged {
		c.Count("rowsets_merged_across_timestamps", 1)
		if len(bins) > 1 {
			c.Nontrivial(fmt.Sprintf("%d|%s", rs.binSec, resgen.RowsString(in, 100)))
		}
	}

	failed := false
	violate := func(sig, format string, args ...any) {
		failed = true
		c.Violatef(sig, format, args...)
	}
	// the input rows that share labels and attributes with k (minimal witness)
	related := func(k expKey) string {
		var sel results.Rows
		for _, row := range in {
			rk := resgen.KeyOf(row)
			rk.ZeroTS, rk.UnixNano = k.ZeroTS, k.UnixNano
			if rk == k {
				sel = append(sel, row)
			}
		}
		return resgen.RowsString(sel, 12)
	}
	// clause 1: every counter's sum is preserved
	var got resgen.Ctr
	for _, row := range res.Rows {
		got.Add(resgen.CtrOf(row))
	}
	if got != tot {
		violate("sum_not_conserved|"+cls, "%s: counter sums before %+v after %+v; output=%s", desc(), tot, got, resgen.RowsString(res.Rows, 12))
	}
	// clause 2: at most one row per (bin, labels, attributes)
	seen := map[expKey]resgen.Ctr{}
	for _, row := range res.Rows {
		k := resgen.KeyOf(row)
		if _, dup := seen[k]; dup {
			violate("duplicate_row|"+cls, "%s: two output rows share %s; output=%s", desc(), k, resgen.RowsString(res.Rows, 12))
			break
		}
		seen[k] = resgen.CtrOf(row)
	}
	// clause 3: each row is labelled with the end of the bin containing its original timestamp
	// (together with the per-group sums this is: output == independent re-binning)
	for k, want := range exp {
		g, ok := seen[k]
		if !ok {
			violate("bin_label|"+cls, "mode=%s bin=%ds: expected an output row %s (end of the bin of the original timestamps) but there is none; input rows with these labels/attributes: %s; output=%s", mode, rs.binSec, k, related(k), resgen.RowsString(res.Rows, 12))
			break
		}
		if g != want {
			violate("group_sum|"+cls, "mode=%s bin=%ds: output row %s has counters %+v, the input rows of that bin sum to %+v; input rows with these labels/attributes: %s", mode, rs.binSec, k, g, want, related(k))
			break
		}
	}
	for k := range seen {
		if _, ok := exp[k]; !ok {
			violate("bin_label|"+cls, "mode=%s bin=%ds: output row %s is not the end of a bin containing any input row with these labels/attributes: %s", mode, rs.binSec, k, related(k))
			break
		}
	}
	for _, row := range res.Rows {
		if !row.Labels.Timestamp.IsZero() && resgenMod(row.Labels.Timestamp.Unix(), rs.binSec) != 0 {
			violate("label_not_aligned|"+cls, "%s: output label %d is not a multiple of the bin size", desc(), row.Labels.Timestamp.Unix())
			break
		}
	}
	if failed {
		return
	}
	// clause 4: binning the binned result again changes nothing
	before := resgen.Idents(res.Rows)
	beforeRows := append(results.Rows(nil), res.Rows...)
	if err := apply(res); err != nil {
		c.Violatef("binning_error|second_pass", "%s: second pass error %v", desc(), err)
		return
	}
	after := resgen.Idents(res.Rows)
	c.Count("idempotence_checked", 1)
	same := len(before) == len(after)
	if same {
		for i := range before {
			if before[i] != after[i] {
				same = false
				break
			}
		}
	}
	if !same {
		c.Violatef("not_idempotent|"+cls, "%s: first pass %s, second pass %s", desc(), resgen.RowsString(beforeRows, 12), resgen.RowsString(res.Rows, 12))
	}
	if idx == 0 {
		c.Sample(map[string]any{"mode": mode, "bin_s": rs.binSec, "input": resgen.RowsString(in, 8), "output": resgen.RowsString(res.Rows, 8)})
	}
}

func resgenMod(a, b int64) int64 {
	m := a % b
	if m < 0 {
		m += b
	}
	return m
}

const day = int64(86400)

// genDuration draws a whole-second query duration from the stratified set.
func genDuration(r *rand.Rand, i int) (sec int64, class string) {
	switch r.Intn(8) {
	case 0:
		return r.Int63n(601), "tiny"
	case 1:
		return day * r.Int63n(401), "day_multiple"
	case 2:
		return day*r.Int63n(401) + 1, "day_multiple_plus1"
	case 3:
		d := day*(1+r.Int63n(400)) - 1
		return d, "day_multiple_minus1"
	case 4:
		// multiples of 288*300 s = one day, scaled: bin sizes far up
		return day*r.Int63n(20000) + []int64{-1, 0, 1}[r.Intn(3)]*int64(r.Intn(2)), "day_multiple_far"
	case 5:
		return r.Int63n(50 * 366 * day), "random_50y"
	case 6:
		return r.Int63n(7 * day), "random_week"
	default:
		return fiveMin * r.Int63n(300*288), "five_min_multiple"
	}
}

func checkBinSize(c *fw.Case, how string, durSec int64, durNs time.Duration, bin time.Duration) {
	five := 5 * time.Minute
	bad := ""
	switch {
	case bin <= 0:
		bad = "not_positive"
	case bin%five != 0:
		bad = "not_multiple_of_5m"
	default:
		bins := int64(durNs / bin)
		if durNs%bin != 0 {
			bins++
		}
		if bins > 288 {
			bad = "more_than_288_bins"
		}
	}
	if bad != "" {
		c.Violatef("auto_bin_size|"+bad, "%s: duration %d s (%s) -> bin size %s (%d ns)", how, durSec, durNs, bin, int64(bin))
	}
}

func run(c *fw.Case) {
	r := c.Rng
	// vary the local zone (BinTime labels rows with time.Unix = Local)
	zones := []string{"UTC", "Europe/Zurich", "America/Los_Angeles", "Asia/Tehran", "Australia/Lord_Howe"}
	if loc, err := time.LoadLocation(zones[c.Idx%len(zones)]); err == nil {
		time.Local = loc
	}
	nSets, nDur := 80, 3000
	if c.Tier == "thorough" {
		nSets, nDur = 800, 30000
	}
	for i := 0; i < nSets; i++ {
		rs := genRowSet(c, r)
		checkRowSet(c, r, rs, i)
	}
	// automatic bin size
	for i := 0; i < nDur; i++ {
		sec, class := genDuration(r, i)
		if sec < 0 {
			sec = 0
		}
		c.Count("durations", 1)
		if sec > 0 && sec%day == 0 {
			c.Count("durations_exact_day_multiple", 1)
		}
		_ = class
		durNs := time.Duration(sec) * time.Second
		bin := results.CalcTimeBinSize(5*time.Minute, durNs)
		checkBinSize(c, "CalcTimeBinSize(5m, d)", sec, durNs, bin)
		if i%10 == 0 {
			first := 1_000_080_000 + r.Int63n(700_000_000)
			stmt := prepare(c, "time", strconv.FormatInt(first, 10), strconv.FormatInt(first+sec, 10), "auto")
			if stmt != nil {
				c.Count("durations_via_prepare", 1)
				checkBinSize(c, fmt.Sprintf("Args.Prepare(first=%d,last=%d,time_resolution=auto)", first, first+sec), sec, durNs, stmt.TimeBinSize)
				if stmt.TimeBinSize != bin {
					c.Count("prepare_differs_from_calc", 1)
				}
			}
		}
	}
	// the default upper bound of a query (types.MaxTime) saturates the duration
	{
		first := 1_000_080_000 + r.Int63n(700_000_000)
		a := query.NewArgs("time", "eth0")
		a.First = strconv.FormatInt(first, 10) // a.Last stays at its default: the maximum time
		a.TimeResolution = "auto"
		a.Format = "json"
		stmt, err := a.Prepare()
		if err != nil {
			c.Violatef("prepare_rejects_valid_resolution", "Args.Prepare(first=%d, last=default, auto) failed: %v", first, err)
			return
		}
		d := time.Unix(stmt.Last, 0).Sub(time.Unix(stmt.First, 0))
		c.Count("durations_saturated", 1)
		checkBinSize(c, fmt.Sprintf("Args.Prepare(first=%d,last=<default max>,time_resolution=auto)", first), int64(d/time.Second), d, stmt.TimeBinSize)
	}
}
