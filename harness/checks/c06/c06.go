package c06
