// Package c06: corrupted or foreign files never crash a reader and stay contained.
//
// Drive: a valid multi-day, multi-interface database is produced from a seeded RefDB by the
// production DBWriter. One file (or the directory name) of ONE day of ONE interface is then mutated
// at byte level (truncate, extend, bit flips, byte runs, zero fill, garbage, swap of two files of the
// day, delete, replace by directory / empty file, foreign .blockmeta of another day, forged
// directory-name suffix, and targeted forging of .blockmeta header fields: version, block count,
// Len / RawLen / encoder of a block, IPv4/IPv6 entry counts, base timestamp, timestamp deltas).
// The real query engine (all attribute sets, low-memory on/off, single-family conditions) and the
// real interface listing (ReadMetadata) are run on the mutant; afterwards the mutation is undone.
//
// Oracle:
//   - no crash: panics on the calling goroutine are caught and reported; panics in worker goroutines
//     and fatal errors kill the case child, which the framework reports as crash:<kind>@<frame>;
//     hangs are caught by the framework watchdog (HangIsViolation).
//   - containment: every containment query requests the `time` attribute, so each result row is
//     attributable to (interface, day). Rows outside the mutated (interface, day) must equal the
//     independent query oracle exactly; rows of the mutated day are unconstrained. A query-level
//     error is a containment violation whenever the oracle expects rows outside the mutated day.
//   - statistics: for mutators that force a block to be skipped by construction (column file the
//     query loads deleted / truncated inside a block of the range, IPv4 entry count forged while an
//     IP column is loaded, .blockmeta unreadable) Summary.Stats.BlocksCorrupted must exceed the value
//     the same query reports on the pristine database.
package c06

import (
	"encoding/binary"
	"fmt"
	"math/rand"
	"os"
	"path/filepath"
	"runtime"
	"runtime/debug"
	"sort"
	"strconv"
	"strings"
	"time"

	"github.com/els0r/goProbe/v4/pkg/goDB"
	"github.com/els0r/goProbe/v4/pkg/goDB/encoder/encoders"
	"github.com/els0r/goProbe/v4/pkg/goDB/engine"
	"verifharness/checks/c08"
	"verifharness/eng"
	"verifharness/fw"
	"verifharness/gen"
	"verifharness/rdr"
	"verifharness/ref"
)

func init() {
	fw.Register(&fw.Check{
		ID:    "C06",
		Level: "fault_enumeration",
		Rule: "case = one seeded RefDB (2-3 ifaces, 1-3 days, both IP families, lz4/zstd/null) written by the production DBWriter + a pool of generated queries (always with `time`; attribute sets incl. ones loading no IP column, single-family conditions, low-mem on/off) validated on the pristine DB; " +
			"then N mutants, each = (interface, day, file, mutator) with 13 byte-level mutators + 8 targeted .blockmeta field forgers, each mutant queried 2-3 times + listed once, then undone. " +
			"A mutant is non-trivial iff the mutated day holds a block inside the query range and the oracle expects rows outside the mutated day; distinct by (db, target, mutator, parameters).",
		Assumptions: []string{
			"mutations touch one file (or the directory name suffix) of one day of one interface; directory names stay parseable (timestamp prefix intact)",
			"rows are attributed to a day by their time label; rows of the mutated day are unconstrained",
			"the statistics clause is only checked for mutators that force a skip by construction, as an increase over the pristine value of the same query",
			"conditions are restricted to shapes not affected by defects owned by C08/C09",
			"the listing (ReadMetadata) is checked for the no-crash clause only",
		},
		NumCases: func(tier, variant string) int {
			if tier == "thorough" {
				if variant != "default" {
					return 150
				}
				return 1200
			}
			return 50
		},
		Variants: func(tier string) []string {
			if tier == "thorough" {
				return []string{"default", "race", "asan"}
			}
			return []string{"default"}
		},
		Run: run,
		Require: []string{"mutants", "mutants_nontrivial", "containment_checks", "forced_skip_checks", "forced_skip_column_deleted", "forced_skip_column_truncated",
			"forced_skip_v4count_forged", "forced_skip_meta_unreadable", "mut_meta_field", "mut_truncate", "mut_bitflip", "mut_swap", "mut_delete", "mut_foreign_meta", "mut_suffix",
			"queries_lowmem", "queries_no_ip_column", "listings"},
		HangIsViolation: true,
		CaseTimeout:     180 * time.Second,
		Env:             func(tier, variant string) []string { return []string{"GOMAXPROCS=4"} },
	})
}

// ---------------------------------------------------------------------------------------------
// on-disk layout knowledge of the harness (written from the format description, shares no code
// with gpfile): .blockmeta = 72-byte header | 8 x (CurrentOffset u64, n x (Len u32, RawLen u32,
// enc u8)) | first timestamp u64 | n x (v4 u32, v6 u32, drops u32, tsDelta u32)

var colFiles = []string{"sip.gpf", "dip.gpf", "proto.gpf", "dport.gpf", "bytes_rcvd.gpf", "bytes_sent.gpf", "pkts_rcvd.gpf", "pkts_sent.gpf"}

const (
	colSIP, colDIP, colProto, colDport = 0, 1, 2, 3
	metaName                           = ".blockmeta"
)

type metaLayout struct {
	n   int
	raw []byte
}

func parseMeta(b []byte) (metaLayout, bool) {
	if len(b) < 72+8*8+8 {
		return metaLayout{}, false
	}
	n := int(binary.BigEndian.Uint64(b[8:16]))
	if n < 0 || n > 10000 || len(b) != 72+8*(8+9*n)+8+16*n {
		return metaLayout{}, false
	}
	return metaLayout{n: n, raw: b}, true
}

func (m metaLayout) descOff(col, blk int) int { return 72 + col*(8+9*m.n) + 8 + 9*blk }
func (m metaLayout) tsBaseOff() int           { return 72 + 8*(8+9*m.n) }
func (m metaLayout) trafficOff(blk int) int   { return m.tsBaseOff() + 8 + 16*blk }
func (m metaLayout) blockLen(col, blk int) int {
	return int(binary.BigEndian.Uint32(m.raw[m.descOff(col, blk):]))
}
func (m metaLayout) blockRawLen(col, blk int) int {
	return int(binary.BigEndian.Uint32(m.raw[m.descOff(col, blk)+4:]))
}
func (m metaLayout) timestamps() []int64 {
	ts := int64(binary.BigEndian.Uint64(m.raw[m.tsBaseOff():]))
	out := make([]int64, m.n)
	for i := 0; i < m.n; i++ {
		ts += int64(binary.BigEndian.Uint32(m.raw[m.trafficOff(i)+12:]))
		out[i] = ts
	}
	return out
}

// ---------------------------------------------------------------------------------------------

type dayRef struct {
	iface string
	day   int64
	path  string // directory of the day
	ts    []int64
}

type mutant struct {
	kind   string // mutator name (signature class)
	desc   string // full description for witnesses
	undo   func() error
	forced string                 // "" or the forced-skip class
	hit    func(q c08.Query) bool // forced-skip applicability for a query (nil = never)
}

var interesting32 = []uint32{0, 1, 2, 3, 7, 8, 0xff, 0x100, 0xffff, 0x10000, 1 << 20, 1 << 24, 0x7fffffff, 0x80000000, 0x80000001, 0xfffffffe, 0xffffffff}

func loadsCol(q c08.Query, col int) bool {
	name := []string{"sip", "dip", "proto", "dport"}
	if col >= 4 {
		return true // counter columns are always loaded
	}
	for _, a := range q.Spec.Attrs {
		if a == name[col] {
			return true
		}
	}
	if q.Spec.Cond != nil {
		for _, l := range q.Spec.Cond.Leaves() {
			switch l.Attr {
			case "sip", "snet":
				if col == colSIP {
					return true
				}
			case "dip", "dnet":
				if col == colDIP {
					return true
				}
			case "dport":
				if col == colDport {
					return true
				}
			case "proto":
				if col == colProto {
					return true
				}
			}
		}
	}
	return false
}

func inRange(q c08.Query, ts int64) bool { return ts >= q.Spec.First && ts <= q.Spec.Last }

func selects(q c08.Query, iface string) bool {
	for _, n := range q.Spec.Ifaces {
		if n == iface {
			return true
		}
	}
	return false
}

func writeFile(p string, b []byte) error { return os.WriteFile(p, b, 0o644) }

// makeMutant applies one mutation to the day d and returns how to undo it.
func makeMutant(r *rand.Rand, d dayRef, days []dayRef) (*mutant, error) {
	metaPath := filepath.Join(d.path, metaName)
	metaRaw, err := os.ReadFile(metaPath)
	if err != nil {
		return nil, err
	}
	lay, ok := parseMeta(metaRaw)
	if !ok {
		return nil, fmt.Errorf("harness cannot parse pristine .blockmeta of %s (len %d)", d.path, len(metaRaw))
	}
	// existing files of the day
	var files []string
	for _, f := range append([]string{metaName}, colFiles...) {
		if _, err := os.Stat(filepath.Join(d.path, f)); err == nil {
			files = append(files, f)
		}
	}
	colIdx := func(f string) int {
		for i, c := range colFiles {
			if c == f {
				return i
			}
		}
		return -1
	}
	pickFile := func() string {
		if r.Intn(3) == 0 {
			return metaName
		}
		return files[r.Intn(len(files))]
	}
	restoreFile := func(p string, orig []byte) func() error {
		return func() error {
			os.RemoveAll(p)
			return writeFile(p, orig)
		}
	}
	m := &mutant{}
	tag := fmt.Sprintf("iface=%s day=%d", d.iface, d.day)
	metaUnreadable := func() {
		m.forced = "meta_unreadable"
		m.hit = func(q c08.Query) bool {
			if !selects(q, d.iface) {
				return false
			}
			for _, t := range d.ts {
				if inRange(q, t) {
					return true
				}
			}
			return false
		}
	}
	// forced skip if the query loads column col and block blk (which must hold data) is in range
	colBlockForced := func(class string, col int, blks []int) {
		m.forced = class
		m.hit = func(q c08.Query) bool {
			if !selects(q, d.iface) || !loadsCol(q, col) {
				return false
			}
			for _, b := range blks {
				if inRange(q, d.ts[b]) {
					return true
				}
			}
			return false
		}
	}
	switch k := r.Intn(24); {
	case k < 3: // truncate
		f := pickFile()
		p := filepath.Join(d.path, f)
		orig, _ := os.ReadFile(p)
		if len(orig) == 0 {
			return nil, fw.ErrSkip
		}
		nl := r.Intn(len(orig))
		switch r.Intn(4) {
		case 0:
			nl = len(orig) - 1
		case 1:
			nl = 0
		}
		m.kind, m.desc = "truncate", fmt.Sprintf("%s truncate %s from %d to %d bytes", tag, f, len(orig), nl)
		if err := os.Truncate(p, int64(nl)); err != nil {
			return nil, err
		}
		m.undo = restoreFile(p, orig)
		if f == metaName {
			if nl < 72+8*8+8 {
				metaUnreadable()
			}
		} else {
			// blocks of this column that reach beyond the new length
			col := colIdx(f)
			var blks []int
			off := 0
			for b := 0; b < lay.n; b++ {
				l := lay.blockLen(col, b)
				if l > 0 && lay.blockRawLen(col, b) > 0 && off+l > nl {
					blks = append(blks, b)
				}
				off += l
			}
			colBlockForced("column_truncated", col, blks)
		}
	case k < 4: // extend with garbage
		f := pickFile()
		p := filepath.Join(d.path, f)
		orig, _ := os.ReadFile(p)
		g := make([]byte, 1+r.Intn(64))
		r.Read(g)
		m.kind, m.desc = "extend", fmt.Sprintf("%s append %d garbage bytes to %s", tag, len(g), f)
		if err := writeFile(p, append(append([]byte{}, orig...), g...)); err != nil {
			return nil, err
		}
		m.undo = restoreFile(p, orig)
	case k < 7: // bit flips
		f := pickFile()
		p := filepath.Join(d.path, f)
		orig, _ := os.ReadFile(p)
		if len(orig) == 0 {
			return nil, fw.ErrSkip
		}
		mut := append([]byte{}, orig...)
		n := 1 + r.Intn(3)
		var where []string
		for i := 0; i < n; i++ {
			pos, bit := r.Intn(len(mut)), r.Intn(8)
			mut[pos] ^= 1 << bit
			where = append(where, fmt.Sprintf("%d.%d", pos, bit))
		}
		m.kind, m.desc = "bitflip", fmt.Sprintf("%s flip bits %s of %s (%d bytes)", tag, strings.Join(where, ","), f, len(orig))
		if err := writeFile(p, mut); err != nil {
			return nil, err
		}
		m.undo = restoreFile(p, orig)
	case k < 9: // byte run
		f := pickFile()
		p := filepath.Join(d.path, f)
		orig, _ := os.ReadFile(p)
		if len(orig) == 0 {
			return nil, fw.ErrSkip
		}
		mut := append([]byte{}, orig...)
		pos := r.Intn(len(mut))
		n := 1 + r.Intn(16)
		mode := r.Intn(3)
		for i := pos; i < pos+n && i < len(mut); i++ {
			switch mode {
			case 0:
				mut[i] = 0
			case 1:
				mut[i] = 0xff
			default:
				mut[i] = byte(r.Intn(256))
			}
		}
		m.kind, m.desc = "byterun", fmt.Sprintf("%s overwrite %d bytes at %d of %s (mode %d)", tag, n, pos, f, mode)
		if err := writeFile(p, mut); err != nil {
			return nil, err
		}
		m.undo = restoreFile(p, orig)
	case k < 10: // zero fill / garbage replacement
		f := pickFile()
		p := filepath.Join(d.path, f)
		orig, _ := os.ReadFile(p)
		var mut []byte
		if r.Intn(2) == 0 {
			mut = make([]byte, len(orig))
			m.kind, m.desc = "zerofill", fmt.Sprintf("%s zero-fill %s (%d bytes)", tag, f, len(orig))
		} else {
			mut = make([]byte, r.Intn(2*len(orig)+2))
			r.Read(mut)
			m.kind, m.desc = "garbage", fmt.Sprintf("%s replace %s (%d bytes) by %d random bytes", tag, f, len(orig), len(mut))
		}
		if err := writeFile(p, mut); err != nil {
			return nil, err
		}
		m.undo = restoreFile(p, orig)
	case k < 12: // swap two files of the day
		if len(files) < 3 {
			return nil, fw.ErrSkip
		}
		a, b := files[r.Intn(len(files))], files[r.Intn(len(files))]
		if a == b {
			return nil, fw.ErrSkip
		}
		pa, pb := filepath.Join(d.path, a), filepath.Join(d.path, b)
		oa, _ := os.ReadFile(pa)
		ob, _ := os.ReadFile(pb)
		m.kind, m.desc = "swap", fmt.Sprintf("%s swap %s and %s", tag, a, b)
		if err := writeFile(pa, ob); err != nil {
			return nil, err
		}
		if err := writeFile(pb, oa); err != nil {
			return nil, err
		}
		m.undo = func() error {
			if err := writeFile(pa, oa); err != nil {
				return err
			}
			return writeFile(pb, ob)
		}
	case k < 15: // delete / replace by directory / empty file
		f := pickFile()
		p := filepath.Join(d.path, f)
		orig, _ := os.ReadFile(p)
		mode := r.Intn(3)
		os.Remove(p)
		switch mode {
		case 0:
			m.kind, m.desc = "delete", fmt.Sprintf("%s delete %s", tag, f)
		case 1:
			m.kind, m.desc = "dir", fmt.Sprintf("%s replace %s by a directory", tag, f)
			if err := os.Mkdir(p, 0o755); err != nil {
				return nil, err
			}
		default:
			m.kind, m.desc = "emptyfile", fmt.Sprintf("%s replace %s by an empty file", tag, f)
			if err := writeFile(p, nil); err != nil {
				return nil, err
			}
		}
		m.undo = restoreFile(p, orig)
		if f == metaName {
			metaUnreadable()
		} else {
			col := colIdx(f)
			var blks []int
			for b := 0; b < lay.n; b++ {
				if lay.blockLen(col, b) > 0 && lay.blockRawLen(col, b) > 0 {
					blks = append(blks, b)
				}
			}
			if mode == 0 {
				colBlockForced("column_deleted", col, blks)
			} else if mode == 2 {
				colBlockForced("column_truncated", col, blks)
			}
		}
	case k < 16: // foreign .blockmeta of another day
		var others []dayRef
		for _, o := range days {
			if o.path != d.path {
				others = append(others, o)
			}
		}
		if len(others) == 0 {
			return nil, fw.ErrSkip
		}
		o := others[r.Intn(len(others))]
		foreign, err := os.ReadFile(filepath.Join(o.path, metaName))
		if err != nil {
			return nil, err
		}
		m.kind, m.desc = "foreign_meta", fmt.Sprintf("%s replace .blockmeta by the one of iface=%s day=%d", tag, o.iface, o.day)
		if err := writeFile(metaPath, foreign); err != nil {
			return nil, err
		}
		m.undo = restoreFile(metaPath, metaRaw)
	case k < 17: // forged directory-name suffix (timestamp prefix stays intact)
		base := filepath.Join(filepath.Dir(d.path), strconv.FormatInt(d.day, 10))
		sfx := []string{"", "_", "_1-2-3-4-5-6-7", "_zzzzzzzzzzzz-0-0-0-0-0-0", "_0-0-0", "_~~~-~~~-~~~-~~~-~~~-~~~-~~~", "_a_b_c", "_-------", "_" + strings.Repeat("9", 60) + "-1-1-1-1-1-1"}[r.Intn(9)]
		np := base + sfx
		if np == d.path {
			return nil, fw.ErrSkip
		}
		m.kind, m.desc = "suffix", fmt.Sprintf("%s rename day directory %s -> %s", tag, filepath.Base(d.path), filepath.Base(np))
		if err := os.Rename(d.path, np); err != nil {
			return nil, err
		}
		old := d.path
		m.undo = func() error { return os.Rename(np, old) }
	default: // targeted .blockmeta field forging
		mut := append([]byte{}, metaRaw...)
		blk := r.Intn(lay.n)
		col := r.Intn(8)
		val := interesting32[r.Intn(len(interesting32))]
		put32 := func(off int, name string, cur uint32) bool {
			switch r.Intn(4) {
			case 0:
				val = cur + 1
			case 1:
				val = cur - 1
			case 2:
				val = cur * 2
			}
			if val == cur {
				return false
			}
			binary.BigEndian.PutUint32(mut[off:], val)
			m.desc = fmt.Sprintf("%s forge .blockmeta %s: %d -> %d", tag, name, cur, val)
			return true
		}
		m.kind = "meta_field"
		okMut := true
		switch r.Intn(9) {
		case 0:
			v := []uint64{0, 2, 1 << 32, ^uint64(0)}[r.Intn(4)]
			binary.BigEndian.PutUint64(mut[0:], v)
			m.desc = fmt.Sprintf("%s forge .blockmeta version -> %d", tag, v)
		case 1:
			v := []uint64{0, uint64(lay.n - 1), uint64(lay.n + 1), uint64(2 * lay.n), 1 << 31, 1 << 40, ^uint64(0)}[r.Intn(7)]
			switch r.Intn(3) {
			case 0: // single bit flip anywhere in the 64-bit counter (a plausible count with a high bit set)
				v = uint64(lay.n) ^ (1 << uint(r.Intn(64)))
			case 1: // counts that wrap size computations (n*perBlock, n*8, n*16 ...) around 2^64
				v = uint64(lay.n) + uint64(1+r.Intn(7))<<61
				if r.Intn(2) == 0 {
					v = (^uint64(0))/uint64([]int{8, 16, 24, 88, 96}[r.Intn(5)]) + uint64(r.Intn(3))
				}
			}
			if int(v) == lay.n {
				return nil, fw.ErrSkip
			}
			binary.BigEndian.PutUint64(mut[8:], v)
			m.desc = fmt.Sprintf("%s forge .blockmeta nBlocks: %d -> %d", tag, lay.n, v)
		case 2:
			okMut = put32(lay.descOff(col, blk), fmt.Sprintf("Len of %s block %d (ts %d)", colFiles[col], blk, d.ts[blk]), uint32(lay.blockLen(col, blk)))
		case 3, 4:
			okMut = put32(lay.descOff(col, blk)+4, fmt.Sprintf("RawLen of %s block %d (ts %d)", colFiles[col], blk, d.ts[blk]), uint32(lay.blockRawLen(col, blk)))
		case 5:
			off := lay.descOff(col, blk) + 8
			cur := mut[off]
			nv := []byte{0, 1, 2, 3, 4, 7, 0x7f, 0xff}[r.Intn(8)]
			if nv == cur {
				return nil, fw.ErrSkip
			}
			mut[off] = nv
			m.desc = fmt.Sprintf("%s forge .blockmeta encoder of %s block %d (ts %d): %d -> %d", tag, colFiles[col], blk, d.ts[blk], cur, nv)
		case 6:
			off := lay.trafficOff(blk)
			cur := binary.BigEndian.Uint32(mut[off:])
			okMut = put32(off, fmt.Sprintf("NumV4Entries of block %d (ts %d)", blk, d.ts[blk]), cur)
			if okMut {
				m.forced = "v4count_forged"
				b := blk
				m.hit = func(q c08.Query) bool {
					return selects(q, d.iface) && (loadsCol(q, colSIP) || loadsCol(q, colDIP)) && inRange(q, d.ts[b])
				}
			}
		case 7:
			off := lay.trafficOff(blk) + 4
			okMut = put32(off, fmt.Sprintf("NumV6Entries of block %d (ts %d)", blk, d.ts[blk]), binary.BigEndian.Uint32(mut[off:]))
		default:
			if r.Intn(2) == 0 {
				off := lay.tsBaseOff()
				cur := binary.BigEndian.Uint64(mut[off:])
				nv := []uint64{0, cur + 86400, cur - 86400, cur + 1, cur - 300, 1 << 62, ^uint64(0), cur + 86400*3}[r.Intn(8)]
				binary.BigEndian.PutUint64(mut[off:], nv)
				m.desc = fmt.Sprintf("%s forge .blockmeta base timestamp: %d -> %d", tag, cur, nv)
			} else {
				off := lay.trafficOff(blk) + 12
				okMut = put32(off, fmt.Sprintf("timestamp delta of block %d", blk), binary.BigEndian.Uint32(mut[off:]))
			}
		}
		if !okMut {
			return nil, fw.ErrSkip
		}
		if err := writeFile(metaPath, mut); err != nil {
			return nil, err
		}
		m.undo = restoreFile(metaPath, metaRaw)
	}
	return m, nil
}

// ---------------------------------------------------------------------------------------------

func findDays(dbPath string, db *gen.RefDB) ([]dayRef, error) {
	var out []dayRef
	for _, id := range db.Ifaces {
		byDay := map[int64][]int64{}
		for _, b := range id.Blocks {
			byDay[gen.DayStart(b.TS)] = append(byDay[gen.DayStart(b.TS)], b.TS)
		}
		matches, _ := filepath.Glob(filepath.Join(dbPath, id.Name, "*", "*", "*"))
		for _, p := range matches {
			name := filepath.Base(p)
			pre, _, _ := strings.Cut(name, "_")
			day, err := strconv.ParseInt(pre, 10, 64)
			if err != nil {
				return nil, fmt.Errorf("unexpected directory %s", p)
			}
			ts, ok := byDay[day]
			if !ok {
				return nil, fmt.Errorf("directory %s has no counterpart in the RefDB", p)
			}
			out = append(out, dayRef{iface: id.Name, day: day, path: p, ts: ts})
			delete(byDay, day)
		}
		if len(byDay) != 0 {
			return nil, fmt.Errorf("iface %s: %d days of the RefDB have no directory", id.Name, len(byDay))
		}
	}
	sort.Slice(out, func(i, j int) bool { return out[i].path < out[j].path })
	return out, nil
}

type poolQuery struct {
	q        c08.Query
	want     ref.Rows
	baseline uint64 // BlocksCorrupted on the pristine DB
}

func runQuery(c *fw.Case, dbPath string, q c08.Query, what string) (rows ref.Rows, corrupted uint64, err error, pmsg string) {
	a := eng.Args(q.Type, q.Ifaces, q.Cond, q.Spec.First, q.Spec.Last)
	a.LowMem = q.LowMem
	c.Note("%s | %s", what, q.Describe())
	res, err, pmsg := eng.Run(dbPath, a)
	if err != nil || pmsg != "" || res == nil {
		return nil, 0, err, pmsg
	}
	rows, _ = ref.FromResult(res.Rows, q.Spec)
	if res.Summary.Stats != nil {
		corrupted = res.Summary.Stats.BlocksCorrupted
	}
	return rows, corrupted, nil, ""
}

func listing(dbPath, iface string, first, last int64) (err error, pmsg string) {
	defer func() {
		if r := recover(); r != nil {
			pmsg = fmt.Sprintf("%v\n%s", r, debug.Stack())
		}
	}()
	wm, err := goDB.NewDBWorkManager(goDB.NewMetadataQuery(), dbPath, iface, runtime.NumCPU())
	if err != nil {
		return err, ""
	}
	_, err = wm.ReadMetadata(first, last)
	return err, ""
}

func split(rows ref.Rows, iface string, day int64) (outside ref.Rows) {
	outside = ref.Rows{}
	for k, v := range rows {
		if k.Iface == iface && gen.DayStart(k.TS) == day {
			continue
		}
		outside[k] = v
	}
	return outside
}

func run(c *fw.Case) {
	r := c.Rng
	engine.VerifSetNumProcessingUnits(1 + r.Intn(4))
	db := gen.RandRefDB(r, gen.DBOpts{MaxIfaces: 3, MaxDays: 3, MaxBlocksDay: 4, MaxFlows: 10,
		Flow: gen.FlowOpts{V6Prob: 0.45, ZeroProb: 0.03, BigCounters: r.Intn(2) == 0}, OffGrid: r.Intn(2) == 0})
	rdr.Sanitize(db)
	dbPath := c.Tmp + "/db"
	enc := []encoders.Type{encoders.EncoderTypeLZ4, encoders.EncoderTypeZSTD, encoders.EncoderTypeNull}[r.Intn(3)]
	if err := db.Write(dbPath, enc, 0); err != nil {
		c.Violatef("write_error", "writing generated DB failed: %v", err)
		return
	}
	days, err := findDays(dbPath, db)
	if err != nil {
		c.Inconclusive("layout: %v", err)
		return
	}
	tss := db.AllTimestamps()
	// query pool, validated on the pristine database
	var pool []poolQuery
	for len(pool) < 8 {
		q := rdr.SafeQuery(r, db, rdr.QueryOpts{ForceTime: true, NoDir: true, FullRange: len(pool)%2 == 0})
		want := ref.Query(db, q.Spec)
		got, corrupted, err, pmsg := runQuery(c, dbPath, q, "pristine")
		if pmsg != "" || err != nil {
			c.Violatef("pristine_query_failed", "db{%s} %s: err=%v panic=%s", db.Summary(), q.Describe(), err, firstLines(pmsg, 10))
			return
		}
		if d := ref.Diff(want, got); d != "" {
			c.Violatef("pristine_result_vs_oracle|"+c08.CondClass(q), "db{%s} enc=%s %s: %s", db.Summary(), enc, q.Describe(), d)
			return
		}
		pool = append(pool, poolQuery{q: q, want: want, baseline: corrupted})
	}
	nMut := 30
	if c.Tier == "thorough" {
		nMut = 50
	}
	for mi := 0; mi < nMut; mi++ {
		d := days[r.Intn(len(days))]
		m, err := makeMutant(r, d, days)
		if err == fw.ErrSkip {
			continue
		}
		if err != nil {
			c.Inconclusive("cannot apply mutation on %s: %v", d.path, err)
			return
		}
		c.Count("mutants", 1)
		c.Count("mut_"+m.kind, 1)
		desc := fmt.Sprintf("db{%s} enc=%s mutation{%s}", db.Summary(), enc, m.desc)
		if mi == 0 {
			c.Sample(map[string]any{"db": db.Summary(), "encoder": enc.String(), "mutation": m.desc, "query": pool[0].q.Describe()})
		}
		nontrivial := false
		for _, pi := range r.Perm(len(pool))[:2+r.Intn(2)] {
			p := pool[pi]
			got, corrupted, qerr, pmsg := runQuery(c, dbPath, p.q, m.desc)
			c.Count("queries", 1)
			if p.q.LowMem {
				c.Count("queries_lowmem", 1)
			}
			if !loadsCol(p.q, colSIP) && !loadsCol(p.q, colDIP) {
				c.Count("queries_no_ip_column", 1)
			}
			wantOutside := split(p.want, d.iface, d.day)
			touches := false
			if selects(p.q, d.iface) {
				for _, t := range d.ts {
					if inRange(p.q, t) {
						touches = true
					}
				}
			}
			if touches && len(wantOutside) > 0 {
				nontrivial = true
			}
			switch {
			case pmsg != "":
				c.Violatef("panic|"+m.kind, "%s %s: panic: %s", desc, p.q.Describe(), firstLines(pmsg, 16))
				continue
			case qerr != nil:
				if len(wantOutside) > 0 {
					c.Violatef("query_fails_instead_of_skipping|"+m.kind, "%s %s: the whole query failed (%v) although %d rows of undamaged days / interfaces are expected", desc, p.q.Describe(), qerr, len(wantOutside))
				} else {
					c.Count("query_error_only_damaged_day_expected", 1)
				}
				continue
			}
			c.Count("containment_checks", 1)
			gotOutside := split(got, d.iface, d.day)
			if diff := ref.Diff(wantOutside, gotOutside); diff != "" {
				c.Violatef("containment|"+m.kind+"|"+ref.DiffClass(wantOutside, gotOutside), "%s %s: rows outside the damaged day differ from the stored flows: %s", desc, p.q.Describe(), diff)
			}
			if m.hit != nil && m.hit(p.q) {
				c.Count("forced_skip_checks", 1)
				c.Count("forced_skip_"+m.forced, 1)
				if corrupted <= p.baseline {
					c.Violatef("skipped_blocks_not_counted|"+m.forced, "%s %s: a block of the range had to be skipped by construction, but Stats.BlocksCorrupted=%d (pristine: %d); result has %d rows", desc, p.q.Describe(), corrupted, p.baseline, len(got))
				}
			}
		}
		// a query without the time attribute and the listing: no-crash clause only
		if r.Intn(2) == 0 {
			q := rdr.SafeQuery(r, db, rdr.QueryOpts{})
			_, _, _, pmsg := runQuery(c, dbPath, q, m.desc)
			c.Count("queries", 1)
			c.Count("queries_nocrash_only", 1)
			if pmsg != "" {
				c.Violatef("panic|"+m.kind, "%s %s: panic: %s", desc, q.Describe(), firstLines(pmsg, 16))
			}
		}
		first, last := tss[0]-1000, tss[len(tss)-1]+1000
		if r.Intn(2) == 0 {
			first, last = d.ts[0]-int64(r.Intn(400)), d.ts[len(d.ts)-1]+int64(r.Intn(400))-200
			if last < first {
				last = first
			}
		}
		c.Note("%s | listing %s %d..%d", m.desc, d.iface, first, last)
		lerr, lp := listing(dbPath, d.iface, first, last)
		c.Count("listings", 1)
		if lp != "" {
			c.Violatef("panic_listing|"+m.kind, "%s ReadMetadata(%s, %d, %d): panic: %s", desc, d.iface, first, last, firstLines(lp, 16))
		}
		if lerr != nil {
			c.Count("listing_errors", 1)
		}
		if nontrivial {
			c.Count("mutants_nontrivial", 1)
			c.Nontrivial(db.Summary() + m.desc)
		}
		if err := m.undo(); err != nil {
			c.Inconclusive("cannot undo mutation %s: %v", m.desc, err)
			return
		}
	}
	// the undo logic must have restored the pristine database
	for _, p := range pool[:2] {
		got, _, err, pmsg := runQuery(c, dbPath, p.q, "after undo")
		if err != nil || pmsg != "" || ref.Diff(p.want, got) != "" {
			c.Inconclusive("harness: database not pristine after undoing all mutations (%v %s %s)", err, firstLines(pmsg, 5), ref.Diff(p.want, got))
			return
		}
	}
}

func firstLines(s string, n int) string {
	l := strings.Split(s, "\n")
	if len(l) > n {
		l = l[:n]
	}
	return strings.Join(l, "\n")
}
