// Package c09: conditions follow Boolean logic over per-flow comparisons.
//
// Every generated condition AST is rendered to text, handed to goProbe's real
// node.ParseAndInstrument, and the resulting Node is evaluated on a pool of flow keys; the verdict of
// every single evaluation is compared with the harness oracle (gen.Cond.Eval, net/netip arithmetic, no
// shared code). Keys live in guarded buffers (exact capacity and cut out of a larger buffer with
// canaries on both sides) and are compared byte for byte with a snapshot after every evaluation.
package c09

import (
	"fmt"
	"math/rand"
	"net/netip"
	"sort"
	"strings"
	"sync"

	"github.com/els0r/goProbe/v4/pkg/goDB"
	"github.com/els0r/goProbe/v4/pkg/goDB/conditions/node"
	"github.com/els0r/goProbe/v4/pkg/types"
	"github.com/els0r/goProbe/v4/pkg/types/hashmap"
	"verifharness/condx"
	"verifharness/fw"
	"verifharness/gen"
)

func init() {
	fw.Register(&fw.Check{
		ID:    "C09",
		Level: "exploration",
		Rule: "case = N seeded condition ASTs (depth<=5; leaves over sip/dip/snet/dnet/dport/proto and the sugar host/net/src/dst/port/protocol/ipproto; " +
			"all six comparators on numbers, =/!= on addresses; literals from the small colliding alphabets and random addresses; every prefix length 0..32 / 0..128; " +
			"rendered fully parenthesised or relying on the documented precedence), each parsed by the real ParseAndInstrument and evaluated on a flow pool " +
			"(alphabet sample + every leaf constant, its +-1-bit neighbours around the prefix boundary, network/broadcast address, the same bytes transplanted into the other IP family, numbers +-1) " +
			"in two key layouts (exact capacity, spare capacity with canaries), plus the same pool pushed through goDB.QueryFilter. " +
			"An evaluation is non-trivial iff the condition has an address/network leaf and is evaluated on flows of both families with both truth values occurring; distinct by condition text.",
		Assumptions: []string{
			"oracle interpretation (DESIGN 2.3): '=' on an address/network is true iff same family and match; '!=' is the exact complement of '='",
			"keys handed to Evaluate are well-formed 11- or 35-byte keys (types.Key of any other length panics by contract in Key.IsIPv4)",
			"conditions contain no host names (no DNS) and no IPv4-mapped IPv6 literals",
		},
		NumCases: func(tier, variant string) int {
			if tier == "thorough" {
				if variant == "race" {
					return 200
				}
				return 2000
			}
			return 64
		},
		Variants: func(tier string) []string {
			if tier == "thorough" {
				return []string{"default", "race"}
			}
			return []string{"default"}
		},
		Run: run,
		Require: []string{"conditions", "evaluations", "eval_true", "eval_false", "eval_cross_family", "leaf_net_unaligned", "leaf_net_aligned",
			"leaf_ne", "node_not", "node_or", "node_and", "sugar_conditions", "key_layout_exact", "key_layout_spare", "precedence_renderings",
			"queryfilter_runs", "queryfilter_rows_selected", "algebra_not_checked", "algebra_desugar_checked", "concurrent_evaluations",
			"prefix_lengths_v4_seen", "prefix_lengths_v6_seen"},
	})
}

// randAddr draws an address: half from the colliding alphabets, half random bytes.
func randAddr(r *rand.Rand, v6 bool) netip.Addr {
	if r.Intn(2) == 0 {
		if v6 {
			return gen.V6Addrs[r.Intn(len(gen.V6Addrs))]
		}
		return gen.V4Addrs[r.Intn(len(gen.V4Addrs))]
	}
	if v6 {
		var b [16]byte
		r.Read(b[:])
		if r.Intn(3) == 0 { // sparse address (long zero runs, "::" compression)
			for i := 2; i < 14; i++ {
				b[i] = 0
			}
		}
		if b[10] == 0xff && b[11] == 0xff { // never an IPv4-mapped literal
			b[10] = 0xfe
		}
		a := netip.AddrFrom16(b)
		if a.Is4In6() || strings.Contains(a.String(), ".") {
			return gen.V6Addrs[0]
		}
		return a
	}
	var b [4]byte
	r.Read(b[:])
	return netip.AddrFrom4(b)
}

// randLeaf draws a leaf with uniformly distributed prefix lengths and wide literals (gen.RandLeaf
// only uses the boundary prefix lengths and the small alphabets).
func randLeaf(r *rand.Rand) *gen.Cond {
	if r.Intn(2) == 0 {
		return gen.RandLeaf(r, true)
	}
	c := &gen.Cond{Kind: gen.CCmp, Op: "="}
	if r.Intn(3) == 0 {
		c.Op = "!="
	}
	v6 := r.Intn(2) == 0
	switch r.Intn(6) {
	case 0:
		c.Attr = []string{"sip", "dip", "src", "dst", "host"}[r.Intn(5)]
		c.Addr = randAddr(r, v6)
	case 1, 2, 3:
		c.Attr = []string{"snet", "dnet", "net", "snet", "dnet"}[r.Intn(5)]
		a := randAddr(r, v6)
		c.Net = netip.PrefixFrom(a, r.Intn(a.BitLen()+1))
	case 4:
		c.Attr = []string{"dport", "port"}[r.Intn(2)]
		c.Op = []string{"=", "!=", "<", ">", "<=", ">="}[r.Intn(6)]
		c.Num = []int{0, 1, 255, 256, 257, 65535, 65534, r.Intn(65536)}[r.Intn(8)]
	default:
		c.Attr = []string{"proto", "protocol", "ipproto"}[r.Intn(3)]
		c.Op = []string{"=", "!=", "<", ">", "<=", ">="}[r.Intn(6)]
		c.Num = []int{0, 1, 6, 17, 58, 254, 255, r.Intn(256)}[r.Intn(8)]
	}
	return c
}

func randCond(r *rand.Rand, depth int) *gen.Cond {
	if depth <= 1 || r.Intn(4) == 0 {
		return randLeaf(r)
	}
	switch r.Intn(5) {
	case 0, 1:
		return &gen.Cond{Kind: gen.CAnd, L: randCond(r, depth-1), R: randCond(r, depth-1)}
	case 2, 3:
		return &gen.Cond{Kind: gen.COr, L: randCond(r, depth-1), R: randCond(r, depth-1)}
	}
	return &gen.Cond{Kind: gen.CNot, L: randCond(r, depth-1)}
}

// sameFieldCond builds formulas whose clauses inspect the same field, a non-byte-aligned network
// first (if evaluating it altered the key, the later clause would see the altered address).
func sameFieldCond(r *rand.Rand) *gen.Cond {
	v6 := r.Intn(2) == 0
	a := randAddr(r, v6)
	bits := 1 + r.Intn(a.BitLen()-1)
	if bits%8 == 0 {
		bits++
	}
	src := r.Intn(2) == 0
	netAttr, ipAttr := "dnet", "dip"
	if src {
		netAttr, ipAttr = "snet", "sip"
	}
	n := &gen.Cond{Kind: gen.CCmp, Attr: netAttr, Op: []string{"=", "!="}[r.Intn(2)], Net: netip.PrefixFrom(a, bits)}
	// second clause: the exact address inside / next to that network, or a longer prefix of it
	var second *gen.Cond
	if r.Intn(2) == 0 {
		second = &gen.Cond{Kind: gen.CCmp, Attr: ipAttr, Op: []string{"=", "!="}[r.Intn(2)], Addr: a}
	} else {
		second = &gen.Cond{Kind: gen.CCmp, Attr: netAttr, Op: "=", Net: netip.PrefixFrom(a, bits+r.Intn(a.BitLen()-bits+1))}
	}
	k := []gen.CondKind{gen.CAnd, gen.COr}[r.Intn(2)]
	c := &gen.Cond{Kind: k, L: n, R: second}
	if r.Intn(3) == 0 {
		c = &gen.Cond{Kind: k, L: c, R: randLeaf(r)}
	}
	return c
}

type leafCache struct {
	m map[string]node.Node
}

func (lc *leafCache) get(l *gen.Cond) node.Node {
	t := l.String()
	if n, ok := lc.m[t]; ok {
		return n
	}
	n, _, err, pm := condx.Parse(t)
	if err != nil || pm != "" {
		n = nil
	}
	lc.m[t] = n
	return n
}

// evalFresh evaluates n on a fresh guarded key of f.
func evalFresh(n node.Node, f gen.Flow, layout condx.KeyLayout) (res bool, panicMsg, changed string) {
	g := condx.NewGuardedKey(f, layout)
	res, panicMsg = condx.Eval(n, g.Key)
	return res, panicMsg, g.Changed()
}

// localise finds the smallest witness for a failure of cond on f: a single leaf that already fails on
// its own (kind = "leaf"), or a smallest sub-tree whose leaves are individually right (kind =
// "composition").
func localise(lc *leafCache, cond *gen.Cond, f gen.Flow, layout condx.KeyLayout, fails func(got bool, pm, ch string, want bool) bool) (class, witness string) {
	for _, l := range cond.Leaves() {
		n := lc.get(l)
		if n == nil {
			continue
		}
		got, pm, ch := evalFresh(n, f, layout)
		if fails(got, pm, ch, l.Eval(f)) {
			return condx.LeafClass(l, f), fmt.Sprintf("minimal: condition %q on flow %s (key layout %d): goProbe=%v oracle=%v panic=%q key: %s",
				l.String(), f.KeyString(), layout, got, l.Eval(f), condx.FirstLine(pm), orStr(ch, "unchanged"))
		}
	}
	min := condx.ShrinkCond(cond, func(sub *gen.Cond) bool {
		n, _, err, pm := condx.Parse(sub.String())
		if err != nil || pm != "" {
			return false
		}
		got, pm2, ch := evalFresh(n, f, layout)
		return fails(got, pm2, ch, sub.Eval(f))
	})
	shape := map[gen.CondKind]string{gen.CAnd: "and", gen.COr: "or", gen.CNot: "not", gen.CCmp: "leaf"}[min.Kind]
	if min.Kind == gen.CNot {
		shape += "_over_" + map[gen.CondKind]string{gen.CAnd: "and", gen.COr: "or", gen.CNot: "not", gen.CCmp: "leaf"}[min.L.Kind]
	}
	return "composition:" + shape, fmt.Sprintf("minimal: condition %q on flow %s (every leaf alone is evaluated correctly)", min.String(), f.KeyString())
}

func orStr(s, d string) string {
	if s == "" {
		return d
	}
	return s
}

type caseState struct {
	c     *fw.Case
	seen  map[string]bool
	total int // violations found in this case including repetitions of a signature
}

// maxViolationsPerCase bounds the work (every violation is localised to a minimal witness) on a tree
// that is thoroughly broken: the case stops generating further conditions after that many.
const maxViolationsPerCase = 150

func (s *caseState) violate(sig, format string, args ...any) {
	s.total++
	if s.seen[sig] {
		s.c.Count("violations_suppressed_same_signature", 1)
		return
	}
	s.seen[sig] = true
	s.c.Violatef(sig, format, args...)
}

func run(c *fw.Case) {
	r := c.Rng
	st := &caseState{c: c, seen: map[string]bool{}}
	lc := &leafCache{m: map[string]node.Node{}}
	nConds := 50
	if c.Tier == "thorough" {
		nConds = 100
	}
	attrs, selector, err := types.ParseQueryType("sip,dip,dport,proto")
	if err != nil {
		c.Inconclusive("ParseQueryType: %v", err)
		return
	}
	var kept []parsed
	for i := 0; i < nConds; i++ {
		if st.total > maxViolationsPerCase {
			c.Count("conditions_skipped_after_many_violations", nConds-i)
			break
		}
		var cond *gen.Cond
		switch {
		case i%5 == 4:
			cond = sameFieldCond(r)
			c.Count("same_field_conditions", 1)
		default:
			cond = randCond(r, 1+r.Intn(5))
		}
		condx.FixProtoNames(cond)
		// rendering: fully parenthesised (gen renderer) or relying on the documented precedence
		text := cond.String()
		if r.Intn(2) == 0 {
			rd := condx.RandStyle(r, cond, condx.StyleOpts{ForceProb: 0.2}).Render()
			text = rd.Text
			if rd.MinParens {
				c.Count("precedence_renderings", 1)
			}
		}
		c.Count("conditions", 1)
		countShape(c, cond)
		c.Note("ParseAndInstrument(%q)", text)
		n, _, perr, pm := condx.Parse(text)
		if pm != "" {
			st.violate("panic_parse|"+condx.PanicFrame(pm), "ParseAndInstrument(%q) panicked: %s", text, pm)
			continue
		}
		if perr != nil || n == nil {
			st.violate("valid_condition_rejected", "ParseAndInstrument(%q) failed: %v", text, perr)
			continue
		}
		pool := condx.BuildPool(r, []*gen.Cond{cond}, 40)
		nTrue, nFalse, sawV4, sawV6 := 0, 0, false, false
		for _, f := range pool {
			if st.total > maxViolationsPerCase {
				break
			}
			want := cond.Eval(f)
			if want {
				nTrue++
			} else {
				nFalse++
			}
			if f.IsV4() {
				sawV4 = true
			} else {
				sawV6 = true
			}
			for layout := condx.KeyLayout(0); layout < condx.NumKeyLayouts; layout++ {
				g := condx.NewGuardedKey(f, layout)
				got, pm := condx.Eval(n, g.Key)
				ch := g.Changed()
				c.Count("evaluations", 1)
				switch {
				case pm != "":
					class, wit := localise(lc, cond, f, layout, func(_ bool, pm, _ string, _ bool) bool { return pm != "" })
					st.violate("panic_evaluate|"+condx.PanicFrame(pm)+"|"+class, "Evaluate panicked: %s\ncondition %q flow %s key layout %d\n%s\n%s",
						condx.FirstLine(pm), text, f.KeyString(), layout, wit, pm)
				case got != want:
					class, wit := localise(lc, cond, f, layout, func(got bool, pm, _ string, want bool) bool { return pm == "" && got != want })
					st.violate("truth|"+class, "condition %q on flow %s: goProbe=%v oracle=%v\n%s", text, f.KeyString(), got, want, wit)
				}
				if ch != "" {
					class, wit := localise(lc, cond, f, layout, func(_ bool, _, ch string, _ bool) bool { return ch != "" })
					st.violate("flow_changed_by_evaluate|"+class, "condition %q on flow %s key layout %d: %s\n%s", text, f.KeyString(), layout, ch, wit)
				}
			}
		}
		// IP-family pruning: the query workers skip the IPv4 (IPv6) part of every block if
		// node.IPVersion classifies the condition as IPv6-only (IPv4-only), i.e. the classification
		// is part of what the condition selects. It is sound only if no flow of the skipped family
		// satisfies the formula (oracle truth, not goProbe's own evaluation).
		if ipv := node.IPVersion(n); ipv == types.IPVersionV4 || ipv == types.IPVersionV6 {
			c.Count("family_pruning_checked", 1)
			for _, f := range pool {
				if cond.Eval(f) && f.IsV4() != (ipv == types.IPVersionV4) {
					st.violate("family_pruning_unsound|"+pruneClass(cond), "condition %q is classified as %v-only (node.IPVersion), so queries skip all flows of the other family, but the formula is true for flow %s", text, ipv, f.KeyString())
					break
				}
			}
		}
		c.Count("key_layout_exact", len(pool))
		c.Count("key_layout_spare", len(pool))
		c.Count("eval_true", nTrue)
		c.Count("eval_false", nFalse)
		if cond.MentionsIP() {
			for _, f := range pool {
				for _, l := range cond.Leaves() {
					if cross(l, f) {
						c.Count("eval_cross_family", 1)
						break
					}
				}
			}
			if nTrue > 0 && nFalse > 0 && sawV4 && sawV6 {
				c.Count("conditions_nontrivial", 1)
				c.Nontrivial(text)
			}
		}
		kept = append(kept, parsed{cond, text, n, pool})
		if i == 0 {
			c.Sample(map[string]any{"condition": text, "pool_flows": len(pool), "oracle_true": nTrue, "oracle_false": nFalse,
				"example_flow": pool[0].KeyString(), "example_oracle": cond.Eval(pool[0])})
		}

		// algebraic cross-checks between real nodes (independent of the oracle's interpretation)
		algebra(c, st, r, cond, text, n, pool)

		// the same pool through goDB.QueryFilter (live-query path)
		if i%2 == 0 {
			queryFilter(c, st, r, attrs, selector, cond, text, n, pool)
		}
	}
	concurrent(c, st, kept)
}

func cross(l *gen.Cond, f gen.Flow) bool {
	switch l.Attr {
	case "sip", "dip", "src", "dst", "host":
		return l.Addr.Is4() != f.IsV4()
	case "snet", "dnet", "net":
		return l.Net.Addr().Is4() != f.IsV4()
	}
	return false
}

func countShape(c *fw.Case, cond *gen.Cond) {
	var walk func(x *gen.Cond)
	walk = func(x *gen.Cond) {
		switch x.Kind {
		case gen.CAnd:
			c.Count("node_and", 1)
			walk(x.L)
			walk(x.R)
		case gen.COr:
			c.Count("node_or", 1)
			walk(x.L)
			walk(x.R)
		case gen.CNot:
			c.Count("node_not", 1)
			walk(x.L)
		default:
			if x.Op == "!=" {
				c.Count("leaf_ne", 1)
			}
			switch x.Attr {
			case "snet", "dnet", "net":
				if x.Net.Bits()%8 == 0 {
					c.Count("leaf_net_aligned", 1)
				} else {
					c.Count("leaf_net_unaligned", 1)
				}
				if x.Net.Addr().Is4() {
					c.Count("prefix_lengths_v4_seen", 1)
					c.Nontrivial(fmt.Sprintf("prefix4/%d", x.Net.Bits()))
				} else {
					c.Count("prefix_lengths_v6_seen", 1)
					c.Nontrivial(fmt.Sprintf("prefix6/%d", x.Net.Bits()))
				}
			case "sip", "dip", "src", "dst", "host":
				c.Count("leaf_ip", 1)
			default:
				c.Count("leaf_num", 1)
			}
		}
	}
	walk(cond)
	if condx.HasSugar(cond) {
		c.Count("sugar_conditions", 1)
	}
}

// algebra checks, on the same pool and between real nodes only: !(c) is the complement of c; the
// documented expansion of the sugar selects the same flows; a leaf with the comparator exchanged for
// its opposite is the complement.
func algebra(c *fw.Case, st *caseState, r *rand.Rand, cond *gen.Cond, text string, n node.Node, pool []gen.Flow) {
	type variant struct {
		name, text string
		negated    bool
	}
	vs := []variant{{"not", "!(" + text + ")", true}}
	if condx.HasSugar(cond) {
		vs = append(vs, variant{"desugar", condx.Desugared(cond).String(), false})
	}
	if cond.Kind == gen.CCmp {
		opp := map[string]string{"=": "!=", "!=": "=", "<": ">=", ">": "<=", "<=": ">", ">=": "<"}[cond.Op]
		cp := *cond
		cp.Op = opp
		vs = append(vs, variant{"opposite_comparator", cp.String(), true})
	}
	for _, v := range vs {
		vn, _, err, pm := condx.Parse(v.text)
		if pm != "" {
			st.violate("panic_parse|"+condx.PanicFrame(pm), "ParseAndInstrument(%q) panicked: %s", v.text, pm)
			continue
		}
		if err != nil || vn == nil {
			st.violate("valid_condition_rejected", "ParseAndInstrument(%q) failed: %v", v.text, err)
			continue
		}
		c.Count("algebra_"+v.name+"_checked", 1)
		for _, f := range pool {
			a, pa, _ := evalFresh(n, f, condx.KeyExact)
			b, pb, _ := evalFresh(vn, f, condx.KeyExact)
			if pa != "" || pb != "" {
				continue // reported by the main loop with a localised witness
			}
			if (a != b) != v.negated {
				class := "same_family"
				for _, l := range cond.Leaves() {
					if cross(l, f) {
						class = "cross_family"
					}
				}
				rel := map[bool]string{true: "the complement of", false: "equivalent to"}[v.negated]
				st.violate("algebra_"+v.name+"|"+class, "%q must be %s %q, but on flow %s they evaluate to %v and %v", v.text, rel, text, f.KeyString(), b, a)
				break
			}
		}
	}
}

// queryFilter pushes the pool through goDB.QueryFilter and compares the selected rows with the oracle;
// the input map must be unchanged (same keys, same counters, every key still retrievable).
func queryFilter(c *fw.Case, st *caseState, r *rand.Rand, attrs []types.Attribute, selector types.LabelSelector, cond *gen.Cond, text string, n node.Node, pool []gen.Flow) {
	in := hashmap.NewAggFlowMap()
	want := map[string]types.Counters{}
	all := map[string]types.Counters{}
	for i, f := range pool {
		f.BR, f.BS, f.PR, f.PS = uint64(i+1), uint64(r.Intn(1000)), uint64(r.Intn(5)), uint64(r.Intn(5))
		in.SetOrUpdate(f.Key(), f.IsV4(), f.BR, f.BS, f.PR, f.PS)
		all[string(f.Key())] = f.Counters()
		if cond.Eval(f) {
			want[string(f.Key())] = f.Counters()
		}
	}
	q := goDB.NewQuery(attrs, n, selector)
	var out *hashmap.AggFlowMap
	pm := func() (pm string) {
		defer func() {
			if rec := recover(); rec != nil {
				pm = fmt.Sprint(rec)
			}
		}()
		out = goDB.QueryFilter(q)(in)
		return ""
	}()
	c.Count("queryfilter_runs", 1)
	if pm != "" {
		st.violate("queryfilter_panic", "QueryFilter with condition %q panicked: %s", text, pm)
		return
	}
	got := dump(out)
	c.Count("queryfilter_rows_selected", len(want))
	if d := diffMaps(want, got); d != "" {
		st.violate("queryfilter_rows", "QueryFilter with condition %q: %s", text, d)
	}
	after := dump(in)
	if d := diffMaps(all, after); d != "" {
		st.violate("queryfilter_input_changed", "QueryFilter with condition %q altered its input map: %s", text, d)
		return
	}
	for k := range all {
		m := in.PrimaryMap
		if len(k) == types.KeyWidthIPv6 {
			m = in.SecondaryMap
		}
		if _, ok := m.Get([]byte(k)); !ok {
			st.violate("queryfilter_input_changed", "QueryFilter with condition %q: key % x can no longer be found in the input map", text, k)
			return
		}
	}
}

func dump(m *hashmap.AggFlowMap) map[string]types.Counters {
	out := map[string]types.Counters{}
	if m == nil {
		return out
	}
	for it := m.Iter(); it.Next(); {
		out[string(it.Key())] = it.Val()
	}
	return out
}

func diffMaps(want, got map[string]types.Counters) string {
	var msgs []string
	keys := map[string]bool{}
	for k := range want {
		keys[k] = true
	}
	for k := range got {
		keys[k] = true
	}
	ks := make([]string, 0, len(keys))
	for k := range keys {
		ks = append(ks, k)
	}
	sort.Strings(ks)
	for _, k := range ks {
		w, wok := want[k]
		g, gok := got[k]
		name := gen.FlowFromKey([]byte(k), types.Counters{}).KeyString()
		switch {
		case wok && !gok:
			msgs = append(msgs, "missing "+name)
		case !wok && gok:
			msgs = append(msgs, "unexpected "+name)
		case w != g:
			msgs = append(msgs, fmt.Sprintf("%s counters %v != %v", name, g, w))
		}
		if len(msgs) > 4 {
			break
		}
	}
	return strings.Join(msgs, "; ")
}

type parsed struct {
	cond *gen.Cond
	text string
	n    node.Node
	pool []gen.Flow
}

// concurrent evaluates the instrumented nodes of the case from several goroutines at once, each on
// its own keys (as the query workers do): results must still agree with the oracle; under the race
// build variant any shared mutable state inside the closures is reported by the race detector.
func concurrent(c *fw.Case, st *caseState, kept []parsed) {
	if len(kept) > 12 {
		kept = kept[:12]
	}
	const workers = 4
	var wg sync.WaitGroup
	var mu sync.Mutex
	type bad struct {
		text, flow string
		got, want  bool
		pm         string
	}
	var bads []bad
	n := 0
	for w := 0; w < workers; w++ {
		wg.Add(1)
		go func(w int) {
			defer wg.Done()
			cnt := 0
			for _, p := range kept {
				for i, f := range p.pool {
					if i > 150 {
						break
					}
					got, pm, _ := evalFresh(p.n, f, condx.KeyLayout(w%int(condx.NumKeyLayouts)))
					cnt++
					if want := p.cond.Eval(f); pm != "" || got != want {
						mu.Lock()
						bads = append(bads, bad{p.text, f.KeyString(), got, want, condx.FirstLine(pm)})
						mu.Unlock()
						break
					}
				}
			}
			mu.Lock()
			n += cnt
			mu.Unlock()
		}(w)
	}
	wg.Wait()
	c.Count("concurrent_evaluations", n)
	if len(bads) > 0 && !c.Failed() {
		// only reported when the sequential pass was clean: then concurrency is what made it fail
		b := bads[0]
		st.violate("concurrent_evaluate", "condition %q on flow %s evaluated concurrently from %d goroutines: goProbe=%v oracle=%v panic=%q (sequential evaluation was correct)",
			b.text, b.flow, workers, b.got, b.want, b.pm)
	}
}

// pruneClass is the deterministic feature class of a condition for the pruning clause: which
// connectives and comparators occur in it.
func pruneClass(cd *gen.Cond) string {
	has := map[string]bool{}
	var walk func(n *gen.Cond)
	walk = func(n *gen.Cond) {
		if n == nil {
			return
		}
		switch n.Kind {
		case gen.COr:
			has["or"] = true
		case gen.CAnd:
			has["and"] = true
		case gen.CNot:
			has["not"] = true
		default:
			if n.Op == "!=" {
				has["ne"] = true
			}
		}
		walk(n.L)
		walk(n.R)
	}
	walk(cd)
	var parts []string
	for _, k := range []string{"and", "or", "not", "ne"} {
		if has[k] {
			parts = append(parts, k)
		}
	}
	if len(parts) == 0 {
		return "leaf"
	}
	return strings.Join(parts, ",")
}
