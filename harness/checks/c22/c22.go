// Package c22: flow orientation does not depend on which side is seen first.
//
// Part (a) — pure functions. For a packet p the flow key the capture would store for a *new* flow is
//
//	stored(p) = Reverse(h) if ClassifyPacketDirection(h, aux) == DirectionReverts else h,   (h, aux) = ParsePacket(p)
//
// (the rule of capture.go:addToFlowLogV4/V6 for a key that is not yet in the flow log). The real
// ParsePacketV4/V6, ClassifyPacketDirectionV4/V6 and EPHash.Reverse are called; the packets of both
// directions of a conversation are crafted byte-wise by the harness; the expectation (who is the
// requester, what the mirror packet is) comes from the harness' own conversation description.
//
// The case list is a table of groups (see groups()); part (b) (two scripted interfaces through the
// real capture pipeline) can be appended as further groups without touching the existing ones.
package c22

import (
	"fmt"

	"github.com/els0r/goProbe/v4/pkg/capture"
	"github.com/els0r/goProbe/v4/pkg/capture/capturetypes"
	slimcap "github.com/fako1024/slimcap/capture"

	"verifharness/capfn"
	"verifharness/fw"
)

type group struct {
	name string
	n    int
	run  func(c *fw.Case, sub int)
}

// groups returns the case groups of a tier, in case-index order.
func groups(tier string) []group {
	gs := []group{
		{"ports", 16, runPorts},
		{"tcpflags", 16, runTCPFlags},
		{"icmp", 8, runICMP},
	}
	if tier == "thorough" {
		gs[0].n, gs[1].n, gs[2].n = 64, 64, 32
		gs = append(gs, group{"exh", 256, runExhaustive})
	}
	// part (b): append {"pipeline", n, runPipeline} here
	return gs
}

func init() {
	fw.Register(&fw.Check{
		ID:    "C22",
		Level: "exploration",
		Rule: "case groups: (ports) full product boundary-port-set^2 x {TCP with SYN-clear flag bytes, UDP} x {v4,v6} x seeded address pairs (boundary + random unicast, incl. identical addresses), each packet against its mirror; " +
			"(tcpflags) all 256 flag bytes on the client->server and on the server->client packet x port pairs (boundary sample incl. ports that contradict the handshake) x families; " +
			"(icmp) all 256 ICMP / ICMPv6 types in both directions x address pairs incl. multicast/broadcast destinations for requests; (exh, thorough) all 2^32 port pairs x {TCP ACK-only, UDP} x {v4,v6}. " +
			"A conversation is non-trivial iff the heuristics are decisive for it (handshake flags, request/reply ICMP type, or differing ports in the parsed key); distinct by (family, protocol, evidence kind, port classes).",
		Assumptions: []string{
			"part (a) only: stored(p) is computed from the pure functions with the new-flow rule of addToFlowLogV4/V6; the flow-log lookup path is part (b)",
			"decisive by ports = the two ports of the parsed key differ (identical ports are documented as 'nothing to go by')",
			"handshake verdicts only for SYN set with FIN and RST clear (any PSH/URG/ECE/CWR); other SYN combinations are counted only",
			"conversations towards multicast/broadcast destinations have no reply packet from that address: only the request orientation is checked",
			"both directions carry the same kind of evidence (handshake pair, or no handshake flags on both); mixed evidence (SYN one way, data the other way with contradicting ports) is not demanded",
		},
		NumCases: func(tier, variant string) int {
			n := 0
			for _, g := range groups(tier) {
				n += g.n
			}
			return n
		},
		Run: run,
		Require: []string{"decisive_port_pairs", "nondecisive_identical_ports", "tcp_syn_checked", "tcp_synack_checked", "tcp_handshake_pairs", "icmp_request_reply_pairs_v4", "icmp_request_reply_pairs_v6",
			"timestamp_pairs", "common_port_conversations", "same_address_conversations", "reverted_flows", "kept_flows"},
		Exhaustive: func(tier string) bool { return tier == "thorough" },
		Env:        func(tier, variant string) []string { return []string{"GOMAXPROCS=4"} },
	})
}

func run(c *fw.Case) {
	seenNT = map[string]bool{}
	idx := c.Idx
	for _, g := range groups(c.Tier) {
		if idx < g.n {
			g.run(c, idx)
			return
		}
		idx -= g.n
	}
}

var seenNT map[string]bool

func nontrivial(c *fw.Case, key string) {
	if !seenNT[key] {
		seenNT[key] = true
		c.Nontrivial(key)
	}
}

// ---------------------------------------------------------------------------------------------
// the function under observation

type storedKey struct {
	key      string // stored flow key (EPHash bytes)
	raw      string // key as parsed from the packet (before any reversal)
	reverted bool
	dir      capturetypes.Direction
	parsedSP uint16
	parsedDP uint16
	errno    capturetypes.ParsingErrno
	aux      byte
}

func stored(b []byte, v6 bool) storedKey {
	b = b[:len(b):len(b)]
	if v6 {
		h, aux, errno := capture.ParsePacketV6(slimcap.IPLayer(b))
		s := storedKey{errno: errno, aux: aux}
		if errno != capturetypes.ErrnoOK {
			return s
		}
		s.parsedSP = uint16(h[16])<<8 | uint16(h[17])
		s.parsedDP = uint16(h[34])<<8 | uint16(h[35])
		s.raw = string(h[:])
		s.dir = capturetypes.ClassifyPacketDirectionV6(h, aux)
		if s.dir == capturetypes.DirectionReverts {
			r := h.Reverse()
			s.key, s.reverted = string(r[:]), true
		} else {
			s.key = string(h[:])
		}
		return s
	}
	h, aux, errno := capture.ParsePacketV4(slimcap.IPLayer(b))
	s := storedKey{errno: errno, aux: aux}
	if errno != capturetypes.ErrnoOK {
		return s
	}
	s.parsedSP = uint16(h[4])<<8 | uint16(h[5])
	s.parsedDP = uint16(h[10])<<8 | uint16(h[11])
	s.raw = string(h[:])
	s.dir = capturetypes.ClassifyPacketDirectionV4(h, aux)
	if s.dir == capturetypes.DirectionReverts {
		r := h.Reverse()
		s.key, s.reverted = string(r[:]), true
	} else {
		s.key = string(h[:])
	}
	return s
}

// srcDst extracts (source address, destination address) from a stored key.
func srcDst(key string) (string, string) {
	if len(key) == capturetypes.EPHashSizeV4 {
		return key[0:4], key[6:10]
	}
	return key[0:16], key[18:34]
}

func fam(v6 bool) string {
	if v6 {
		return "v6"
	}
	return "v4"
}

func portKind(p uint16, proto byte) string {
	switch {
	case p == 0:
		return "zero"
	case capfn.CommonPort(p, proto):
		return "common"
	case p < 32768:
		return "low"
	}
	return "eph"
}

func protoName(p byte) string {
	switch p {
	case capfn.TCP:
		return "tcp"
	case capfn.UDP:
		return "udp"
	case capfn.ICMP:
		return "icmp"
	case capfn.ICMPv6:
		return "icmp6"
	}
	return "other"
}

func countDir(c *fw.Case, s storedKey) {
	if s.reverted {
		c.Count("reverted_flows", 1)
	} else {
		c.Count("kept_flows", 1)
	}
}

// addrPairs draws address pairs for a family: boundary unicast pairs, identical addresses, random.
func addrPairs(c *fw.Case, v6 bool, n int) [][2][]byte {
	r := c.Rng
	var out [][2][]byte
	a := capfn.RandUnicast(r, v6)
	out = append(out, [2][]byte{a, a}) // same address on both sides (loopback-style conversations)
	for len(out) < n {
		out = append(out, [2][]byte{capfn.RandUnicast(r, v6), capfn.RandUnicast(r, v6)})
	}
	return out
}

// checkPortsBothWays: packets without handshake evidence; orientation must agree when the parsed
// ports differ.
func checkPortsBothWays(c *fw.Case, h capfn.Hdr, auxBack byte) {
	v6 := h.V6
	p1, p2 := h.Bytes(), h.Mirror(auxBack).Bytes()
	s1, s2 := stored(p1, v6), stored(p2, v6)
	if s1.errno != capturetypes.ErrnoOK || s2.errno != capturetypes.ErrnoOK {
		c.Violatef("parse_error|"+fam(v6)+"_"+protoName(h.Proto), "well-formed packet not parsed: errno %d / %d for %s", s1.errno, s2.errno, h)
		return
	}
	countDir(c, s1)
	countDir(c, s2)
	same := string(h.Src) == string(h.Dst)
	if capfn.CommonPort(h.Sport, h.Proto) || capfn.CommonPort(h.Dport, h.Proto) {
		c.Count("common_port_conversations", 1)
	}
	if s1.parsedSP == s1.parsedDP {
		c.Count("nondecisive_identical_ports", 1)
		return
	}
	c.Count("decisive_port_pairs", 1)
	if same {
		c.Count("same_address_conversations", 1)
	}
	pk := portKind(h.Sport, h.Proto) + ">" + portKind(h.Dport, h.Proto)
	nontrivial(c, fam(v6)+"|"+protoName(h.Proto)+"|ports|"+pk)
	if s1.key != s2.key {
		a1, b1 := srcDst(s1.key)
		a2, b2 := srcDst(s2.key)
		c.Violatef("orientation|"+fam(v6)+"_"+protoName(h.Proto)+"_ports|"+pk,
			"conversation %s (aux 0x%02x back 0x%02x): first packet this way stores % x (src %s dst %s, dir=%d), first packet the other way stores % x (src %s dst %s, dir=%d)",
			h, h.Aux, auxBack, s1.key, capfn.AddrString([]byte(a1)), capfn.AddrString([]byte(b1)), s1.dir, s2.key, capfn.AddrString([]byte(a2)), capfn.AddrString([]byte(b2)), s2.dir)
	}
}

// ---------------------------------------------------------------------------------------------
// group (ports)

var synClearFlags = []byte{0x00, 0x10, 0x18, 0x11, 0x04, 0x14, 0x01, 0x08, 0x20, 0x38, 0x50, 0x90, 0xd0, 0xfd}

func runPorts(c *fw.Case, sub int) {
	r := c.Rng
	nsub := 16
	if c.Tier == "thorough" {
		nsub = 64
	}
	first := true
	for _, v6 := range []bool{false, true} {
		pairs := addrPairs(c, v6, 3)
		for pi, proto := range []byte{capfn.TCP, capfn.UDP} {
			// the product is split over the sub-cases by source port index
			for si, s := range capfn.BoundaryPorts {
				if (si+pi)%nsub != sub%nsub && nsub <= len(capfn.BoundaryPorts) {
					continue
				}
				c.Note("ports group: %s proto %d sport %d", fam(v6), proto, s)
				for _, d := range capfn.BoundaryPorts {
					for _, ap := range pairs {
						aux, auxBack := byte(0), byte(0)
						if proto == capfn.TCP {
							aux = synClearFlags[r.Intn(len(synClearFlags))]
							auxBack = synClearFlags[r.Intn(len(synClearFlags))]
						}
						h := capfn.Hdr{V6: v6, Src: ap[0], Dst: ap[1], Proto: proto, Sport: s, Dport: d, Aux: aux}
						checkPortsBothWays(c, h, auxBack)
						if first && s != d {
							first = false
							s1 := stored(h.Bytes(), v6)
							c.Sample(map[string]any{"group": "ports", "packet": h.String(), "mirror_aux": auxBack, "stored_key": fmt.Sprintf("% x", s1.key), "reverted": s1.reverted})
						}
					}
				}
			}
		}
	}
	// one-way traffic towards multicast / broadcast destinations: there is no mirror packet, the
	// observed classification is only counted (coverage of the documented multicast rule)
	for i := 0; i < 400; i++ {
		v6 := r.Intn(2) == 0
		var d []byte
		for {
			d = capfn.RandAddr(r, v6)
			if capfn.IsMulticastOrBroadcast(d) {
				break
			}
		}
		h := capfn.Hdr{V6: v6, Src: capfn.RandUnicast(r, v6), Dst: d, Proto: capfn.UDP, Sport: capfn.RandPort(r), Dport: capfn.RandPort(r)}
		s := stored(h.Bytes(), v6)
		if s.errno != capturetypes.ErrnoOK {
			c.Violatef("parse_error|"+fam(v6)+"_udp", "well-formed packet not parsed: errno %d for %s", s.errno, h)
			continue
		}
		if s.reverted {
			c.Count("udp_to_multicast_reverted", 1)
		} else {
			c.Count("udp_to_multicast_kept", 1)
		}
	}
	// seeded random port pairs on top of the product
	for i := 0; i < 20000; i++ {
		v6 := r.Intn(2) == 0
		proto := []byte{capfn.TCP, capfn.UDP}[r.Intn(2)]
		a, b := capfn.RandUnicast(r, v6), capfn.RandUnicast(r, v6)
		aux, auxBack := byte(0), byte(0)
		if proto == capfn.TCP {
			aux = byte(r.Intn(256)) &^ 0x02
			auxBack = byte(r.Intn(256)) &^ 0x02
		}
		h := capfn.Hdr{V6: v6, Src: a, Dst: b, Proto: proto, Sport: uint16(r.Intn(65536)), Dport: capfn.RandPort(r), Aux: aux}
		if r.Intn(2) == 0 {
			h.Sport, h.Dport = h.Dport, h.Sport
		}
		checkPortsBothWays(c, h, auxBack)
	}
}

// ---------------------------------------------------------------------------------------------
// group (tcpflags)

func isSyn(f byte) bool    { return f&0x02 != 0 && f&0x10 == 0 }
func isSynAck(f byte) bool { return f&0x02 != 0 && f&0x10 != 0 }
func legalHS(f byte) bool  { return f&0x02 != 0 && f&0x05 == 0 } // SYN set, FIN and RST clear

func runTCPFlags(c *fw.Case, sub int) {
	r := c.Rng
	sampled := false
	for _, v6 := range []bool{false, true} {
		pairs := addrPairs(c, v6, 2)
		// port pairs: client port / server port; includes pairs whose port heuristics contradict the handshake
		type pp struct{ cp, sp uint16 }
		pps := []pp{{40000, 443}, {443, 40000}, {33561, 33560}, {33560, 33561}, {444, 445}, {445, 444}, {5000, 5000}, {53, 53}, {80, 8080}, {0, 22}, {22, 0}, {1024, 32768}}
		for i := 0; i < 6; i++ {
			pps = append(pps, pp{capfn.RandPort(r), capfn.RandPort(r)})
		}
		for _, ap := range pairs {
			client, server := ap[0], ap[1]
			for _, p := range pps {
				c.Note("tcpflags group: %s %d<->%d", fam(v6), p.cp, p.sp)
				base := capfn.Hdr{V6: v6, Src: client, Dst: server, Proto: capfn.TCP, Sport: p.cp, Dport: p.sp}
				// key of the client->server packet as parsed (orientation requester->responder), and its mirror
				var s1, s2 [256]storedKey
				for f := 0; f < 256; f++ {
					h := base
					h.Aux = byte(f)
					s1[f] = stored(h.Bytes(), v6)
					s2[f] = stored(h.Mirror(byte(f)).Bytes(), v6)
					if s1[f].errno != capturetypes.ErrnoOK || s2[f].errno != capturetypes.ErrnoOK {
						c.Violatef("parse_error|"+fam(v6)+"_tcp", "well-formed TCP packet not parsed (flags 0x%02x): %s", f, h)
						return
					}
					if s1[f].aux != byte(f) || s2[f].aux != byte(f) {
						c.Violatef("tcp_flags_not_extracted|"+fam(v6), "flags byte 0x%02x parsed as 0x%02x / 0x%02x: %s", f, s1[f].aux, s2[f].aux, h)
						return
					}
					countDir(c, s1[f])
					countDir(c, s2[f])
				}
				pk := portKind(p.cp, capfn.TCP) + ">" + portKind(p.sp, capfn.TCP)
				for f := 0; f < 256; f++ {
					fb := byte(f)
					if fb&0x02 != 0 && !legalHS(fb) {
						c.Count("tcp_illegal_syn_combos_skipped", 2)
						continue
					}
					switch {
					case isSyn(fb):
						// the sender of a SYN is the requester, whoever it is
						c.Count("tcp_syn_checked", 2)
						nontrivial(c, fam(v6)+"|tcp|syn|"+pk)
						if a, b := srcDst(s1[f].key); a != string(client) || b != string(server) || s1[f].key != s1[f].raw {
							c.Violatef("handshake|"+fam(v6)+"_syn|"+pk, "SYN (flags 0x%02x) %s:%d > %s:%d stored as src %s dst %s (key % x, dir=%d)", f, capfn.AddrString(client), p.cp, capfn.AddrString(server), p.sp, capfn.AddrString([]byte(a)), capfn.AddrString([]byte(b)), s1[f].key, s1[f].dir)
						}
						if a, b := srcDst(s2[f].key); a != string(server) || b != string(client) || s2[f].key != s2[f].raw {
							c.Violatef("handshake|"+fam(v6)+"_syn|"+pk, "SYN (flags 0x%02x) %s:%d > %s:%d stored as src %s dst %s (key % x, dir=%d)", f, capfn.AddrString(server), p.sp, capfn.AddrString(client), p.cp, capfn.AddrString([]byte(a)), capfn.AddrString([]byte(b)), s2[f].key, s2[f].dir)
						}
					case isSynAck(fb):
						// the sender of a SYN-ACK is the responder
						c.Count("tcp_synack_checked", 2)
						nontrivial(c, fam(v6)+"|tcp|synack|"+pk)
						if a, b := srcDst(s2[f].key); a != string(client) || b != string(server) || s2[f].key != s1[0].raw {
							c.Violatef("handshake|"+fam(v6)+"_synack|"+pk, "SYN-ACK (flags 0x%02x) %s:%d > %s:%d stored as src %s dst %s (key % x, dir=%d), expected requester %s as source", f, capfn.AddrString(server), p.sp, capfn.AddrString(client), p.cp, capfn.AddrString([]byte(a)), capfn.AddrString([]byte(b)), s2[f].key, s2[f].dir, capfn.AddrString(client))
						}
						if a, b := srcDst(s1[f].key); a != string(server) || b != string(client) || s1[f].key != s2[0].raw {
							c.Violatef("handshake|"+fam(v6)+"_synack|"+pk, "SYN-ACK (flags 0x%02x) %s:%d > %s:%d stored as src %s dst %s (key % x, dir=%d), expected requester %s as source", f, capfn.AddrString(client), p.cp, capfn.AddrString(server), p.sp, capfn.AddrString([]byte(a)), capfn.AddrString([]byte(b)), s1[f].key, s1[f].dir, capfn.AddrString(server))
						}
					}
				}
				// handshake pairs: SYN one way, SYN-ACK the other way -> the same stored key
				for f := 0; f < 256; f++ {
					if !isSyn(byte(f)) || !legalHS(byte(f)) {
						continue
					}
					for g := 0; g < 256; g++ {
						if !isSynAck(byte(g)) || !legalHS(byte(g)) {
							continue
						}
						c.Count("tcp_handshake_pairs", 2)
						if s1[f].key != s2[g].key {
							c.Violatef("orientation|"+fam(v6)+"_tcp_handshake|"+pk, "client SYN 0x%02x first stores % x, server SYN-ACK 0x%02x first stores % x (%s)", f, s1[f].key, g, s2[g].key, base)
						}
						if s2[f].key != s1[g].key {
							c.Violatef("orientation|"+fam(v6)+"_tcp_handshake|"+pk, "SYN 0x%02x from the other side first stores % x, SYN-ACK 0x%02x first stores % x (%s)", f, s2[f].key, g, s1[g].key, base)
						}
					}
				}
				// no handshake evidence on either side: ports decide, consistently for every flag byte
				decisive := s1[0].parsedSP != s1[0].parsedDP
				for f := 0; f < 256; f++ {
					if byte(f)&0x02 != 0 {
						continue
					}
					if !decisive {
						c.Count("nondecisive_identical_ports", 1)
						continue
					}
					c.Count("decisive_port_pairs", 1)
					if s1[f].key != s2[f].key || s1[f].key != s1[0].key {
						c.Violatef("orientation|"+fam(v6)+"_tcp_ports|"+pk, "flags 0x%02x: client->server first stores % x, server->client first stores % x, flags 0x00 stores % x (%s)", f, s1[f].key, s2[f].key, s1[0].key, base)
					}
				}
				if !sampled {
					sampled = true
					c.Sample(map[string]any{"group": "tcpflags", "conversation": base.String(), "stored_after_SYN": fmt.Sprintf("% x", s1[0x02].key), "stored_after_SYNACK_from_server": fmt.Sprintf("% x", s2[0x12].key)})
				}
			}
		}
	}
	_ = sub
}

// ---------------------------------------------------------------------------------------------
// group (icmp)

func runICMP(c *fw.Case, sub int) {
	r := c.Rng
	type rr struct{ req, rep byte }
	for _, v6 := range []bool{false, true} {
		proto := byte(capfn.ICMP)
		pairsRR := []rr{{8, 0}, {13, 14}}
		if v6 {
			proto = capfn.ICMPv6
			pairsRR = []rr{{128, 129}}
		}
		var aps [][2][]byte
		aps = append(aps, addrPairs(c, v6, 4)...)
		// requests towards multicast / broadcast destinations
		for i := 0; i < 4; i++ {
			var d []byte
			for {
				d = capfn.RandAddr(r, v6)
				if capfn.IsMulticastOrBroadcast(d) {
					break
				}
			}
			aps = append(aps, [2][]byte{capfn.RandUnicast(r, v6), d})
		}
		for _, ap := range aps {
			a, b := ap[0], ap[1]
			mc := capfn.IsMulticastOrBroadcast(b)
			c.Note("icmp group: %s %s > %s", fam(v6), capfn.AddrString(a), capfn.AddrString(b))
			var fwd, bwd [256]storedKey
			for t := 0; t < 256; t++ {
				for _, n := range []int{0, 21 + 20*btoi(v6), 28 + 20*btoi(v6)} {
					h := capfn.Hdr{V6: v6, Src: a, Dst: b, Proto: proto, Aux: byte(t), Len: n}
					fwd[t] = stored(h.Bytes(), v6)
					bwd[t] = stored(h.Mirror(byte(t)).Bytes(), v6)
					if fwd[t].errno != capturetypes.ErrnoOK || bwd[t].errno != capturetypes.ErrnoOK {
						c.Violatef("parse_error|"+fam(v6)+"_icmp", "well-formed ICMP packet not parsed (type %d): %s", t, h)
						return
					}
					if fwd[t].aux != byte(t) {
						c.Violatef("icmp_type_not_extracted|"+fam(v6), "type %d parsed as %d: %s", t, fwd[t].aux, h)
						return
					}
				}
				countDir(c, fwd[t])
				c.Count("icmp_types_evaluated", 1)
				switch fwd[t].dir {
				case capturetypes.DirectionUnknown:
					c.Count("icmp_types_unknown", 1)
				case capturetypes.DirectionRemains:
					c.Count("icmp_types_remain", 1)
				case capturetypes.DirectionReverts:
					c.Count("icmp_types_revert", 1)
				}
			}
			for _, p := range pairsRR {
				kind := "echo"
				if p.req == 13 {
					kind = "timestamp"
				}
				// request a -> b must be stored a -> b
				if x, y := srcDst(fwd[p.req].key); x != string(a) || y != string(b) {
					c.Violatef("icmp_request|"+fam(v6)+"_"+kind+mcTag(mc), "%s request (type %d) %s > %s stored as src %s dst %s (dir=%d)", kind, p.req, capfn.AddrString(a), capfn.AddrString(b), capfn.AddrString([]byte(x)), capfn.AddrString([]byte(y)), fwd[p.req].dir)
				}
				c.Count("icmp_requests_checked", 1)
				nontrivial(c, fam(v6)+"|icmp|"+kind+mcTag(mc))
				if mc {
					c.Count("icmp_requests_to_multicast", 1)
					continue
				}
				// reply b -> a must be stored a -> b as well (same key as the request)
				if x, y := srcDst(bwd[p.rep].key); x != string(a) || y != string(b) {
					c.Violatef("icmp_reply|"+fam(v6)+"_"+kind, "%s reply (type %d) %s > %s stored as src %s dst %s (dir=%d), expected requester %s as source", kind, p.rep, capfn.AddrString(b), capfn.AddrString(a), capfn.AddrString([]byte(x)), capfn.AddrString([]byte(y)), bwd[p.rep].dir, capfn.AddrString(a))
				}
				if fwd[p.req].key != bwd[p.rep].key {
					c.Violatef("orientation|"+fam(v6)+"_icmp_"+kind, "%s request first stores % x, reply first stores % x", kind, fwd[p.req].key, bwd[p.rep].key)
				}
				// and with the roles swapped
				if bwd[p.req].key != fwd[p.rep].key {
					c.Violatef("orientation|"+fam(v6)+"_icmp_"+kind, "%s request from the other side first stores % x, its reply first stores % x", kind, bwd[p.req].key, fwd[p.rep].key)
				}
				if v6 {
					c.Count("icmp_request_reply_pairs_v6", 1)
				} else {
					c.Count("icmp_request_reply_pairs_v4", 1)
				}
				if kind == "timestamp" {
					c.Count("timestamp_pairs", 1)
				}
			}
		}
		if sub == 0 && !v6 {
			h := capfn.Hdr{Src: aps[1][0], Dst: aps[1][1], Proto: proto, Aux: 0}
			s := stored(h.Bytes(), false)
			c.Sample(map[string]any{"group": "icmp", "packet": h.String(), "stored_key": fmt.Sprintf("% x", s.key), "reverted": s.reverted})
		}
	}
}

func btoi(b bool) int {
	if b {
		return 1
	}
	return 0
}

func mcTag(mc bool) string {
	if mc {
		return "_to_multicast"
	}
	return ""
}

// ---------------------------------------------------------------------------------------------
// group (exh): all port pairs (thorough)

func runExhaustive(c *fw.Case, hi int) {
	r := c.Rng
	for _, proto := range []byte{capfn.TCP, capfn.UDP} {
		for _, v6 := range []bool{false, true} {
			a, b := capfn.RandUnicast(r, v6), capfn.RandUnicast(r, v6)
			aux := byte(0)
			if proto == capfn.TCP {
				aux = 0x10
			}
			fwd := capfn.Hdr{V6: v6, Src: a, Dst: b, Proto: proto, Aux: aux}.Bytes()
			bwd := capfn.Hdr{V6: v6, Src: b, Dst: a, Proto: proto, Aux: aux}.Bytes()
			fwd, bwd = fwd[:len(fwd):len(fwd)], bwd[:len(bwd):len(bwd)]
			hl := 20
			if v6 {
				hl = 40
			}
			c.Note("exhaustive %s proto=%d sport=%d..%d", fam(v6), proto, hi<<8, hi<<8|255)
			decisive, nondecisive, reverted := 0, 0, 0
			for lo := 0; lo < 256 && !c.Failed(); lo++ {
				s := hi<<8 | lo
				fwd[hl], fwd[hl+1] = byte(hi), byte(lo)
				bwd[hl+2], bwd[hl+3] = byte(hi), byte(lo)
				for d := 0; d < 65536; d++ {
					fwd[hl+2], fwd[hl+3] = byte(d>>8), byte(d)
					bwd[hl], bwd[hl+1] = byte(d>>8), byte(d)
					var k1, k2 string
					var same bool
					if v6 {
						h1, x1, e1 := capture.ParsePacketV6(slimcap.IPLayer(fwd))
						h2, x2, e2 := capture.ParsePacketV6(slimcap.IPLayer(bwd))
						if e1 != capturetypes.ErrnoOK || e2 != capturetypes.ErrnoOK {
							c.Violatef("parse_error|v6_"+protoName(proto), "ports %d>%d not parsed", s, d)
							break
						}
						same = h1[16] == h1[34] && h1[17] == h1[35]
						if capturetypes.ClassifyPacketDirectionV6(h1, x1) == capturetypes.DirectionReverts {
							h1 = h1.Reverse()
							reverted++
						}
						if capturetypes.ClassifyPacketDirectionV6(h2, x2) == capturetypes.DirectionReverts {
							h2 = h2.Reverse()
							reverted++
						}
						if h1 != h2 && !same {
							k1, k2 = string(h1[:]), string(h2[:])
						}
					} else {
						h1, x1, e1 := capture.ParsePacketV4(slimcap.IPLayer(fwd))
						h2, x2, e2 := capture.ParsePacketV4(slimcap.IPLayer(bwd))
						if e1 != capturetypes.ErrnoOK || e2 != capturetypes.ErrnoOK {
							c.Violatef("parse_error|v4_"+protoName(proto), "ports %d>%d not parsed", s, d)
							break
						}
						same = h1[4] == h1[10] && h1[5] == h1[11]
						if capturetypes.ClassifyPacketDirectionV4(h1, x1) == capturetypes.DirectionReverts {
							h1 = h1.Reverse()
							reverted++
						}
						if capturetypes.ClassifyPacketDirectionV4(h2, x2) == capturetypes.DirectionReverts {
							h2 = h2.Reverse()
							reverted++
						}
						if h1 != h2 && !same {
							k1, k2 = string(h1[:]), string(h2[:])
						}
					}
					if same {
						nondecisive++
						continue
					}
					decisive++
					if k1 != "" {
						pk := portKind(uint16(s), proto) + ">" + portKind(uint16(d), proto)
						c.Violatef("orientation|"+fam(v6)+"_"+protoName(proto)+"_ports|"+pk, "exhaustive: %s proto %d ports %d>%d: this way first stores % x, other way first stores % x", fam(v6), proto, s, d, k1, k2)
						break
					}
				}
			}
			c.Count("decisive_port_pairs", decisive)
			c.Count("nondecisive_identical_ports", nondecisive)
			c.Count("exhaustive_port_pairs", decisive+nondecisive)
			c.Count("reverted_flows", reverted)
			c.Count("kept_flows", 2*(decisive+nondecisive)-reverted)
		}
	}
	nontrivial(c, fmt.Sprintf("exh|%d", hi))
	if hi == 0 {
		c.Sample(map[string]any{"group": "exh", "sport_range": "0..255", "dports": "0..65535", "protocols": "tcp(ack),udp", "families": "v4,v6"})
	}
}
