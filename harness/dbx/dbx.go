// Package dbx observes a goDB database through goProbe's real reader paths ("views") and compares
// the observation with the oracle's expectation for a RefDB. Used by the crash / fault / merge /
// concurrency checks (C04, C05, C25, C30).
package dbx

import (
	"fmt"
	"runtime/debug"
	"sort"
	"strings"

	"github.com/els0r/goProbe/v4/pkg/goDB"
	"github.com/els0r/goProbe/v4/pkg/goDB/info"
	"verifharness/eng"
	"verifharness/gen"
	"verifharness/ref"
)

// Meta is the per-interface summary of a listing.
type Meta struct {
	V4, V6, Drops uint64
	C             ref.Ctr
}

// View is what the readers report for a database.
type View struct {
	Ifaces   []string        // info.GetInterfaces
	Rows     ref.Rows        // engine query `time,iface,sip,dip,dport,proto` over all interfaces and all time
	Listing  map[string]Meta // DBWorkManager.ReadMetadata over all time, per interface
	Errs     []string        // reader errors / panics, prefixed with the view name
	HasQuery bool
}

const (
	tMin = 1
	tMax = 9_999_999_999
)

var rawSpec = ref.QuerySpec{Attrs: []string{"sip", "dip", "dport", "proto"}, Time: true, First: tMin, Last: tMax}

// Observe reads the database through all views. Nothing here panics the caller; worker-goroutine
// panics inside the engine still kill the process (child isolation of the framework).
func Observe(dbPath string) (v View) {
	v.Listing = map[string]Meta{}
	func() {
		defer func() {
			if r := recover(); r != nil {
				v.Errs = append(v.Errs, fmt.Sprintf("interfaces: panic %v", r))
			}
		}()
		ifs, err := info.GetInterfaces(dbPath)
		if err != nil {
			v.Errs = append(v.Errs, "interfaces: "+err.Error())
		}
		v.Ifaces = ifs
	}()
	if len(v.Ifaces) > 0 {
		a := eng.Args("time,iface,sip,dip,dport,proto", "any", "", tMin, tMax)
		res, err, pmsg := eng.Run(dbPath, a)
		switch {
		case pmsg != "":
			v.Errs = append(v.Errs, "query: panic "+pmsg)
		case err != nil:
			v.Errs = append(v.Errs, "query: "+err.Error())
		default:
			spec := rawSpec
			rows, dup := ref.FromResult(res.Rows, spec)
			if dup != "" {
				v.Errs = append(v.Errs, "query: duplicate row "+dup)
			}
			v.Rows = rows
			v.HasQuery = true
		}
	}
	for _, iface := range v.Ifaces {
		func() {
			defer func() {
				if r := recover(); r != nil {
					v.Errs = append(v.Errs, fmt.Sprintf("listing %s: panic %v\n%s", iface, r, debug.Stack()))
				}
			}()
			wm, err := goDB.NewDBWorkManager(goDB.NewMetadataQuery(), dbPath, iface, 4)
			if err != nil {
				v.Errs = append(v.Errs, fmt.Sprintf("listing %s: %v", iface, err))
				return
			}
			im, err := wm.ReadMetadata(tMin, tMax)
			if err != nil {
				v.Errs = append(v.Errs, fmt.Sprintf("listing %s: %v", iface, err))
				return
			}
			v.Listing[iface] = Meta{V4: im.Traffic.NumV4Entries, V6: im.Traffic.NumV6Entries, Drops: im.Traffic.NumDrops,
				C: ref.Ctr{BR: im.Counts.BytesRcvd, BS: im.Counts.BytesSent, PR: im.Counts.PacketsRcvd, PS: im.Counts.PacketsSent}}
		}()
	}
	return v
}

// Expect computes the expected view of a RefDB.
func Expect(db *gen.RefDB) (v View) {
	v.Listing = map[string]Meta{}
	v.Ifaces = db.IfaceNames()
	sort.Strings(v.Ifaces)
	spec := rawSpec
	spec.Ifaces = v.Ifaces
	v.Rows = ref.Query(db, spec)
	v.HasQuery = true
	for _, id := range db.Ifaces {
		var m Meta
		for _, b := range id.Blocks {
			m.Drops += b.Drops
			for _, f := range b.Flows {
				if f.IsV4() {
					m.V4++
				} else {
					m.V6++
				}
				m.C.Add(ref.Ctr{BR: f.BR, BS: f.BS, PR: f.PR, PS: f.PS})
			}
		}
		v.Listing[id.Name] = m
	}
	return v
}

// Mismatch is one disagreement between expectation and observation.
type Mismatch struct {
	Clause string // interfaces | query_error | query_rows | listing_error | listing
	Detail string
}

// Compare returns the disagreements (nil = the views agree with the expectation).
// Interfaces that exist on disk but hold no blocks in the expectation are tolerated (an interface
// directory may legitimately exist before its first block is committed) unless strictIfaces is set.
func Compare(want, got View, strictIfaces bool) []Mismatch {
	var out []Mismatch
	for _, e := range got.Errs {
		cl := "reader_error"
		switch {
		case strings.HasPrefix(e, "query"):
			cl = "query_error"
		case strings.HasPrefix(e, "listing"):
			cl = "listing_error"
		case strings.HasPrefix(e, "interfaces"):
			cl = "interfaces_error"
		}
		out = append(out, Mismatch{cl, e})
	}
	wantSet := map[string]bool{}
	for _, i := range want.Ifaces {
		wantSet[i] = true
	}
	gotSet := map[string]bool{}
	for _, i := range got.Ifaces {
		gotSet[i] = true
		if !wantSet[i] && strictIfaces {
			out = append(out, Mismatch{"interfaces", fmt.Sprintf("unexpected interface %q listed (want %v got %v)", i, want.Ifaces, got.Ifaces)})
		}
	}
	for _, i := range want.Ifaces {
		if !gotSet[i] {
			out = append(out, Mismatch{"interfaces", fmt.Sprintf("interface %q missing (want %v got %v)", i, want.Ifaces, got.Ifaces)})
		}
	}
	if got.HasQuery || len(want.Rows) > 0 {
		if d := ref.Diff(want.Rows, got.Rows); d != "" && (got.HasQuery || len(got.Errs) == 0) {
			out = append(out, Mismatch{"query_rows|" + ref.DiffClass(want.Rows, got.Rows), d})
		}
	}
	for _, i := range got.Ifaces {
		g, ok := got.Listing[i]
		if !ok {
			continue // error already recorded
		}
		w := want.Listing[i] // zero value for interfaces without expected blocks
		if g != w {
			out = append(out, Mismatch{"listing", fmt.Sprintf("iface %s: listing %+v, expected %+v", i, g, w)})
		}
	}
	return out
}
