package gen

import (
	"fmt"
	"math/rand"
	"net/netip"
	"strconv"
	"strings"
)

// Condition AST of the harness. It is generated here, rendered to text for goProbe and evaluated
// by the oracle (Eval) with net/netip arithmetic: no text is parsed and no code is shared with
// goProbe's conditions/node package.

// CondKind enumerates AST node kinds.
type CondKind int

const (
	CAnd CondKind = iota
	COr
	CNot
	CCmp
)

// Cond is a node of the condition AST.
type Cond struct {
	Kind CondKind
	L, R *Cond  // And/Or use both, Not uses L
	Attr string // sip dip snet dnet dport proto | sugar: src dst host net port protocol ipproto
	Op   string // = != < > <= >=
	// exactly one of the following is meaningful, depending on Attr
	Addr  netip.Addr   // sip/dip/src/dst/host
	Net   netip.Prefix // snet/dnet/net (Addr part may carry host bits: goProbe masks the literal)
	Num   int          // dport/port, proto/protocol/ipproto
	Proto string       // optional protocol name rendering ("tcp") instead of the number
}

// Eval is the oracle: the truth value of the condition on a flow.
//
// Interpretation (DESIGN §2.3): `=` on an address / network is true iff the flow has the same IP
// family and matches; `!=` is the exact complement of `=`; `!`, `&`, `|` are complement,
// intersection, union; sugar expands as documented in goQuery's help text.
func (c *Cond) Eval(f Flow) bool {
	switch c.Kind {
	case CAnd:
		return c.L.Eval(f) && c.R.Eval(f)
	case COr:
		return c.L.Eval(f) || c.R.Eval(f)
	case CNot:
		return !c.L.Eval(f)
	}
	eqAddr := func(a netip.Addr) bool { return a.Is4() == c.Addr.Is4() && a == c.Addr }
	inNet := func(a netip.Addr) bool {
		return a.Is4() == c.Net.Addr().Is4() && c.Net.Masked().Contains(a)
	}
	var eq bool
	switch c.Attr {
	case "sip", "src":
		eq = eqAddr(f.SIP)
	case "dip", "dst":
		eq = eqAddr(f.DIP)
	case "host":
		eq = eqAddr(f.SIP) || eqAddr(f.DIP)
	case "snet":
		eq = inNet(f.SIP)
	case "dnet":
		eq = inNet(f.DIP)
	case "net":
		eq = inNet(f.SIP) || inNet(f.DIP)
	case "dport", "port":
		return cmpInt(int(f.Dport), c.Op, c.Num)
	case "proto", "protocol", "ipproto":
		return cmpInt(int(f.Proto), c.Op, c.Num)
	default:
		panic("unknown attribute " + c.Attr)
	}
	if c.Op == "=" {
		return eq
	}
	return !eq
}

func cmpInt(a int, op string, b int) bool {
	switch op {
	case "=":
		return a == b
	case "!=":
		return a != b
	case "<":
		return a < b
	case ">":
		return a > b
	case "<=":
		return a <= b
	case ">=":
		return a >= b
	}
	panic("bad op " + op)
}

// MentionsIP reports whether any leaf uses an address / network attribute.
func (c *Cond) MentionsIP() bool {
	switch c.Kind {
	case CAnd, COr:
		return c.L.MentionsIP() || c.R.MentionsIP()
	case CNot:
		return c.L.MentionsIP()
	}
	switch c.Attr {
	case "dport", "port", "proto", "protocol", "ipproto":
		return false
	}
	return true
}

// Leaves returns all comparison leaves.
func (c *Cond) Leaves() []*Cond {
	switch c.Kind {
	case CAnd, COr:
		return append(c.L.Leaves(), c.R.Leaves()...)
	case CNot:
		return c.L.Leaves()
	}
	return []*Cond{c}
}

// Depth of the tree.
func (c *Cond) Depth() int {
	switch c.Kind {
	case CAnd, COr:
		return 1 + max(c.L.Depth(), c.R.Depth())
	case CNot:
		return 1 + c.L.Depth()
	}
	return 1
}

// valueText renders the literal of a leaf.
func (c *Cond) valueText() string {
	switch c.Attr {
	case "sip", "dip", "src", "dst", "host":
		return c.Addr.String()
	case "snet", "dnet", "net":
		return c.Net.Addr().String() + "/" + strconv.Itoa(c.Net.Bits())
	case "dport", "port":
		return strconv.Itoa(c.Num)
	default:
		if c.Proto != "" {
			return c.Proto
		}
		return strconv.Itoa(c.Num)
	}
}

// Style selects operator spellings for rendering.
type Style struct {
	And, Or, Not string            // e.g. "&", " and ", "&&", "*"
	Cmp          map[string]string // base comparator -> spelling (word forms include their enclosing spaces)
	Open, Close  string            // "(" ")" | "[" "]" | "{" "}"
	Space        string            // separator placed around symbolic operators ("" or " " or "\t" ...)
	Upper        bool
}

// PlainStyle is the canonical symbolic rendering.
var PlainStyle = Style{And: "&", Or: "|", Not: "!", Open: "(", Close: ")", Space: " "}

// Render renders the AST fully parenthesised (so precedence never matters) in the given style.
func (c *Cond) Render(st Style) string {
	s := c.render(st, true)
	if st.Upper {
		s = strings.ToUpper(s)
	}
	return s
}

func (c *Cond) render(st Style, top bool) string {
	sp := st.Space
	bin := func(op string) string {
		// word operators carry their own whitespace
		if strings.TrimSpace(op) != op {
			return op
		}
		return sp + op + sp
	}
	switch c.Kind {
	case CAnd, COr:
		op := st.And
		if c.Kind == COr {
			op = st.Or
		}
		s := c.L.render(st, false) + bin(op) + c.R.render(st, false)
		if top {
			return s
		}
		return st.Open + s + st.Close
	case CNot:
		inner := c.L.render(st, false)
		if c.L.Kind == CCmp || c.L.Kind == CNot {
			inner = st.Open + inner + st.Close
		}
		not := st.Not
		if not != "!" { // word form: "not " — needs trailing whitespace, and leading whitespace unless at start
			if top {
				return strings.TrimLeft(not, " \t") + inner
			}
			return not + inner
		}
		return not + sp + inner
	}
	op := c.Op
	if st.Cmp != nil {
		if alt, ok := st.Cmp[c.Op]; ok {
			op = alt
		}
	}
	if strings.TrimSpace(op) != op {
		return c.Attr + op + c.valueText()
	}
	return c.Attr + sp + op + sp + c.valueText()
}

// String renders in the plain style.
func (c *Cond) String() string { return c.Render(PlainStyle) }

// CondOpts tunes RandCond.
type CondOpts struct {
	MaxDepth int
	Sugar    bool // allow sugared attributes
	NoNot    bool
}

var prefix4 = []int{0, 1, 7, 8, 9, 15, 16, 17, 24, 25, 31, 32}
var prefix6 = []int{0, 1, 7, 8, 9, 31, 32, 33, 63, 64, 65, 104, 105, 112, 113, 127, 128}

// RandLeaf draws a comparison leaf over the small alphabets.
func RandLeaf(r *rand.Rand, sugar bool) *Cond {
	c := &Cond{Kind: CCmp}
	v6 := r.Intn(2) == 0
	addr := func() netip.Addr {
		if v6 {
			return V6Addrs[r.Intn(len(V6Addrs))]
		}
		return V4Addrs[r.Intn(len(V4Addrs))]
	}
	eqne := func() string {
		if r.Intn(3) == 0 {
			return "!="
		}
		return "="
	}
	pick := func(base string, sugars ...string) string {
		if sugar && len(sugars) > 0 && r.Intn(3) == 0 {
			return sugars[r.Intn(len(sugars))]
		}
		return base
	}
	switch r.Intn(8) {
	case 0:
		c.Attr, c.Op, c.Addr = pick("sip", "src", "host"), eqne(), addr()
	case 1:
		c.Attr, c.Op, c.Addr = pick("dip", "dst", "host"), eqne(), addr()
	case 2, 3:
		c.Attr, c.Op = pick("snet", "net"), eqne()
		if r.Intn(2) == 0 {
			c.Attr = pick("dnet", "net")
		}
		a := addr()
		bits := prefix4[r.Intn(len(prefix4))]
		if v6 {
			bits = prefix6[r.Intn(len(prefix6))]
		}
		c.Net = netip.PrefixFrom(a, bits) // literal keeps its host bits on purpose
	case 4, 5:
		c.Attr = pick("dport", "port")
		c.Op = []string{"=", "!=", "<", ">", "<=", ">="}[r.Intn(6)]
		c.Num = int(Ports[r.Intn(len(Ports))])
		if r.Intn(4) == 0 {
			c.Num = []int{1, 79, 81, 255, 256, 1024, 65534}[r.Intn(7)]
		}
	default:
		c.Attr = pick("proto", "protocol", "ipproto")
		c.Op = []string{"=", "!=", "<", ">", "<=", ">="}[r.Intn(6)]
		c.Num = int(Protos[r.Intn(len(Protos))])
		if r.Intn(3) == 0 {
			switch c.Num {
			case 6:
				c.Proto = "tcp"
			case 17:
				c.Proto = "udp"
			case 1:
				c.Proto = "icmp"
			case 50:
				c.Proto = "ipsec-esp" // linux protocol table name
			}
		}
	}
	return c
}

// RandCond draws a condition tree.
func RandCond(r *rand.Rand, o CondOpts) *Cond {
	if o.MaxDepth <= 1 || r.Intn(4) == 0 {
		return RandLeaf(r, o.Sugar)
	}
	sub := o
	sub.MaxDepth--
	k := r.Intn(5)
	if o.NoNot && k == 4 {
		k = r.Intn(4)
	}
	switch k {
	case 0, 1:
		return &Cond{Kind: CAnd, L: RandCond(r, sub), R: RandCond(r, sub)}
	case 2, 3:
		return &Cond{Kind: COr, L: RandCond(r, sub), R: RandCond(r, sub)}
	default:
		return &Cond{Kind: CNot, L: RandCond(r, sub)}
	}
}

// DirFilter is a traffic direction filter value.
type DirFilter string

// DirKeep is the oracle for direction filters on summed counters.
func DirKeep(d DirFilter, pr, ps uint64) bool {
	switch d {
	case "":
		return true
	case "in", "inbound":
		return pr > 0 && ps == 0
	case "out", "outbound":
		return ps > 0 && pr == 0
	case "uni", "unidirectional":
		return (pr > 0 && ps == 0) || (ps > 0 && pr == 0)
	case "bi", "bidirectional":
		return pr > 0 && ps > 0
	}
	panic(fmt.Sprintf("bad dir %q", d))
}

// DirFilters lists all spellings.
var DirFilters = []DirFilter{"in", "inbound", "out", "outbound", "uni", "unidirectional", "bi", "bidirectional"}
