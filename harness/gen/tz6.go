package gen

import (
	"net/netip"
	"os"
)

// IPv6 addresses whose last 12 bytes are zero (a00:1::, 2001:db8::, ::) are rendered as IPv4 addresses
// by the query engine (types.RawIPToAddr guesses the IP version from the address bytes). That is a
// genuine goProbe defect which cannot be repaired without editing the e2e test reference (it renders
// through the same helper) and is therefore recorded as a known finding of C08, the property it
// refutes (known_findings.txt, signature render|v6_trailing_zero_bytes_as_v4). Only C08 draws such
// addresses (VERIF_GEN_TZ6=1 in its case children, where a dedicated oracle clause recognises exactly
// that rendering); every other check draws a00:1::7 instead so that the one recorded defect is not
// re-reported under signatures that would have to mask unrelated row damage.
var (
	tz6Addr     = netip.MustParseAddr("a00:1::")
	tz6AddrRepl = netip.MustParseAddr("a00:1::7")
)

// TrailingZeroV6 reports whether the generators draw IPv6 addresses with 12 trailing zero bytes.
func TrailingZeroV6() bool { return os.Getenv("VERIF_GEN_TZ6") == "1" }

// TZ6Host maps a host literal of a generator alphabet to the one to use in this process.
func TZ6Host(s string) string {
	if TrailingZeroV6() {
		return s
	}
	switch s {
	case "a00:1::":
		return "a00:1::7"
	case "2001:db8::":
		return "2001:db8::9"
	}
	return s
}

func init() {
	if !TrailingZeroV6() {
		for i, a := range V6Addrs {
			if a == tz6Addr {
				V6Addrs[i] = tz6AddrRepl
			}
		}
	}
}
