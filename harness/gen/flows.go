// Package gen holds the seeded workload generators: flows, reference databases (RefDB), condition
// ASTs and their text renderings. The real database is always produced by goProbe's production
// writer from a RefDB; the RefDB itself is the ground truth the oracles in package ref work on.
package gen

import (
	"encoding/binary"
	"fmt"
	"math/rand"
	"net/netip"
	"sort"

	"github.com/els0r/goProbe/v4/pkg/capture/capturetypes"
	"github.com/els0r/goProbe/v4/pkg/goDB"
	"github.com/els0r/goProbe/v4/pkg/goDB/encoder/encoders"
	"github.com/els0r/goProbe/v4/pkg/types"
	"github.com/els0r/goProbe/v4/pkg/types/hashmap"
)

// Flow is one stored flow record (source port already aggregated away).
type Flow struct {
	SIP, DIP       netip.Addr
	Dport          uint16
	Proto          uint8
	BR, BS, PR, PS uint64 // bytes rcvd / sent, packets rcvd / sent
}

// IsV4 reports the IP family of the flow.
func (f Flow) IsV4() bool { return f.SIP.Is4() }

// Key builds the goProbe key of the flow.
func (f Flow) Key() types.Key {
	dp := []byte{byte(f.Dport >> 8), byte(f.Dport)}
	if f.IsV4() {
		s, d := f.SIP.As4(), f.DIP.As4()
		return types.NewV4Key(s[:], d[:], dp, f.Proto)
	}
	s, d := f.SIP.As16(), f.DIP.As16()
	return types.NewV6Key(s[:], d[:], dp, f.Proto)
}

// KeyString is a printable identity of the flow's key.
func (f Flow) KeyString() string {
	return fmt.Sprintf("%s>%s:%d/%d", f.SIP, f.DIP, f.Dport, f.Proto)
}

func (f Flow) String() string {
	return fmt.Sprintf("%s br=%d bs=%d pr=%d ps=%d", f.KeyString(), f.BR, f.BS, f.PR, f.PS)
}

// Counters returns the flow's counters in goProbe's type.
func (f Flow) Counters() types.Counters {
	return types.Counters{BytesRcvd: f.BR, BytesSent: f.BS, PacketsRcvd: f.PR, PacketsSent: f.PS}
}

// FlowFromKey decodes a goProbe key (+counters) into a Flow.
func FlowFromKey(k []byte, c types.Counters) Flow {
	var f Flow
	switch len(k) {
	case types.KeyWidthIPv4, types.KeyWidthIPv4 + types.TimestampWidth:
		kk := types.Key(k[:types.KeyWidthIPv4])
		f.SIP, _ = netip.AddrFromSlice(kk.GetSIP())
		f.DIP, _ = netip.AddrFromSlice(kk.GetDIP())
		f.Dport = binary.BigEndian.Uint16(kk.GetDport())
		f.Proto = kk.GetProto()
	default:
		kk := types.Key(k[:types.KeyWidthIPv6])
		f.SIP, _ = netip.AddrFromSlice(kk.GetSIP())
		f.DIP, _ = netip.AddrFromSlice(kk.GetDIP())
		f.Dport = binary.BigEndian.Uint16(kk.GetDport())
		f.Proto = kk.GetProto()
	}
	f.BR, f.BS, f.PR, f.PS = c.BytesRcvd, c.BytesSent, c.PacketsRcvd, c.PacketsSent
	return f
}

// Small alphabets: everything collides constantly (grouping, merging, condition clauses).
var (
	V4Addrs = []netip.Addr{
		netip.MustParseAddr("10.0.0.1"), netip.MustParseAddr("10.0.0.2"), netip.MustParseAddr("10.200.3.4"),
		netip.MustParseAddr("192.168.1.77"), netip.MustParseAddr("172.16.5.129"), netip.MustParseAddr("10.128.0.0"),
		netip.MustParseAddr("32.1.13.184"), // == first 4 bytes of 2001:db8::
	}
	V6Addrs = []netip.Addr{
		netip.MustParseAddr("2001:db8::1"), netip.MustParseAddr("2001:db8::2"), netip.MustParseAddr("2001:db8:0:1::ff"),
		netip.MustParseAddr("fe80::1"), netip.MustParseAddr("a00:1::"), // first bytes == 10.0.0.1
		netip.MustParseAddr("2001:db8::8000:1"),
	}
	Ports  = []uint16{0, 53, 80, 443, 8080, 65535}
	Protos = []uint8{6, 17, 1, 58, 50, 0, 255}
	// Counter values covering every bit-pack width.
	CounterVals = []uint64{0, 1, 2, 255, 256, 65535, 65536, 1<<24 - 1, 1 << 24, 1<<32 - 1, 1 << 32, 1 << 40, 1<<48 + 12345, 1 << 56}
)

// FlowOpts tunes RandFlow.
type FlowOpts struct {
	V6Prob       float64 // probability of an IPv6 flow
	ZeroProb     float64 // probability of an all-zero counter record
	BigCounters  bool
	WideAlphabet bool // draw random addresses/ports instead of the small alphabets
}

// RandFlow draws a flow from the small alphabets.
func RandFlow(r *rand.Rand, o FlowOpts) Flow {
	var f Flow
	if r.Float64() < o.V6Prob {
		if o.WideAlphabet {
			var a, b [16]byte
			r.Read(a[:])
			r.Read(b[:])
			a[0], b[0] = 0x20, 0x20
			f.SIP, f.DIP = netip.AddrFrom16(a), netip.AddrFrom16(b)
		} else {
			f.SIP, f.DIP = V6Addrs[r.Intn(len(V6Addrs))], V6Addrs[r.Intn(len(V6Addrs))]
		}
	} else {
		if o.WideAlphabet {
			var a, b [4]byte
			r.Read(a[:])
			r.Read(b[:])
			f.SIP, f.DIP = netip.AddrFrom4(a), netip.AddrFrom4(b)
		} else {
			f.SIP, f.DIP = V4Addrs[r.Intn(len(V4Addrs))], V4Addrs[r.Intn(len(V4Addrs))]
		}
	}
	if o.WideAlphabet {
		f.Dport = uint16(r.Intn(65536))
		f.Proto = uint8(r.Intn(256))
	} else {
		f.Dport = Ports[r.Intn(len(Ports))]
		f.Proto = Protos[r.Intn(len(Protos))]
	}
	if r.Float64() < o.ZeroProb {
		return f
	}
	cv := func() uint64 {
		if o.BigCounters && r.Intn(4) == 0 {
			return CounterVals[r.Intn(len(CounterVals))]
		}
		return uint64(r.Intn(2000))
	}
	// direction mix: in-only, out-only, bidirectional
	switch r.Intn(4) {
	case 0:
		f.PR, f.BR = cv()+1, cv()+40
	case 1:
		f.PS, f.BS = cv()+1, cv()+40
	default:
		f.PR, f.BR, f.PS, f.BS = cv()+1, cv()+40, cv()+1, cv()+40
	}
	return f
}

// Block is one write-out of one interface.
type Block struct {
	TS    int64
	Flows []Flow // unique keys
	Drops uint64
}

// IfaceData is the ordered list of write-outs of one interface.
type IfaceData struct {
	Name   string
	Blocks []Block // strictly increasing TS
}

// RefDB is the ground truth of a generated database.
type RefDB struct {
	Ifaces []IfaceData
}

// MinTS is the smallest block timestamp ever generated (10-digit day directory names; see DESIGN §2.3).
const MinTS = 1_000_080_000

// DayStart returns the start of the (UTC) day containing ts, as goDB computes it.
func DayStart(ts int64) int64 { return ts - ts%86400 }

// DBOpts tunes RandRefDB.
type DBOpts struct {
	MaxIfaces    int
	MaxDays      int
	MaxBlocksDay int
	MaxFlows     int
	Flow         FlowOpts
	OffGrid      bool // allow timestamps off the 300 s grid
	BaseDay      int64
	IfaceNames   []string
}

// DefaultIfaceNames is the interface alphabet.
var DefaultIfaceNames = []string{"eth0", "eth1", "lo", "wan0"}

// RandRefDB generates a reference database.
func RandRefDB(r *rand.Rand, o DBOpts) *RefDB {
	if o.MaxIfaces == 0 {
		o.MaxIfaces = 3
	}
	if o.MaxDays == 0 {
		o.MaxDays = 3
	}
	if o.MaxBlocksDay == 0 {
		o.MaxBlocksDay = 6
	}
	if o.MaxFlows == 0 {
		o.MaxFlows = 12
	}
	if o.BaseDay == 0 {
		// a day start in [MinTS, ~2033]
		o.BaseDay = DayStart(MinTS) + 86400*int64(1+r.Intn(11000))
	}
	names := o.IfaceNames
	if names == nil {
		names = DefaultIfaceNames
	}
	nIf := 1 + r.Intn(o.MaxIfaces)
	if nIf > len(names) {
		nIf = len(names)
	}
	perm := r.Perm(len(names))[:nIf]
	sort.Ints(perm)
	db := &RefDB{}
	for _, pi := range perm {
		id := IfaceData{Name: names[pi]}
		nDays := 1 + r.Intn(o.MaxDays)
		day := o.BaseDay
		for d := 0; d < nDays; d++ {
			nb := r.Intn(o.MaxBlocksDay + 1)
			if d == 0 && nb == 0 {
				nb = 1
			}
			// choose nb distinct slots of the 288
			slots := r.Perm(288)[:nb]
			sort.Ints(slots)
			// make boundary slots likely
			if nb > 0 && r.Intn(3) == 0 {
				slots[0] = 0
			}
			if nb > 1 && r.Intn(3) == 0 {
				slots[nb-1] = 287
			}
			lastTS := int64(0)
			for _, s := range slots {
				ts := day + int64(s)*300
				if s == 0 && r.Intn(2) == 0 {
					ts = day // exactly on the day boundary
				} else if o.OffGrid && r.Intn(3) == 0 {
					ts += int64(r.Intn(299)) + 1
				} else if s > 0 && ts == day {
					ts = day + 300
				}
				if ts <= lastTS {
					continue
				}
				lastTS = ts
				b := Block{TS: ts}
				if r.Intn(4) == 0 {
					b.Drops = uint64(r.Intn(100))
				}
				nf := r.Intn(o.MaxFlows + 1)
				seen := map[string]bool{}
				for i := 0; i < nf; i++ {
					f := RandFlow(r, o.Flow)
					if seen[f.KeyString()] {
						continue
					}
					seen[f.KeyString()] = true
					b.Flows = append(b.Flows, f)
				}
				id.Blocks = append(id.Blocks, b)
			}
			day += 86400 * int64(1+r.Intn(2)) // sometimes skip a day
		}
		db.Ifaces = append(db.Ifaces, id)
	}
	return db
}

// FlowMap builds the hashmap the production writer consumes.
func FlowMap(flows []Flow) *hashmap.AggFlowMap {
	m := hashmap.NewAggFlowMap()
	for _, f := range flows {
		m.SetOrUpdate(f.Key(), f.IsV4(), f.BR, f.BS, f.PR, f.PS)
	}
	return m
}

// WriteBlock writes one block through the production DBWriter.
func WriteBlock(dbPath, iface string, b Block, enc encoders.Type, level int) error {
	w := goDB.NewDBWriter(dbPath, iface, enc).EncoderLevel(level)
	return w.Write(FlowMap(b.Flows), capturetypes.CaptureStats{Dropped: b.Drops}, b.TS)
}

// Write materialises the RefDB at dbPath through the production writer (one Write per block, i.e.
// one open/write/close session per write-out, exactly as goProbe does).
func (db *RefDB) Write(dbPath string, enc encoders.Type, level int) error {
	for _, id := range db.Ifaces {
		for _, b := range id.Blocks {
			if err := WriteBlock(dbPath, id.Name, b, enc, level); err != nil {
				return fmt.Errorf("iface %s ts %d: %w", id.Name, b.TS, err)
			}
		}
	}
	return nil
}

// WriteMixed materialises the database with the production writer, drawing the encoder of every
// write-out from {lz4, zstd, null} (a database whose compression setting was changed while it was
// being written: a day then holds blocks of several encoders). It returns the number of blocks written
// with an encoder different from their predecessor in the same day.
func (db *RefDB) WriteMixed(dbPath string, r *rand.Rand) (switches int, err error) {
	encs := []encoders.Type{encoders.EncoderTypeLZ4, encoders.EncoderTypeZSTD, encoders.EncoderTypeNull, encoders.EncoderTypeLZ4, encoders.EncoderTypeZSTD}
	for _, id := range db.Ifaces {
		last := map[int64]encoders.Type{}
		for _, b := range id.Blocks {
			enc := encs[r.Intn(len(encs))]
			if prev, ok := last[DayStart(b.TS)]; ok && prev != enc {
				switches++
			}
			last[DayStart(b.TS)] = enc
			if err := WriteBlock(dbPath, id.Name, b, enc, 0); err != nil {
				return switches, fmt.Errorf("iface %s ts %d: %w", id.Name, b.TS, err)
			}
		}
	}
	return switches, nil
}

// Iface returns the data of one interface (nil if absent).
func (db *RefDB) Iface(name string) *IfaceData {
	for i := range db.Ifaces {
		if db.Ifaces[i].Name == name {
			return &db.Ifaces[i]
		}
	}
	return nil
}

// IfaceNames lists the interface names.
func (db *RefDB) IfaceNames() []string {
	var out []string
	for _, id := range db.Ifaces {
		out = append(out, id.Name)
	}
	return out
}

// AllTimestamps returns all block timestamps, sorted and de-duplicated.
func (db *RefDB) AllTimestamps() []int64 {
	set := map[int64]bool{}
	for _, id := range db.Ifaces {
		for _, b := range id.Blocks {
			set[b.TS] = true
		}
	}
	out := make([]int64, 0, len(set))
	for t := range set {
		out = append(out, t)
	}
	sort.Slice(out, func(i, j int) bool { return out[i] < out[j] })
	return out
}

// HasBothFamilies reports whether the DB contains IPv4 and IPv6 flows.
func (db *RefDB) HasBothFamilies() bool {
	var v4, v6 bool
	for _, id := range db.Ifaces {
		for _, b := range id.Blocks {
			for _, f := range b.Flows {
				if f.IsV4() {
					v4 = true
				} else {
					v6 = true
				}
			}
		}
	}
	return v4 && v6
}

// Summary is a short description for evidence samples.
func (db *RefDB) Summary() string {
	s := ""
	for _, id := range db.Ifaces {
		nf := 0
		for _, b := range id.Blocks {
			nf += len(b.Flows)
		}
		s += fmt.Sprintf("%s:%dblocks/%dflows ", id.Name, len(id.Blocks), nf)
	}
	return s
}
