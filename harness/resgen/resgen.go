// Package resgen holds the seeded generators and the harness-side (goProbe independent) view of result
// rows shared by the checks of the `results` group (C13, C14, C17).
//
// Nothing in here calls into goProbe behaviour: the goProbe types are only used as data carriers.
package resgen

import (
	"fmt"
	"math/rand"
	"net/netip"
	"sort"
	"strings"
	"time"

	"github.com/els0r/goProbe/v4/pkg/results"
	"github.com/els0r/goProbe/v4/pkg/types"
)

// Key is the semantic identity of a result row: the instant (not its zone representation), the
// labels and the attributes. ZeroTS marks rows without a time label.
type Key struct {
	ZeroTS   bool
	UnixNano int64
	Iface    string
	Host     string
	HostID   string
	SIP, DIP netip.Addr
	Proto    uint8
	Dport    uint16
}

// KeyOf extracts the semantic key of a row.
func KeyOf(r results.Row) Key {
	k := Key{Iface: r.Labels.Iface, Host: r.Labels.Hostname, HostID: r.Labels.HostID,
		SIP: r.Attributes.SrcIP, DIP: r.Attributes.DstIP, Proto: r.Attributes.IPProto, Dport: r.Attributes.DstPort}
	if r.Labels.Timestamp.IsZero() {
		k.ZeroTS = true
	} else {
		k.UnixNano = r.Labels.Timestamp.UnixNano()
	}
	return k
}

func (k Key) String() string {
	ts := "-"
	if !k.ZeroTS {
		ts = fmt.Sprintf("%d.%09d", floorDiv(k.UnixNano, 1e9), floorMod(k.UnixNano, 1e9))
	}
	return fmt.Sprintf("{ts=%s iface=%s host=%s id=%s sip=%s dip=%s proto=%d dport=%d}", ts, k.Iface, k.Host, k.HostID, addrStr(k.SIP), addrStr(k.DIP), k.Proto, k.Dport)
}

func addrStr(a netip.Addr) string {
	if !a.IsValid() {
		return "-"
	}
	return a.String()
}

func floorDiv(a, b int64) int64 {
	q := a / b
	if (a%b != 0) && ((a < 0) != (b < 0)) {
		q--
	}
	return q
}

func floorMod(a, b int64) int64 { return a - floorDiv(a, b)*b }

// Ctr mirrors the four counters.
type Ctr struct{ BR, BS, PR, PS uint64 }

// CtrOf extracts the counters of a row.
func CtrOf(r results.Row) Ctr {
	return Ctr{r.Counters.BytesRcvd, r.Counters.BytesSent, r.Counters.PacketsRcvd, r.Counters.PacketsSent}
}

// Add adds o to c.
func (c *Ctr) Add(o Ctr) { c.BR += o.BR; c.BS += o.BS; c.PR += o.PR; c.PS += o.PS }

// Ident is the full identity of a row occurrence (key + counters); two rows with the same Ident are
// indistinguishable for every property of this group.
type Ident struct {
	Key
	Ctr
}

// IdentOf returns the identity of a row.
func IdentOf(r results.Row) Ident { return Ident{KeyOf(r), CtrOf(r)} }

// Idents maps a row list to its identity sequence.
func Idents(rows results.Rows) []Ident {
	out := make([]Ident, len(rows))
	for i := range rows {
		out[i] = IdentOf(rows[i])
	}
	return out
}

// RowString renders a row including the zone representation of its timestamp (for witnesses).
func RowString(r results.Row) string {
	ts := "-"
	if !r.Labels.Timestamp.IsZero() {
		ts = r.Labels.Timestamp.Format(time.RFC3339Nano) + fmt.Sprintf("(unix %d)", r.Labels.Timestamp.Unix())
	}
	return fmt.Sprintf("{ts=%s iface=%q host=%q id=%q sip=%s dip=%s proto=%d dport=%d | br=%d bs=%d pr=%d ps=%d}",
		ts, r.Labels.Iface, r.Labels.Hostname, r.Labels.HostID, addrStr(r.Attributes.SrcIP), addrStr(r.Attributes.DstIP),
		r.Attributes.IPProto, r.Attributes.DstPort, r.Counters.BytesRcvd, r.Counters.BytesSent, r.Counters.PacketsRcvd, r.Counters.PacketsSent)
}

// RowsString renders a row list (truncated to max rows).
func RowsString(rows results.Rows, max int) string {
	var sb strings.Builder
	sb.WriteString("[")
	for i, r := range rows {
		if i >= max {
			fmt.Fprintf(&sb, " …(%d more)", len(rows)-max)
			break
		}
		if i > 0 {
			sb.WriteString(" ")
		}
		sb.WriteString(RowString(r))
	}
	sb.WriteString("]")
	return sb.String()
}

// Small alphabets so that keys collide constantly.
var (
	Ifaces = []string{"", "eth0", "eth1", "wan0"}
	Hosts  = []string{"", "hostA", "hostB", "hostC"}
	V4     = []netip.Addr{netip.MustParseAddr("10.0.0.1"), netip.MustParseAddr("10.0.0.2"), netip.MustParseAddr("192.168.1.1"), netip.MustParseAddr("0.0.0.0"), netip.MustParseAddr("255.255.255.255")}
	V6     = []netip.Addr{netip.MustParseAddr("2001:db8::1"), netip.MustParseAddr("2001:db8::2"), netip.MustParseAddr("fe80::1"), netip.MustParseAddr("::"), netip.MustParseAddr("::ffff:10.0.0.1")}
	Protos = []uint8{0, 1, 6, 17}
	Ports  = []uint16{0, 53, 80, 443, 65535}
)

// HostID is a function of the hostname (documented assumption of Labels.Less: identical hostnames
// imply the same host).
func HostID(host string) string {
	if host == "" {
		return ""
	}
	return "id-" + host
}

// Zones are the zone representations a timestamp may come in: Local (what time.Unix yields), UTC and
// fixed offsets (what JSON-decoding a result of a host in another zone yields).
var Zones = []*time.Location{nil /* = Local */, time.UTC, time.FixedZone("", 3600), time.FixedZone("", -2*3600), time.FixedZone("", 5*3600+1800)}

// InZone renders instant sec in zone representation z (index into Zones).
func InZone(sec int64, z int) time.Time {
	t := time.Unix(sec, 0)
	if loc := Zones[z]; loc != nil {
		t = t.In(loc)
	}
	return t
}

// AttrOpts selects which attributes vary.
type AttrOpts struct {
	SIP, DIP, Proto, Dport bool
	V6Prob                 float64
}

// RandAttrOpts draws an attribute selection (as a query type would).
func RandAttrOpts(r *rand.Rand) AttrOpts {
	o := AttrOpts{SIP: r.Intn(2) == 0, DIP: r.Intn(2) == 0, Proto: r.Intn(2) == 0, Dport: r.Intn(2) == 0, V6Prob: []float64{0, 0.5, 0.5, 1}[r.Intn(4)]}
	return o
}

// RandAttrs draws attributes.
func RandAttrs(r *rand.Rand, o AttrOpts) results.Attributes {
	var a results.Attributes
	v6 := r.Float64() < o.V6Prob
	pick := func() netip.Addr {
		if v6 {
			return V6[r.Intn(len(V6))]
		}
		return V4[r.Intn(len(V4))]
	}
	if o.SIP {
		a.SrcIP = pick()
	}
	if o.DIP {
		a.DstIP = pick()
	}
	if o.Proto {
		a.IPProto = Protos[r.Intn(len(Protos))]
	}
	if o.Dport {
		a.DstPort = Ports[r.Intn(len(Ports))]
	}
	return a
}

// RandCounters draws counters. With ties=true values come from a tiny alphabet (heavy ties); all
// values stay below 2^50 so that sums of thousands of rows never overflow.
func RandCounters(r *rand.Rand, ties bool) types.Counters {
	v := func() uint64 {
		if ties {
			return []uint64{0, 0, 1, 1, 2, 10}[r.Intn(6)]
		}
		switch r.Intn(5) {
		case 0:
			return 0
		case 1:
			return uint64(r.Intn(4))
		case 2:
			return uint64(r.Intn(1 << 16))
		case 3:
			return uint64(r.Int63n(1 << 32))
		default:
			return uint64(r.Int63n(1 << 50))
		}
	}
	return types.Counters{BytesRcvd: v(), BytesSent: v(), PacketsRcvd: v(), PacketsSent: v()}
}

// SortIdents orders identities canonically (harness order, only for comparing multisets).
func SortIdents(ids []Ident) {
	sort.Slice(ids, func(i, j int) bool { return identLess(ids[i], ids[j]) })
}

func identLess(a, b Ident) bool {
	sa, sb := fmt.Sprint(a), fmt.Sprint(b)
	return sa < sb
}
