package stor

import (
	"os"
	"strconv"
)

// DevCases lets a developer shrink a check while iterating: VERIF_DEV_CASES=n overrides the
// number of cases (never set by run.sh / the manifest commands).
func DevCases(n int) int {
	if v := os.Getenv("VERIF_DEV_CASES"); v != "" {
		if k, err := strconv.Atoi(v); err == nil && k > 0 && k < n {
			return k
		}
	}
	return n
}
