// Package stor holds helpers shared by the storage group checks (C01, C02, C03, C07): payload
// generators with controlled compressibility and an independent description of what was written.
// Nothing here calls into goProbe's storage or encoder code.
package stor

import (
	"encoding/binary"
	"math/rand"
	"sort"
)

// Payload classes (by compressibility).
const (
	ClsZeros      = "zeros"      // all zero bytes (maximally compressible)
	ClsText       = "text"       // short repeated phrase
	ClsRandom     = "random"     // PRNG bytes: incompressible, every compressor expands them
	ClsRandZeros  = "randzeros"  // PRNG prefix followed by zeros
	ClsColumn     = "column"     // looks like a goDB column: sorted 4-byte big-endian values
	ClsMixed      = "mixed"      // alternating compressible and incompressible chunks
	ClsLowEntropy = "lowentropy" // PRNG symbols from a 4-letter alphabet (entropy coders win, LZ matchers barely)
	ClsOneByte    = "onebyte"    // one repeated non-zero byte
)

// Classes lists all payload classes.
var Classes = []string{ClsZeros, ClsText, ClsRandom, ClsRandZeros, ClsColumn, ClsMixed, ClsLowEntropy, ClsOneByte}

// Incompressible reports whether the class is expected to expand under compression.
func Incompressible(cls string) bool { return cls == ClsRandom }

// Gen produces a payload of exactly size bytes of the given class.
func Gen(r *rand.Rand, cls string, size int) []byte {
	b := make([]byte, size)
	if size == 0 {
		return b
	}
	switch cls {
	case ClsZeros:
	case ClsOneByte:
		v := byte(1 + r.Intn(255))
		for i := range b {
			b[i] = v
		}
	case ClsText:
		phrases := []string{"goProbe flow block ", "abcabcabd", "\x00\x01\x02\x03\x04\x05\x06\x07", "the quick brown fox jumps over the lazy dog. "}
		p := phrases[r.Intn(len(phrases))]
		off := r.Intn(len(p))
		for i := range b {
			b[i] = p[(i+off)%len(p)]
		}
	case ClsRandom:
		r.Read(b)
	case ClsRandZeros:
		n := 1 + r.Intn(size)
		r.Read(b[:n])
	case ClsColumn:
		n := size / 4
		vals := make([]uint32, n)
		base := r.Uint32()
		for i := range vals {
			vals[i] = base + uint32(r.Intn(1<<16))
		}
		sort.Slice(vals, func(i, j int) bool { return vals[i] < vals[j] })
		for i, v := range vals {
			binary.BigEndian.PutUint32(b[4*i:], v)
		}
		r.Read(b[4*n:])
	case ClsMixed:
		pos := 0
		for pos < size {
			n := 1 + r.Intn(6000)
			if pos+n > size {
				n = size - pos
			}
			if r.Intn(2) == 0 {
				r.Read(b[pos : pos+n])
			} else {
				v := byte(r.Intn(256))
				for i := pos; i < pos+n; i++ {
					b[i] = v
				}
			}
			pos += n
		}
	case ClsLowEntropy:
		alpha := [4]byte{byte(r.Intn(256)), byte(r.Intn(256)), byte(r.Intn(256)), byte(r.Intn(256))}
		for i := range b {
			b[i] = alpha[r.Intn(4)]
		}
	default:
		panic("unknown payload class " + cls)
	}
	return b
}

// SizesQuick / SizesThorough are the size menus: boundaries of the 4 KiB bufio buffer, of the 8 KiB
// pre-allocated scratch buffers, of the 64 KiB LZ4 window and of the 128 KiB zstd block size.
var (
	SizesSmall    = []int{0, 1, 2, 3, 4, 7, 8, 15, 16, 17, 27, 100, 255, 256, 1000}
	SizesBoundary = []int{4095, 4096, 4097, 5000, 8191, 8192, 8193, 8219, 12288, 16383, 16384, 16385, 20000}
	SizesLarge    = []int{65535, 65536, 65537, 70000, 131071, 131072, 131073, 200000, 300000}
	SizesHuge     = []int{524287, 524288, 524289, 1 << 20}
)

// PickSize draws a size. maxSize caps it (0 = no cap besides the menus); huge enables SizesHuge.
func PickSize(r *rand.Rand, huge bool, maxSize int) int {
	var s int
	switch x := r.Intn(100); {
	case x < 25:
		s = SizesSmall[r.Intn(len(SizesSmall))]
	case x < 65:
		s = SizesBoundary[r.Intn(len(SizesBoundary))]
	case x < 80:
		s = r.Intn(24000)
	case x < 94 || !huge:
		s = SizesLarge[r.Intn(len(SizesLarge))]
	default:
		s = SizesHuge[r.Intn(len(SizesHuge))]
	}
	if maxSize > 0 && s > maxSize {
		s = maxSize - r.Intn(3)
	}
	return s
}

// PickClass draws a payload class; incompressible data is over-weighted because it drives the
// fallback and bound computations.
func PickClass(r *rand.Rand) string {
	if r.Intn(3) == 0 {
		return ClsRandom
	}
	return Classes[r.Intn(len(Classes))]
}

// SizeBucket gives a coarse, stable name for a size (used in signatures and non-triviality keys).
func SizeBucket(n int) string {
	switch {
	case n == 0:
		return "0"
	case n <= 4096:
		return "<=4K"
	case n <= 8192:
		return "<=8K"
	case n <= 65536:
		return "<=64K"
	case n <= 131072:
		return "<=128K"
	default:
		return ">128K"
	}
}
