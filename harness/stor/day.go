package stor

import (
	"bytes"
	"fmt"
	"math/rand"
	"os"
	"path/filepath"
	"strconv"
	"strings"

	"github.com/els0r/goProbe/v4/pkg/goDB/encoder/encoders"
	"github.com/els0r/goProbe/v4/pkg/goDB/storage/gpfile"
	"github.com/els0r/goProbe/v4/pkg/types"
	"github.com/fako1024/gotools/concurrency"
)

// NCols is the number of column files of a day directory.
const NCols = int(types.ColIdxCount)

// Summary is the (flows v4, flows v6, drops) triple goDB keeps per block and per day.
type Summary struct{ V4, V6, Drops uint64 }

// Add sums.
func (s Summary) Add(o Summary) Summary {
	return Summary{s.V4 + o.V4, s.V6 + o.V6, s.Drops + o.Drops}
}

// Ctr are the four traffic counters (bytes rcvd, bytes sent, packets rcvd, packets sent).
type Ctr struct{ BR, BS, PR, PS uint64 }

// Add sums.
func (c Ctr) Add(o Ctr) Ctr { return Ctr{c.BR + o.BR, c.BS + o.BS, c.PR + o.PR, c.PS + o.PS} }

// BlockRec is what the harness handed to one WriteBlocks call (the ground truth of one block).
type BlockRec struct {
	TS   int64
	Cols [NCols][]byte
	Sum  Summary
	Ctr  Ctr
	// generator annotations (not part of the stored content)
	Class [NCols]string // payload class per column
	Enc   string        // encoder of the session that wrote the block
	Sess  int           // index of the write session
}

// DayModel is the expected logical content of one day directory.
type DayModel struct {
	DayTS  int64
	Blocks []BlockRec
}

// Totals returns the expected day totals.
func (d *DayModel) Totals() (Summary, Ctr) {
	var s Summary
	var c Ctr
	for _, b := range d.Blocks {
		s = s.Add(b.Sum)
		c = c.Add(b.Ctr)
	}
	return s, c
}

// FindDayDir locates the directory of a day below the interface path by listing the tree (it does
// not use goProbe's path logic). It returns the full path, the metadata suffix of the directory
// name ("" if none) and whether it was found.
func FindDayDir(ifacePath string, dayTS int64) (path, suffix string, found bool) {
	prefix := strconv.FormatInt(dayTS, 10)
	years, _ := os.ReadDir(ifacePath)
	for _, y := range years {
		months, _ := os.ReadDir(filepath.Join(ifacePath, y.Name()))
		for _, m := range months {
			days, _ := os.ReadDir(filepath.Join(ifacePath, y.Name(), m.Name()))
			for _, d := range days {
				name := d.Name()
				if name == prefix {
					return filepath.Join(ifacePath, y.Name(), m.Name(), name), "", true
				}
				if strings.HasPrefix(name, prefix+"_") {
					return filepath.Join(ifacePath, y.Name(), m.Name(), name), name[len(prefix)+1:], true
				}
			}
		}
	}
	return "", "", false
}

// ReadOpts selects how a day is read back.
type ReadOpts struct {
	UseSuffix bool       // open with the directory-name suffix (as the query path does) instead of recovering it
	ReadAll   bool       // WithReadAll (whole column file in memory) instead of the low-memory path
	Order     string     // "seq" (all blocks of a column in order), "random" (random (col,block) order), "ts" (lookup by timestamp)
	Rng       *rand.Rand // needed for Order "random"
	SkipData  bool       // metadata only
}

// DayDump is the logical content read back from a day directory through goProbe's reader.
type DayDump struct {
	NBlocks   int
	TS        [NCols][]int64
	Enc       [NCols][]encoders.Type
	Len       [NCols][]uint32
	RawLen    [NCols][]uint32
	Data      [NCols][][]byte
	DataErr   [NCols][]error
	BlockSum  []Summary
	DaySum    Summary
	DayCtr    Ctr
	DirSuffix string
	DirSum    Summary // decoded from the directory-name suffix
	DirCtr    Ctr
	DirOK     bool
}

func sumOf(t gpfile.TrafficMetadata) Summary {
	return Summary{t.NumV4Entries, t.NumV6Entries, t.NumDrops}
}

func ctrOf(c types.Counters) Ctr {
	return Ctr{c.BytesRcvd, c.BytesSent, c.PacketsRcvd, c.PacketsSent}
}

// ReadDay opens the day with a fresh reader and extracts everything. An error is returned only for
// a failing Open; per-block read errors are kept in DataErr.
func ReadDay(ifacePath string, dayTS int64, o ReadOpts) (*DayDump, error) {
	_, suffix, found := FindDayDir(ifacePath, dayTS)
	if !found {
		return nil, fmt.Errorf("day directory %d not found below %s", dayTS, ifacePath)
	}
	var opts []gpfile.Option
	if o.ReadAll {
		opts = append(opts, gpfile.WithReadAll(concurrency.NewMemPool(NCols)))
	}
	sfx := ""
	if o.UseSuffix {
		sfx = suffix
	}
	d := gpfile.NewDirReader(ifacePath, dayTS, sfx, opts...)
	if err := d.Open(); err != nil {
		return nil, fmt.Errorf("open: %w", err)
	}
	defer d.Close()

	dump := &DayDump{NBlocks: len(d.BlockTraffic), DirSuffix: suffix}
	for _, t := range d.BlockTraffic {
		dump.BlockSum = append(dump.BlockSum, sumOf(t))
	}
	dump.DaySum = sumOf(d.Traffic)
	dump.DayCtr = ctrOf(d.Counts)
	if suffix != "" {
		var m gpfile.Metadata
		if err := m.UnmarshalString(suffix); err == nil {
			dump.DirOK = true
			dump.DirSum = sumOf(m.Traffic)
			dump.DirCtr = ctrOf(m.Counts)
		}
	}
	for col := 0; col < NCols; col++ {
		bl := d.BlockMetadata[col].BlockList
		for _, b := range bl {
			dump.TS[col] = append(dump.TS[col], b.Timestamp)
			dump.Enc[col] = append(dump.Enc[col], b.EncoderType)
			dump.Len[col] = append(dump.Len[col], b.Len)
			dump.RawLen[col] = append(dump.RawLen[col], b.RawLen)
		}
		dump.Data[col] = make([][]byte, len(bl))
		dump.DataErr[col] = make([]error, len(bl))
	}
	if o.SkipData {
		return dump, nil
	}
	type job struct{ col, idx int }
	var jobs []job
	for col := 0; col < NCols; col++ {
		for i := range dump.TS[col] {
			jobs = append(jobs, job{col, i})
		}
	}
	if o.Order == "random" && o.Rng != nil {
		o.Rng.Shuffle(len(jobs), func(i, j int) { jobs[i], jobs[j] = jobs[j], jobs[i] })
	}
	for _, j := range jobs {
		var (
			b   []byte
			err error
		)
		if o.Order == "ts" {
			var f *gpfile.GPFile
			if f, err = d.Column(types.ColumnIndex(j.col)); err == nil {
				b, err = f.ReadBlock(dump.TS[j.col][j.idx])
			}
		} else {
			b, err = d.ReadBlockAtIndex(types.ColumnIndex(j.col), j.idx)
		}
		if err != nil {
			dump.DataErr[j.col][j.idx] = err
			continue
		}
		dump.Data[j.col][j.idx] = append([]byte{}, b...)
	}
	return dump, nil
}

// Mismatch is one difference between the model and what was read back.
type Mismatch struct {
	Clause string // nblocks | timestamp | bytes | read_error | rawlen | block_summary | day_summary | day_counters | dirname_summary | dirname_counters
	Block  int    // -1 if not block specific
	Col    int    // -1 if not column specific
	Detail string
}

// Compare checks a dump against the model; withData also compares the column bytes.
func Compare(m *DayModel, d *DayDump, withData bool) []Mismatch {
	var out []Mismatch
	add := func(clause string, blk, col int, format string, args ...any) {
		if len(out) < 12 {
			out = append(out, Mismatch{clause, blk, col, fmt.Sprintf(format, args...)})
		}
	}
	if d.NBlocks != len(m.Blocks) {
		add("nblocks", -1, -1, "day %d: %d blocks read back, %d written", m.DayTS, d.NBlocks, len(m.Blocks))
	}
	for col := 0; col < NCols; col++ {
		if len(d.TS[col]) != len(m.Blocks) {
			add("nblocks", -1, col, "day %d column %d: %d blocks in header, %d written", m.DayTS, col, len(d.TS[col]), len(m.Blocks))
			continue
		}
		for i, b := range m.Blocks {
			if d.TS[col][i] != b.TS {
				add("timestamp", i, col, "day %d block %d column %d: timestamp %d read back, %d written (written sequence %v)", m.DayTS, i, col, d.TS[col][i], b.TS, m.timestamps())
			}
			if !withData {
				continue
			}
			if int(d.RawLen[col][i]) != len(b.Cols[col]) {
				add("rawlen", i, col, "day %d block %d column %d: raw length %d in header, %d written", m.DayTS, i, col, d.RawLen[col][i], len(b.Cols[col]))
			}
			if err := d.DataErr[col][i]; err != nil {
				add("read_error", i, col, "day %d block %d (ts %d) column %d: written %d bytes (%s, encoder %s, session %d), read error: %v [header: len %d rawlen %d enc %v]",
					m.DayTS, i, b.TS, col, len(b.Cols[col]), b.Class[col], b.Enc, b.Sess, err, d.Len[col][i], d.RawLen[col][i], d.Enc[col][i])
				continue
			}
			if !bytes.Equal(d.Data[col][i], b.Cols[col]) {
				add("bytes", i, col, "day %d block %d (ts %d) column %d: written %d bytes (%s, encoder %s, session %d), read back %d bytes differing at offset %d [header: len %d rawlen %d enc %v]",
					m.DayTS, i, b.TS, col, len(b.Cols[col]), b.Class[col], b.Enc, b.Sess, len(d.Data[col][i]), firstDiff(d.Data[col][i], b.Cols[col]), d.Len[col][i], d.RawLen[col][i], d.Enc[col][i])
			}
		}
	}
	if len(d.BlockSum) == len(m.Blocks) {
		for i, b := range m.Blocks {
			if d.BlockSum[i] != b.Sum {
				add("block_summary", i, -1, "day %d block %d: summary %+v read back, %+v written", m.DayTS, i, d.BlockSum[i], b.Sum)
			}
		}
	} else {
		add("nblocks", -1, -1, "day %d: %d per-block summaries, %d blocks written", m.DayTS, len(d.BlockSum), len(m.Blocks))
	}
	ws, wc := m.Totals()
	if d.DaySum != ws {
		add("day_summary", -1, -1, "day %d: day summary %+v read back, sum of written %+v", m.DayTS, d.DaySum, ws)
	}
	if d.DayCtr != wc {
		add("day_counters", -1, -1, "day %d: day counters %+v read back, sum of written %+v", m.DayTS, d.DayCtr, wc)
	}
	if d.DirOK {
		if d.DirSum != ws {
			add("dirname_summary", -1, -1, "day %d: directory name %q carries summary %+v, sum of written %+v", m.DayTS, d.DirSuffix, d.DirSum, ws)
		}
		if d.DirCtr != wc {
			add("dirname_counters", -1, -1, "day %d: directory name %q carries counters %+v, sum of written %+v", m.DayTS, d.DirSuffix, d.DirCtr, wc)
		}
	}
	return out
}

func (m *DayModel) timestamps() []int64 {
	var ts []int64
	for _, b := range m.Blocks {
		ts = append(ts, b.TS)
	}
	return ts
}

func firstDiff(a, b []byte) int {
	n := len(a)
	if len(b) < n {
		n = len(b)
	}
	for i := 0; i < n; i++ {
		if a[i] != b[i] {
			return i
		}
	}
	return n
}
