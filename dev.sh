#!/bin/bash
# Development driver for one group of checks (does not touch cmd/vcheck or bin/vcheck):
#   ./dev.sh <group> <Cxx> <quick|thorough>            run a check from cmd/dev-<group>
#   ./dev.sh <group> case <Cxx> <tier> <idx> [variant] run one case verbosely
# Env: VERIF_SEED, VERIF_REPO (source tree to build against, default /repo).
set -u
VERIF_DIR="$(cd "$(dirname "$0")" && pwd)"
export VERIF_DIR
export GOFLAGS=-mod=mod GOPROXY=off GOWORK=off GOTOOLCHAIN=auto
unset GOSUMDB
G="$1"; shift
REPO="${VERIF_REPO:-/repo}"
export VERIF_REPO="$REPO"
cd "$VERIF_DIR/harness" || exit 3
tag=$(echo "$REPO" | md5sum | cut -c1-8)
BIN="$VERIF_DIR/bin/dev-$G-$tag"; mkdir -p "$BIN"
sed "s#=> /repo#=> $REPO#g" go.mod > "$BIN/go.mod"; cp go.sum "$BIN/go.sum"
export VERIF_MODFILE="$BIN/go.mod"
export VERIF_CMD_PKG="./cmd/dev-$G"
if ! go build -modfile="$BIN/go.mod" -tags verif -o "$BIN/vcheck" "./cmd/dev-$G"; then
  echo "BUILD-FAILED" >&2; exit 3
fi
case "${1:-}" in
  case) exec "$BIN/vcheck" -prop "$2" -tier "$3" -case "$4" -variant "${5:-default}" -seed "${VERIF_SEED:-1}" ;;
  replay) exec "$BIN/vcheck" -replay "$2" ;;
  *)    exec "$BIN/vcheck" -prop "$1" -tier "${2:-quick}" -seed "${VERIF_SEED:-1}" ;;
esac
