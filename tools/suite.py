#!/usr/bin/env python3
"""Run the pinned test suite (hooks off) in a tree and compare with BASELINE stable_pass.
usage: suite.py [repo_dir]   -> prints missing passes (tests in stable_pass that did not pass); exit 0 iff none
"""
import json, subprocess, sys, os
repo = sys.argv[1] if len(sys.argv) > 1 else "/repo"
base = json.load(open("/root/.vp/BASELINE.json"))
stable = set(base["stable_pass"])
env = dict(os.environ, GOPROXY="off", GOTOOLCHAIN="auto")
env.pop("GOFLAGS", None); env.pop("GOSUMDB", None)
passed = set(); failed = set()
for m in [".", "plugins/contrib"]:
    p = subprocess.run(["go", "test", "-json", "-vet=off", "-count=1", "-timeout", "25m", "./..."],
                       cwd=os.path.join(repo, m), env=env, capture_output=True, text=True)
    for line in p.stdout.splitlines():
        try: e = json.loads(line)
        except Exception: continue
        if e.get("Test") and e.get("Action") in ("pass", "fail"):
            k = e["Package"] + "::" + e["Test"]
            (passed if e["Action"] == "pass" else failed).add(k)
        elif e.get("Action") == "fail" and not e.get("Test"):
            print("PKG-FAIL", e.get("Package"))
missing = sorted(stable - passed)
# tests that assert wall-clock bounds / metrics are flaky on a loaded machine: re-run the packages of
# missing tests alone (up to twice) before calling them missing
for attempt in range(4):
    if not missing: break
    pkgs = sorted({k.split("::")[0] for k in missing})
    for pkg in pkgs:
        rel = pkg.replace("github.com/els0r/goProbe/v4", ".").replace("github.com/els0r/goProbe/plugins/contrib/v4", ".")
        cwd = repo if "plugins/contrib" not in pkg else os.path.join(repo, "plugins/contrib")
        names = sorted({k.split("::")[1].split("/")[0] for k in missing if k.startswith(pkg + "::")})
        p = subprocess.run(["go", "test", "-json", "-vet=off", "-count=1", "-timeout", "25m", "-run", "^(" + "|".join(names) + ")$", rel],
                           cwd=cwd, env=env, capture_output=True, text=True)
        for line in p.stdout.splitlines():
            try: e = json.loads(line)
            except Exception: continue
            if e.get("Test") and e.get("Action") == "pass":
                passed.add(e["Package"] + "::" + e["Test"]); failed.discard(e["Package"] + "::" + e["Test"])
    missing = sorted(stable - passed)
    print("after retry", attempt + 1, "missing", len(missing))
print("passed", len(passed), "failed", len(failed), "stable", len(stable), "missing", len(missing))
for k in missing: print("MISSING", k)
for k in sorted(failed): print("FAILED", k)
sys.exit(1 if missing else 0)
