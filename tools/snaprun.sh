#!/bin/bash
# usage: snaprun.sh <Cxx> [tier]   run a check from a private snapshot of the harness against /repo (or $VERIF_REPO),
# with evidence/replays redirected to a scratch directory: for experiments that must not disturb /verif/bin or /verif/evidence.
snap=$(mktemp -d /tmp/snaprun.XXXX)
cp -a /verif/run.sh /verif/known_findings.txt /verif/harness "$snap/"
VERIF_OUT="$snap/out" "$snap/run.sh" "$1" "${2:-quick}"
rc=$?
rm -rf "$snap"
exit $rc
