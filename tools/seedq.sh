#!/bin/bash
# usage: seedq.sh <lanes> <seedid>...   confirm + check every seed, <lanes> at a time; log per seed under /tmp/seedq/
mkdir -p /tmp/seedq
lanes=$1; shift
printf '%s\n' "$@" | xargs -P "$lanes" -I{} bash -c 'cd /verif; { python3 tools/seed.py confirm {}; python3 tools/seed.py check {}; } > /tmp/seedq/{}.log 2>&1'
