#!/usr/bin/env python3
"""Seeded-change bookkeeping (mutation trials).  Never touches /repo's working tree: every trial runs in
its own scratch git worktree under /tmp, which is removed afterwards.

  seed.py import  <Cxx> <x> <demo_dir> [src_dir]  copy /tmp/mut-<Cxx>/_seed/<x> into /verif/seeded/<Cxx><x>/
  seed.py confirm <seedid>                        clean tree: demo passes; patched: builds, demo fails, pinned suite passes
  seed.py check   <seedid> [Cyy ...] [--tier t]   run the checks (default: the seed's property) against the patched tree
  seed.py table                                   print the table of all seeds
"""
import json, os, re, shutil, subprocess, sys, time

SEEDED = "/verif/seeded"
ENV = dict(os.environ, GOPROXY="off", GOTOOLCHAIN="auto")
ENV.pop("GOFLAGS", None); ENV.pop("GOSUMDB", None)


def sh(cmd, cwd=None, env=None, timeout=None):
    p = subprocess.run(cmd, cwd=cwd, env=env or ENV, shell=isinstance(cmd, str), capture_output=True, text=True, timeout=timeout)
    return p.returncode, p.stdout + p.stderr


def meta_path(sid): return os.path.join(SEEDED, sid, "meta.json")
def load(sid): return json.load(open(meta_path(sid)))
def save(sid, m): json.dump(m, open(meta_path(sid), "w"), indent=1); open(meta_path(sid), "a").write("\n")


def worktree(sid, patched):
    d = f"/tmp/st-{sid}-{os.getpid()}"
    rc, out = sh(["git", "-C", "/repo", "worktree", "add", "--detach", d, "HEAD"])
    if rc != 0: raise SystemExit(out)
    if patched:
        rc, out = sh(["git", "apply", os.path.join(SEEDED, sid, "patch.diff")], cwd=d)
        if rc != 0:
            drop(d); raise SystemExit("patch does not apply: " + out)
    return d


def drop(d):
    sh(["git", "-C", "/repo", "worktree", "remove", "--force", d])
    shutil.rmtree(d, ignore_errors=True)
    sh(["git", "-C", "/repo", "worktree", "prune"])


def demo_files(sid):
    return [f for f in os.listdir(os.path.join(SEEDED, sid)) if f.endswith(".go")]


def run_demo(sid, m, d):
    runner = os.path.join(SEEDED, sid, "run.sh")
    if os.path.exists(runner):
        # the agent's own demonstration driver (several build configurations / processes): re-target it
        # from the agent's worktree to this scratch worktree and from its _seed directory to /verif/seeded
        wt = m.get("origin_worktree", f"/tmp/mut-{m['property']}")
        sub = m.get("origin_sub", sid[len(m["property"]):])
        txt = open(runner).read().replace(wt, d).replace(f"_seed/{sub}/", os.path.join(SEEDED, sid) + "/")
        tmp = os.path.join(d, ".seed-demo-run.sh")
        open(tmp, "w").write(txt)
        rc, out = sh(["bash", tmp], cwd=d, timeout=2400)
        os.remove(tmp)
        return rc, out[-3000:]
    dd = os.path.join(d, m["demo_dir"])
    os.makedirs(dd, exist_ok=True)
    names = []
    for f in demo_files(sid):
        shutil.copy(os.path.join(SEEDED, sid, f), dd)
        names += re.findall(r"^func (Test\w+)\(", open(os.path.join(SEEDED, sid, f)).read(), re.M)
    if names:
        cmd = ["go", "test", "-vet=off", "-count=1", "-run", "^(" + "|".join(names) + ")$", "./" + m["demo_dir"] + "/"]
    else:
        cmd = ["go", "run", "./" + m["demo_dir"] + "/"]
    cwd = d if not m["demo_dir"].startswith("plugins/contrib") else os.path.join(d, "plugins/contrib")
    rc, out = sh(cmd, cwd=d, timeout=1200)
    for f in demo_files(sid):
        os.remove(os.path.join(dd, f))
    return rc, out[-3000:]


def cmd_import(pid, x, demo_dir, src=None):
    src = src or f"/tmp/mut-{pid}/_seed/{x}"
    sid = pid + x
    dst = os.path.join(SEEDED, sid)
    os.makedirs(dst, exist_ok=True)
    for f in os.listdir(src):
        if f.endswith(".log"): continue
        p = os.path.join(src, f)
        if os.path.isfile(p): shutil.copy(p, dst)
    m = {"seed": sid, "property": pid, "demo_dir": demo_dir, "origin": "independent sub-agent given only the property text and a scratch worktree",
         "needs": "", "confirmed": None, "checks": {}}
    if "/_seed/" in src:
        m["origin_worktree"], m["origin_sub"] = src.split("/_seed/")[0], os.path.basename(src.rstrip("/"))
    if os.path.exists(meta_path(sid)):
        old = load(sid); old.update({k: v for k, v in m.items() if k in ("demo_dir",)}); m = old
    save(sid, m)
    print("imported", sid)


def cmd_confirm(sid):
    m = load(sid)
    res = {"base_commit": sh(["git", "-C", "/repo", "rev-parse", "--short", "HEAD"])[1].strip()}
    d = worktree(sid, False)
    try:
        rc, out = run_demo(sid, m, d)
        res["demo_on_clean_tree"] = "pass" if rc == 0 else "FAIL"
        if rc != 0: res["demo_clean_output"] = out[-1500:]
    finally:
        drop(d)
    d = worktree(sid, True)
    try:
        rc, out = sh("go build ./... && go vet ./" + m["demo_dir"] + "/ >/dev/null 2>&1; cd plugins/contrib && go build ./...", cwd=d)
        res["builds"] = rc == 0
        rc, out = run_demo(sid, m, d)
        res["demo_on_changed_tree"] = "fail" if rc != 0 else "PASS"
        res["demo_changed_output_tail"] = out[-800:]
        rc, out = sh(["python3", "/verif/tools/suite.py", d], timeout=3600)
        res["pinned_suite_on_changed_tree"] = "pass" if rc == 0 else "FAIL"
        res["suite_summary"] = [l for l in out.splitlines() if l.startswith(("passed", "MISSING"))][:12]
    finally:
        drop(d)
    res["ok"] = res["demo_on_clean_tree"] == "pass" and res["builds"] and res["demo_on_changed_tree"] == "fail" and res["pinned_suite_on_changed_tree"] == "pass"
    m = load(sid)  # re-read: other tools may have edited the file meanwhile
    m["confirmed"] = res
    save(sid, m)
    print(sid, "confirm:", "OK" if res["ok"] else "NOT-OK", {k: v for k, v in res.items() if k not in ("demo_changed_output_tail", "suite_summary", "demo_clean_output")})


def cmd_check(sid, props, tier="quick", seed="1"):
    m = load(sid)
    props = props or [m["property"]]
    d = worktree(sid, True)
    out_dir = f"/tmp/st-out-{sid}-{os.getpid()}"
    os.makedirs(out_dir, exist_ok=True)
    # run from a private snapshot of the harness, so that edits in /verif/harness made while the trial
    # runs cannot break (or change) its build
    snap = f"/tmp/st-verif-{sid}-{os.getpid()}"
    os.makedirs(snap, exist_ok=True)
    sh(f"cp -a /verif/run.sh /verif/known_findings.txt /verif/harness {snap}/")
    try:
        for p in props:
            env = dict(ENV, VERIF_REPO=d, VERIF_OUT=out_dir, VERIF_SEED=seed)
            t0 = time.time()
            try:
                rc, out = sh([snap + "/run.sh", p, tier], cwd=snap, env=env, timeout=5400)
            except subprocess.TimeoutExpired:
                rc, out = 99, "timeout"
            sigs = sorted(set(re.findall(r"signature=(\S+)", out)))
            viol = [l for l in out.splitlines() if l.startswith("VIOLATION")]
            m["checks"][f"{p}:{tier}:s{seed}"] = {"exit": rc, "detected": rc == 1 and bool(viol), "signatures": sigs[:12], "wall_s": round(time.time() - t0),
                                      "first_witness": next((l.strip()[:400] for l in out.splitlines() if l.strip().startswith("witness")), "")}
            print(sid, p, tier, "exit", rc, "DETECTED" if rc == 1 and viol else "missed", sigs[:4])
            if rc not in (0, 1):
                print(out[-1500:])
    finally:
        drop(d); shutil.rmtree(out_dir, ignore_errors=True); shutil.rmtree(snap, ignore_errors=True)
    cur = load(sid)  # re-read: other tools may have edited the file meanwhile
    cur.setdefault("checks", {}).update(m["checks"])
    save(sid, cur)


def cmd_table():
    for sid in sorted(os.listdir(SEEDED)):
        if not os.path.exists(meta_path(sid)): continue
        m = load(sid)
        c = m.get("confirmed") or {}
        det = {k: ("DET" if v["detected"] else "miss(%s)" % v["exit"]) for k, v in m.get("checks", {}).items()}
        print(f"{sid:8} conf={'ok' if c.get('ok') else ('-' if not c else 'NO')} {det} :: {m.get('needs','')[:110]}")


def cmd_design():
    """print a compact markdown table (seed, caught by which checks) for DESIGN.md §6"""
    print("| seed | caught by (quick tier, VERIF_SEED=1) | missed by | confirmed |")
    print("|---|---|---|---|")
    for sid in sorted(os.listdir(SEEDED)):
        if not os.path.exists(meta_path(sid)): continue
        m = load(sid)
        det = sorted({k.split(":")[0] for k, v in m.get("checks", {}).items() if v["detected"]})
        mis = sorted({k.split(":")[0] for k, v in m.get("checks", {}).items() if not v["detected"]} - set(det))
        c = m.get("confirmed") or {}
        print(f"| {sid} | {', '.join(det) or '—'} | {', '.join(mis) or '—'} | {'yes' if c.get('ok') else ('no' if c else 'not run')} |")


def cmd_readme():
    """write /verif/seeded/README.md: one row per seeded change"""
    rows = []
    for sid in sorted(os.listdir(SEEDED)):
        if not os.path.exists(meta_path(sid)): continue
        m = load(sid)
        c = m.get("confirmed") or {}
        conf = "yes" if c.get("ok") else ("not yet" if not c else "NO")
        det = []
        for k, v in sorted(m.get("checks", {}).items()):
            prop, tier, seed = k.split(":")
            tag = f"{prop} {tier}" + ("" if seed == "s1" else f" {seed}")
            det.append(f"**{tag}: caught**" + (f" (`{v['signatures'][0].replace('|', chr(92)+'|')}`" + (f" +{len(v['signatures'])-1}" if len(v['signatures']) > 1 else "") + ")" if v["signatures"] else "") if v["detected"] else f"{tag}: missed (exit {v['exit']})")
        note = m.get("note", "")
        rows.append(f"| {sid} | {m['property']} | {m.get('needs','').replace('|','/')} | {conf} | {'; '.join(det) or '-'} | {note} |")
    head = """# Seeded changes (mutation trials)

Each directory holds a change to els0r/goProbe written by an independent sub-agent that was given only the text of
one property and its own scratch worktree (nothing from /verif): `patch.diff`, the agent's demonstration
(`demo_test.go`, to be placed in `meta.json:demo_dir`), its `NOTES.md`, and `meta.json` (what the change needs in order
to manifest, what was confirmed here, and which checks caught it). "confirmed" = in a fresh scratch worktree of /repo's
HEAD the demonstration passes on the clean tree, and with the patch applied the tree builds, the demonstration fails and
the pinned test suite still passes (`tools/seed.py confirm`). Checks are run against the patched scratch worktree with
`VERIF_REPO=<worktree> ./run.sh <id> <tier>` (`tools/seed.py check`); nothing is ever applied to /repo.

| seed | property | what it needs to manifest | confirmed | checks | note |
|---|---|---|---|---|---|
"""
    open(os.path.join(SEEDED, "README.md"), "w").write(head + "\n".join(rows) + "\n")
    print("wrote", os.path.join(SEEDED, "README.md"), len(rows), "seeds")


if __name__ == "__main__":
    a = sys.argv[1:]
    if a[0] == "import": cmd_import(*a[1:])
    elif a[0] == "confirm": cmd_confirm(a[1])
    elif a[0] == "check":
        tier = "quick"; seed = "1"; rest = []
        it = iter(a[2:])
        for v in it:
            if v == "--tier": tier = next(it)
            elif v == "--seed": seed = next(it)
            else: rest.append(v)
        cmd_check(a[1], rest, tier, seed)
    elif a[0] == "table": cmd_table()
    elif a[0] == "readme": cmd_readme()
    elif a[0] == "design": cmd_design()
