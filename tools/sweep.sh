#!/bin/bash
# usage: sweep.sh <seed> [tier] [checks...]   run checks from a private snapshot of the harness against /repo at the given
# VERIF_SEED, evidence/replays redirected; prints one line per check. For robustness sweeps that must not disturb /verif.
seed=$1; tier=${2:-quick}; shift; shift
checks=${*:-C01 C02 C03 C04 C05 C06 C07 C08 C09 C10 C11 C12 C13 C14 C15 C16 C17 C18 C19 C20 C21 C22 C23 C24 C25 C26 C27 C28 C29 C30 C31}
snap=$(mktemp -d /tmp/sweep.XXXX)
cp -a /verif/run.sh /verif/known_findings.txt /verif/harness "$snap/"
for c in $checks; do
  s=$(date +%s)
  VERIF_SEED=$seed VERIF_OUT="$snap/out" "$snap/run.sh" "$c" "$tier" > "$snap/$c.log" 2>&1
  rc=$?
  echo "$c seed=$seed exit=$rc $(( $(date +%s)-s ))s $(grep -E '^VIOLATION' "$snap/$c.log" | sed -E 's/.*signature=([^ ]*).*/\1/' | tr '\n' ' ') $(grep -E '^INCONCL' "$snap/$c.log" | cut -c1-160 | head -2 | tr '\n' ' ')"
done
rm -rf "$snap"
