#!/usr/bin/env python3
"""Create a scratch worktree for a mutation sub-agent and print its prompt. usage: mutprompt.py Cxx [suffix]"""
import json, subprocess, sys
pid = sys.argv[1]; suf = sys.argv[2] if len(sys.argv) > 2 else ""
d = f"/tmp/mut-{pid}{suf}"
subprocess.run(["git", "-C", "/repo", "worktree", "add", "--detach", d, "HEAD"], check=True, capture_output=True)
prop = [json.loads(l) for l in open("/verif/properties.jsonl") if json.loads(l)["id"] == pid][0]
for k in ("added_in_round", "source"): prop.pop(k, None)
print(f"""You are working in a scratch git worktree of the Go project els0r/goProbe at {d} (detached HEAD). Work ONLY inside {d}. Do not touch or read /repo, and do not read anything under /verif or /root/.vp.

Here is a semantic property of goProbe that should always hold:

{json.dumps(prop, indent=1)}

Task: produce TWO distinct, independent changes (call them a and b; different mechanisms / code sites) to the goProbe source (non-test files only; do not touch files named verif_hooks.go) that each BREAK this property while (1) still compiling, (2) still passing the whole existing test suite, unchanged. Each change should look like a realistic bug a developer might introduce (a refactor slip, an off-by-one, a dropped lock/flush/seek/copy, reordered operations, a wrong bound, a stale cache, ...) and should need something specific to manifest — a particular interleaving, a crash or fault at a particular point, a multi-step sequence of operations, an unusual input, or two cooperating sites that each look fine alone — NOT something ordinary use would expose at once. Keep each change small (a few lines). It must violate the property as stated (observable through the public API / observable effects), not merely an internal detail.

For each change X in (a, b) deliver in {d}/_seed/X/:
 - patch.diff : `git diff` of the source change alone, applying cleanly to the clean tree with `git apply`
 - a demonstration: a Go test file (e.g. demo_test.go; say in NOTES.md in which package directory it must be placed to run) or a small program which FAILS with the change applied and PASSES on the clean tree
 - NOTES.md : what the change is, what exactly it needs in order to manifest, and the exact commands you ran with their outcomes (demo with and without the change; the test suite with the change).

Environment: offline sandbox, nothing can be downloaded. For every shell call: `export GOPROXY=off GOTOOLCHAIN=auto; unset GOFLAGS GOSUMDB`, and run go commands from within {d} (it has a go.work). The test suite is: `cd {d} && go test -vet=off -count=1 -timeout 25m ./...` and `cd {d}/plugins/contrib && go test -vet=off -count=1 ./...`. The test TestResolveInConditional (pkg/goDB/conditions/node) fails on the unchanged tree too (it needs DNS): ignore it. Everything else passes on the clean tree and must still pass with each change. The full suite takes ~4 minutes and the 16 cores are shared with other jobs, so while iterating run only the packages you touched and their dependants (always include ./pkg/e2etest/... and ./pkg/goDB/... when relevant), and run the full suite once per final change. Never print raw `go test -json` output. Known load-dependent flakes you may ignore if they pass when re-run alone: pkg/query/dns TestTimeout, and the Prometheus metrics comparison in pkg/e2etest. Other agents work in sibling worktrees of the same git repository: NEVER use `git stash` (the stash is shared between worktrees), never switch branches, and restore files with `git checkout -- <file>` only.

When finished leave the worktree clean (git checkout -- . ; remove demo files from the source tree) except for the untracked _seed directory. Final answer: for each of a and b one paragraph (what changed, what it needs to manifest, test-suite result), nothing else.""")
