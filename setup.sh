#!/bin/bash
# setup_cmd: warm the Go build cache and build the harness binaries from files on disk only.
set -u
VERIF_DIR="$(cd "$(dirname "$0")" && pwd)"
export GOFLAGS=-mod=mod GOPROXY=off GOWORK=off GOTOOLCHAIN=auto
unset GOSUMDB
cd "$VERIF_DIR/harness" || exit 1
mkdir -p "$VERIF_DIR/bin" "$VERIF_DIR/evidence" "$VERIF_DIR/replays"
go build -tags verif -o "$VERIF_DIR/bin/vcheck" ./cmd/vcheck || exit 1
# warm the other build configurations in the background-safe way (failures here are not fatal:
# each check rebuilds what it needs)
go build -race -tags verif -o "$VERIF_DIR/bin/vcheck.race" ./cmd/vcheck || true
CGO_ENABLED=0 go build -tags verif -o "$VERIF_DIR/bin/vcheck.nocgo" ./cmd/vcheck || true
echo setup done
